(* C15 lemmas *)
From Coq Require Import ZArith List Bool Lia.
From C15 Require Import Model_C15.
Import ListNotations.
Local Open Scope Z_scope.


(* ------------------------------------------------------------------------------------------ *)
(* modular arithmetic helpers *)

Lemma pow2_pos k : 0 <= k -> 0 < 2 ^ k.
Proof. intros; apply Z.pow_pos_nonneg; lia. Qed.

Lemma pow2_split a b : 0 <= a -> 0 <= b -> 2 ^ (a + b) = 2 ^ a * 2 ^ b.
Proof. intros; apply Z.pow_add_r; lia. Qed.

Lemma mod_mod_pow2 z a b : 0 <= a <= b -> (z mod 2 ^ b) mod 2 ^ a = z mod 2 ^ a.
Proof.
  intros [Ha Hab].
  replace b with (a + (b - a)) by lia.
  rewrite pow2_split by lia.
  rewrite Z.rem_mul_r by (apply Z.pow_nonzero || apply pow2_pos; lia).
  rewrite Z.mul_comm, Z.mod_add by (apply Z.pow_nonzero; lia).
  apply Z.mod_mod. apply Z.pow_nonzero; lia.
Qed.

Lemma recenter_mod n z : 0 < n -> (recenter n z) mod 2 ^ n = z mod 2 ^ n.
Proof.
  intros Hn. unfold recenter. destruct (z >=? 2 ^ (n - 1)); auto.
  replace (z - 2 ^ n) with (z + (-1) * 2 ^ n) by lia.
  apply Z.mod_add. apply Z.pow_nonzero; lia.
Qed.

Lemma recenter_range n z : 0 < n -> 0 <= z < 2 ^ n -> - 2 ^ (n - 1) <= recenter n z < 2 ^ (n - 1).
Proof.
  intros Hn Hz. unfold recenter.
  assert (2 ^ n = 2 * 2 ^ (n - 1)).
  { replace n with (1 + (n - 1)) at 1 by lia. rewrite pow2_split by lia. reflexivity. }
  assert (0 < 2 ^ (n - 1)) by (apply pow2_pos; lia).
  destruct (Z.geb_spec z (2 ^ (n - 1))); lia.
Qed.

Lemma recenter_id n z : 0 < n -> - 2 ^ (n - 1) <= z < 2 ^ (n - 1) -> recenter n (z mod 2 ^ n) = z.
Proof.
  intros Hn Hz.
  assert (E : 2 ^ n = 2 * 2 ^ (n - 1)).
  { replace n with (1 + (n - 1)) at 1 by lia. rewrite pow2_split by lia. reflexivity. }
  assert (P : 0 < 2 ^ (n - 1)) by (apply pow2_pos; lia).
  unfold recenter.
  destruct (Z_lt_le_dec z 0).
  - assert (z mod 2 ^ n = z + 2 ^ n).
    { symmetry. apply Z.mod_unique with (q := -1); lia. }
    rewrite H. destruct (Z.geb_spec (z + 2 ^ n) (2 ^ (n - 1))); lia.
  - rewrite Z.mod_small by lia. destruct (Z.geb_spec z (2 ^ (n - 1))); lia.
Qed.

(* wrap_i at a narrower width of a value already wrapped at a wider width *)
Lemma wrap_i_narrow a b z : 0 < a <= b -> wrap_i a (wrap_i b z) = wrap_i a z.
Proof.
  intros [Ha Hab]. unfold wrap_i.
  f_equal.
  rewrite <- (mod_mod_pow2 (recenter b (z mod 2 ^ b)) a b) by lia.
  rewrite recenter_mod by lia.
  rewrite Z.mod_mod by (apply Z.pow_nonzero; lia).
  apply mod_mod_pow2; lia.
Qed.
Lemma wrap_u_narrow a b z : 0 < a <= b -> wrap_u a (wrap_i b z) = wrap_u a z.
Proof.
  intros [Ha Hab]. unfold wrap_u, wrap_i.
  rewrite <- (mod_mod_pow2 (recenter b (z mod 2 ^ b)) a b) by lia.
  rewrite recenter_mod by lia.
  rewrite Z.mod_mod by (apply Z.pow_nonzero; lia).
  apply mod_mod_pow2; lia.
Qed.

(* truncated remainder followed by a wrapping cast is the floored modulus *)
Lemma rem_mod_pow2 z n : 0 < n -> (Z.rem z (2 ^ n)) mod 2 ^ n = z mod 2 ^ n.
Proof.
  intros Hn.
  assert (P : 2 ^ n <> 0) by (apply Z.pow_nonzero; lia).
  pose proof (Z.quot_rem' z (2 ^ n)) as E.
  rewrite E at 2.
  rewrite Z.add_comm, Z.mul_comm, Z.mod_add by exact P. reflexivity.
Qed.

Lemma sgn_cases s : sgn s = 1 \/ sgn s = -1.
Proof. destruct s; cbn; auto. Qed.

(* ------------------------------------------------------------------------------------------ *)
(* conversions on this tree, inside the range where `as i64` does not saturate *)

Definition wf_fval (x : fval) : Prop := match x with FFin _ m _ => 0 <= m | _ => True end.

Lemma sat_i64_id z : - 2 ^ 63 <= z < 2 ^ 63 -> sat_i64 z = z.
Proof. unfold sat_i64, sat. lia. Qed.

Lemma truncate_zero x : is_zero x = true -> truncate x = 0.
Proof.
  destruct x as [| neg | neg m e]; try discriminate. unfold is_zero, truncate, trunc_mag.
  intros H. apply Z.eqb_eq in H. subst m.
  destruct (Z.leb_spec 0 e).
  - lia.
  - rewrite Z.div_0_l by (apply Z.pow_nonzero; lia). lia.
Qed.

Lemma to_intN_old_in_range n x : 0 < n ->
  - 2 ^ 63 <= truncate x < 2 ^ 63 -> to_intN_old n x = ToIntN_spec n x.
Proof.
  intros Hn Hr. unfold to_intN_old, ToIntN_spec.
  assert (P : 2 ^ n <> 0) by (apply Z.pow_nonzero; lia).
  destruct x as [| neg | neg m e]; cbn [truncate]; try (rewrite Z.mod_0_l by exact P; unfold recenter;
     destruct (Z.geb_spec 0 (2 ^ (n - 1))); auto; pose proof (pow2_pos (n - 1)); lia).
  destruct (is_zero (FFin neg m e)) eqn:Ez.
  - apply truncate_zero in Ez. cbn [truncate] in Ez. rewrite Ez.
    rewrite Z.mod_0_l by exact P. unfold recenter.
    destruct (Z.geb_spec 0 (2 ^ (n - 1))); auto. pose proof (pow2_pos (n - 1)); lia.
  - unfold int_of_number_old. rewrite sat_i64_id by exact Hr. cbn [truncate].
    set (t := sgn neg * trunc_mag m e).
    assert (W : forall r, r mod 2 ^ n = t mod 2 ^ n -> wrap_i n r = recenter n (t mod 2 ^ n)).
    { intros r E. unfold wrap_i. rewrite E. reflexivity. }
    destruct (Z.rem t (2 ^ n) >=? 2 ^ (n - 1)); apply W.
    + replace (Z.rem t (2 ^ n) - 2 ^ n) with (Z.rem t (2 ^ n) + (-1) * 2 ^ n) by lia.
      rewrite Z.mod_add by exact P. apply rem_mod_pow2; lia.
    + apply rem_mod_pow2; lia.
Qed.

Lemma to_uintN_old_in_range n x : 0 < n ->
  - 2 ^ 63 <= truncate x < 2 ^ 63 -> to_uintN_old n x = ToUintN_spec n x.
Proof.
  intros Hn Hr. unfold to_uintN_old, ToUintN_spec.
  assert (P : 2 ^ n <> 0) by (apply Z.pow_nonzero; lia).
  destruct x as [| neg | neg m e]; cbn [truncate]; try (rewrite Z.mod_0_l by exact P; reflexivity).
  destruct (is_zero (FFin neg m e)) eqn:Ez.
  - apply truncate_zero in Ez. cbn [truncate] in Ez. rewrite Ez. rewrite Z.mod_0_l by exact P. reflexivity.
  - unfold int_of_number_old. rewrite sat_i64_id by exact Hr. cbn [truncate].
    unfold wrap_u. apply rem_mod_pow2; lia.
Qed.

(* ------------------------------------------------------------------------------------------ *)
(* f64_to_int32: the bit algorithm is ToInt32 *)

Lemma core_spec s m e : 0 <= m < 2 ^ 53 ->
  f64_to_int32_core s m e = ToIntN_spec 32 (FFin s m e).
Proof.
  intros Hm. unfold f64_to_int32_core, ToIntN_spec. cbn [truncate]. unfold trunc_mag.
  assert (Z32 : recenter 32 0 = 0) by reflexivity.
  destruct (Z.ltb_spec e 0).
  - destruct (Z.leb_spec 0 e); [lia|].
    destruct (Z.leb_spec e (-53)).
    + assert (m / 2 ^ (- e) = 0).
      { apply Z.div_small. split; [lia|].
        apply Z.lt_le_trans with (2 ^ 53); [lia|]. apply Z.pow_le_mono_r; lia. }
      rewrite H2, Z.mul_0_r. reflexivity.
    + rewrite Z.shiftr_div_pow2 by lia. reflexivity.
  - destruct (Z.leb_spec 0 e); [|lia].
    destruct (Z.ltb_spec 31 e).
    + replace e with (32 + (e - 32)) by lia. rewrite pow2_split by lia.
      replace (sgn s * (m * (2 ^ 32 * 2 ^ (e - 32)))) with ((sgn s * m * 2 ^ (e - 32)) * 2 ^ 32) by lia.
      rewrite Z.mod_mul by (apply Z.pow_nonzero; lia). reflexivity.
    + unfold wrap_i. f_equal.
      change 4294967295 with (Z.ones 32). rewrite Z.land_ones by lia.
      unfold u64. rewrite mod_mod_pow2 by lia.
      rewrite Z.shiftl_mul_pow2 by lia.
      rewrite Z.mul_mod_idemp_r by (apply Z.pow_nonzero; lia). reflexivity.
Qed.

Lemma fin_cmp_eq_bounds s m e lo hi :
  fin_cmp_int s m e (sgn s * trunc_mag m e) = Eq ->
  fin_cmp_int s m e hi <> Gt -> fin_cmp_int s m e lo <> Lt ->
  lo <= sgn s * trunc_mag m e <= hi.
Proof.
  unfold fin_cmp_int, trunc_mag. destruct (Z.leb_spec 0 e) as [He | He].
  - intros _ H1 H2.
    replace (sgn s * m * 2 ^ e) with (sgn s * (m * 2 ^ e)) in * by ring.
    generalize dependent (sgn s * (m * 2 ^ e)). intros t H1 H2.
    split.
    + destruct (Z.compare_spec t lo); try lia. congruence.
    + destruct (Z.compare_spec t hi); try lia. congruence.
  - assert (P : 0 < 2 ^ (- e)) by (apply pow2_pos; lia).
    generalize dependent (2 ^ (- e)). intros p P.
    generalize dependent (m / p). intros q.
    generalize dependent (sgn s * m). intros v.
    intros E3 H1 H2. apply Z.compare_eq in E3. subst v.
    split.
    + destruct (Z.compare_spec (sgn s * q * p) (lo * p)); try nia. congruence.
    + destruct (Z.compare_spec (sgn s * q * p) (hi * p)); try nia. congruence.
Qed.

Lemma fast_i32_spec x i : wf_fval x -> fast_i32 x = Some i -> i = ToIntN_spec 32 x.
Proof.
  destruct x as [| neg | s m e]; cbn [fast_i32 wf_fval]; try discriminate.
  intros Hm H.
  assert (B : fin_cmp_int s m e (sgn s * trunc_mag m e) = Eq /\
              fin_cmp_int s m e 2147483647 <> Gt /\ fin_cmp_int s m e (-2147483648) <> Lt /\
              i = sgn s * trunc_mag m e).
  { destruct (fin_cmp_int s m e 2147483647); destruct (fin_cmp_int s m e (-2147483648));
      try discriminate;
      destruct (fin_cmp_int s m e (sgn s * trunc_mag m e)); try discriminate;
      injection H as <-; repeat split; congruence. }
  destruct B as (B1 & B2 & B3 & ->).
  pose proof (fin_cmp_eq_bounds s m e _ _ B1 B2 B3) as R.
  unfold ToIntN_spec; cbn [truncate]. symmetry. apply recenter_id; [lia|].
  change (2 ^ (32 - 1)) with 2147483648. lia.
Qed.

Lemma wf_dbl_fval d : wf_dbl d -> wf_fval (fval_of_dbl d).
Proof.
  intros [H1 H2]. unfold fval_of_dbl.
  destruct (d_be d =? 2047); [destruct (d_frac d =? 0); exact I|].
  destruct (d_be d =? 0); cbn; lia.
Qed.

Lemma f64_to_int32_spec_lemma d : wf_dbl d -> f64_to_int32 d = ToIntN_spec 32 (fval_of_dbl d).
Proof.
  intros W. unfold f64_to_int32.
  destruct (fast_i32 (fval_of_dbl d)) eqn:F.
  - apply fast_i32_spec in F; auto using wf_dbl_fval.
  - clear F. destruct W as [H1 H2].
    unfold fval_of_dbl, f64_significand, f64_exponent.
    destruct (Z.eqb_spec (d_be d) 2047) as [E | E].
    + (* NaN / Inf: exponent 972 > 31 *)
      rewrite E. cbn. destruct (d_frac d =? 0); reflexivity.
    + destruct (Z.eqb_spec (d_be d) 0) as [E0 | E0].
      * apply core_spec. lia.
      * apply core_spec. change (2 ^ 53) with (2 ^ 52 + 2 ^ 52). lia.
Qed.

Lemma f64_to_int32_range d : wf_dbl d -> - 2 ^ 31 <= f64_to_int32 d < 2 ^ 31.
Proof.
  intros W. rewrite f64_to_int32_spec_lemma by exact W. unfold ToIntN_spec.
  apply (recenter_range 32); [lia|]. apply Z.mod_pos_bound. reflexivity.
Qed.

(* ------------------------------------------------------------------------------------------ *)
(* ToUint8Clamp *)

(* integer case *)
Lemma clamp_int m e : 0 <= m -> 0 <= e ->
  to_uint8_clamp (FFin false m e) = ToUint8Clamp_spec (FFin false m e).
Proof.
  intros Hm He. cbn [to_uint8_clamp ToUint8Clamp_spec]. unfold fin_cmp_int, trunc_mag. cbn [sgn].
  destruct (Z.leb_spec 0 e); [|lia].
  assert (P : 0 < 2 ^ e) by (apply pow2_pos; lia).
  replace (1 * m * 2 ^ e) with (m * 2 ^ e) by ring.
  replace (1 * (2 * m) * 2 ^ e) with (2 * (m * 2 ^ e)) by ring.
  replace (2 * m * 2 ^ e) with (2 * (m * 2 ^ e)) by ring.
  assert (V : 0 <= m * 2 ^ e) by (apply Z.mul_nonneg_nonneg; lia).
  generalize dependent (m * 2 ^ e). intros v V.
  destruct (Z.compare_spec v 0); [subst; reflexivity | lia |].
  destruct (Z.compare_spec v 255).
  - subst. reflexivity.
  - destruct (Z.leb_spec 510 (2 * v)); [lia|].
    destruct (Z.compare_spec (2 * v) (2 * v + 1)); try lia.
    replace (2 * v + 1) with (1 + v * 2) by ring. rewrite Z.div_add by lia. reflexivity.
  - destruct (Z.leb_spec 510 (2 * v)); [reflexivity | lia].
Qed.

(* pure arithmetic core: p > 0, m = f*p + r *)
Lemma clamp_frac_core m p : 0 <= m -> 0 < p ->
  (match m ?= 0 * p with Lt | Eq => 0 | Gt =>
   match m ?= 255 * p with Gt | Eq => 255 | Lt =>
     let f := m / p in
     match (2 * m) ?= ((2 * f + 1) * p) with Gt => f + 1 | Lt => f | Eq => if Z.odd f then f + 1 else f end end end)
  = (let t2 := (2 * m) / p in
     if 510 <=? t2 then 255 else
     if ((2 * m) mod p =? 0) && Z.odd ((2 * m) / p) then (let f := t2 / 2 in if Z.even f then f else f + 1) else (t2 + 1) / 2).
Proof.
  intros Hm P. cbv zeta.
  pose proof (Z.div_mod m p ltac:(lia)) as Dm.
  pose proof (Z.mod_pos_bound m p P) as Rm.
  set (f := m / p) in *. set (r := m mod p) in *.
  assert (Hf : 0 <= f) by (apply Z.div_pos; lia).
  assert (T2 : (2 * m) / p = 2 * f + (2 * r) / p).
  { replace (2 * m) with (2 * r + (2 * f) * p) by lia. rewrite Z.div_add by lia. lia. }
  assert (M2 : (2 * m) mod p = (2 * r) mod p).
  { replace (2 * m) with (2 * r + (2 * f) * p) by lia. apply Z.mod_add. lia. }
  rewrite T2, M2.
  destruct (Z_lt_le_dec (2 * r) p) as [L | L].
  - (* below the midpoint *)
    rewrite (Z.div_small (2 * r)) by lia. rewrite (Z.mod_small (2 * r)) by lia.
    replace (2 * f + 0) with (2 * f) by lia.
    assert (O : Z.odd (2 * f) = false) by (rewrite Z.odd_mul; reflexivity).
    rewrite O, andb_false_r.
    replace (2 * f + 1) with (1 + f * 2) at 2 by lia. rewrite Z.div_add by lia.
    change (1 / 2) with 0. rewrite Z.add_0_l.
    destruct (Z.compare_spec m (0 * p)).
    + assert (f = 0) by nia. subst f. rewrite H0. reflexivity.
    + lia.
    + destruct (Z.compare_spec m (255 * p)).
      * assert (f = 255) by nia. rewrite H1. reflexivity.
      * assert (f < 255) by nia. destruct (Z.leb_spec 510 (2 * f)); [lia|].
        destruct (Z.compare_spec (2 * m) ((2 * f + 1) * p)); [nia | reflexivity | nia].
      * assert (255 <= f) by nia. destruct (Z.leb_spec 510 (2 * f)); [reflexivity | lia].
  - assert (D1 : (2 * r) / p = 1) by (symmetry; apply Z.div_unique with (2 * r - p); lia).
    assert (M1 : (2 * r) mod p = 2 * r - p) by (symmetry; apply Z.mod_unique with 1; lia).
    rewrite D1, M1.
    assert (O : Z.odd (2 * f + 1) = true) by (rewrite Z.odd_add, Z.odd_mul; reflexivity).
    rewrite O, andb_true_r.
    replace ((2 * f + 1) / 2) with f by (apply Z.div_unique with 1; lia).
    replace ((2 * f + 1 + 1) / 2) with (f + 1) by (apply Z.div_unique with 0; lia).
    destruct (Z.compare_spec m (0 * p)); [nia | lia |].
    destruct (Z.compare_spec m (255 * p)).
    + assert (f = 255) by (unfold f; symmetry; apply Z.div_unique with 0; lia). lia.
    + assert (f < 255) by nia. destruct (Z.leb_spec 510 (2 * f + 1)); [lia|].
      destruct (Z.compare_spec (2 * m) ((2 * f + 1) * p)).
      * assert (Z0 : 2 * r - p = 0) by nia. rewrite Z0. cbn [Z.eqb].
        rewrite <- Z.negb_odd. destruct (Z.odd f); reflexivity.
      * nia.
      * assert (2 * r - p <> 0) by nia. destruct (Z.eqb_spec (2 * r - p) 0); [lia|]. reflexivity.
    + assert (255 <= f) by nia. destruct (Z.leb_spec 510 (2 * f + 1)); [reflexivity | lia].
Qed.

Lemma to_uint8_clamp_spec_lemma x : wf_fval x -> to_uint8_clamp x = ToUint8Clamp_spec x.
Proof.
  destruct x as [| neg | s m e]; cbn [wf_fval]; auto.
  intros Hm. destruct s.
  - (* negative or -0: value <= 0 *)
    cbn [to_uint8_clamp ToUint8Clamp_spec].
    assert (N : fin_cmp_int true m e 0 <> Gt).
    { unfold fin_cmp_int. cbn [sgn]. destruct (Z.leb_spec 0 e).
      - assert (P : 0 < 2 ^ e) by (apply pow2_pos; lia).
        replace (-1 * m * 2 ^ e) with (- (m * 2 ^ e)) by ring.
        assert (0 <= m * 2 ^ e) by (apply Z.mul_nonneg_nonneg; lia).
        destruct (Z.compare_spec (- (m * 2 ^ e)) 0); try discriminate. lia.
      - destruct (Z.compare_spec (-1 * m) (0 * 2 ^ (- e))); try discriminate. lia. }
    destruct (fin_cmp_int true m e 0); congruence.
  - destruct (Z_le_gt_dec 0 e) as [He | He].
    + apply clamp_int; assumption.
    + cbn [to_uint8_clamp ToUint8Clamp_spec]. unfold fin_cmp_int, trunc_mag. cbn [sgn].
      destruct (Z.leb_spec 0 e); [lia|].
      replace (1 * m) with m by ring. replace (1 * (2 * m)) with (2 * m) by ring.
      apply clamp_frac_core; [assumption | apply pow2_pos; lia].
Qed.

(* ------------------------------------------------------------------------------------------ *)
(* the conversion table *)

Lemma conv_fixed_spec_lemma k d : wf_dbl d -> is_int_kind k = true ->
  conv_fixed k d = conv_spec_fn k (fval_of_dbl d).
Proof.
  intros W K. pose proof (f64_to_int32_spec_lemma d W) as E.
  destruct k; try discriminate; cbn [conv_fixed conv_spec_fn].
  - rewrite E. unfold ToIntN_spec. fold (wrap_i 32 (truncate (fval_of_dbl d))).
    rewrite wrap_i_narrow by lia. reflexivity.
  - rewrite E. unfold ToIntN_spec, ToUintN_spec. fold (wrap_i 32 (truncate (fval_of_dbl d))).
    rewrite wrap_u_narrow by lia. reflexivity.
  - apply to_uint8_clamp_spec_lemma, wf_dbl_fval, W.
  - rewrite E. unfold ToIntN_spec. fold (wrap_i 32 (truncate (fval_of_dbl d))).
    rewrite wrap_i_narrow by lia. reflexivity.
  - rewrite E. unfold ToIntN_spec, ToUintN_spec. fold (wrap_i 32 (truncate (fval_of_dbl d))).
    rewrite wrap_u_narrow by lia. reflexivity.
  - exact E.
  - unfold f64_to_uint32. rewrite E. unfold ToIntN_spec, ToUintN_spec.
    fold (wrap_i 32 (truncate (fval_of_dbl d))). rewrite wrap_u_narrow by lia. reflexivity.
Qed.

Lemma conv_old_in_range_lemma k d : wf_dbl d -> is_int_kind k = true ->
  - 2 ^ 63 <= truncate (fval_of_dbl d) < 2 ^ 63 ->
  conv_old k d = conv_spec_fn k (fval_of_dbl d).
Proof.
  intros W K R.
  destruct k; try discriminate; cbn [conv_old conv_spec_fn].
  - apply to_intN_old_in_range; [lia | exact R].
  - apply to_uintN_old_in_range; [lia | exact R].
  - apply to_uint8_clamp_spec_lemma, wf_dbl_fval, W.
  - apply to_intN_old_in_range; [lia | exact R].
  - apply to_uintN_old_in_range; [lia | exact R].
  - apply f64_to_int32_spec_lemma, W.
  - unfold f64_to_uint32. rewrite f64_to_int32_spec_lemma by exact W. unfold ToIntN_spec, ToUintN_spec.
    fold (wrap_i 32 (truncate (fval_of_dbl d))). rewrite wrap_u_narrow by lia. reflexivity.
Qed.

(* range of the specified values *)
Lemma conv_spec_range k x : is_int_kind k = true ->
  match k with
  | Int8 => -128 <= conv_spec_fn k x < 128
  | Int16 => -32768 <= conv_spec_fn k x < 32768
  | Int32 => -2147483648 <= conv_spec_fn k x < 2147483648
  | Uint8 => 0 <= conv_spec_fn k x < 256
  | Uint16 => 0 <= conv_spec_fn k x < 65536
  | Uint32 => 0 <= conv_spec_fn k x < 4294967296
  | _ => True
  end.
Proof.
  intros K. destruct k; try discriminate; cbn [conv_spec_fn]; auto; unfold ToIntN_spec, ToUintN_spec.
  - apply (recenter_range 8); [lia|]. apply Z.mod_pos_bound. reflexivity.
  - apply Z.mod_pos_bound. reflexivity.
  - apply (recenter_range 16); [lia|]. apply Z.mod_pos_bound. reflexivity.
  - apply Z.mod_pos_bound. reflexivity.
  - apply (recenter_range 32); [lia|]. apply Z.mod_pos_bound. reflexivity.
  - apply Z.mod_pos_bound. reflexivity.
Qed.

(* ------------------------------------------------------------------------------------------ *)
(* bounds *)

Definition wf_tarr (t : tarr) : Prop :=
  0 <= t_off t /\
  match t_alen t with
  | Some l => 0 <= l /\ t_off t + l * esize (t_kind t) < 2 ^ 64
  | None => True
  end.
Definition wf_dview (v : dview) : Prop :=
  0 <= v_off v /\ match v_blen v with Some l => 0 <= l /\ v_off v + l < 2 ^ 64 | None => True end.

Lemma esize_pos k : 0 < esize k <= 8.
Proof. destruct k; cbn; lia. Qed.

Lemma u64_small z : 0 <= z < 2 ^ 64 -> u64 z = z.
Proof. intros. unfold u64. apply Z.mod_small. assumption. Qed.

Lemma ta_oob_false t buflen : wf_tarr t -> 0 <= buflen < 2 ^ 64 -> ta_oob t buflen = false ->
  t_off t <= buflen /\
  match t_alen t with Some l => t_off t + l * esize (t_kind t) <= buflen | None => True end.
Proof.
  intros [Ho Hl] Hb. unfold ta_oob. intros H. apply orb_false_elim in H. destruct H as [H1 H2].
  apply Z.ltb_ge in H1. apply Z.ltb_ge in H2. split; [exact H1|].
  destruct (t_alen t) as [l|]; [|exact I].
  destruct Hl as [Hl0 Hl1]. pose proof (esize_pos (t_kind t)).
  assert (0 <= l * esize (t_kind t)) by (apply Z.mul_nonneg_nonneg; lia).
  rewrite (u64_small (l * esize (t_kind t))) in H2 by lia.
  rewrite u64_small in H2 by lia. exact H2.
Qed.

Lemma ta_length_bound t buflen : wf_tarr t -> 0 <= buflen < 2 ^ 64 -> ta_oob t buflen = false ->
  0 <= ta_length t buflen /\ t_off t + ta_length t buflen * esize (t_kind t) <= buflen.
Proof.
  intros W Hb H. pose proof (ta_oob_false t buflen W Hb H) as [H1 H2].
  destruct W as [Ho Hl]. unfold ta_length. pose proof (esize_pos (t_kind t)).
  destruct (t_alen t) as [l|].
  - destruct Hl. split; [lia | exact H2].
  - rewrite u64_small by lia.
    pose proof (Z.mul_div_le (buflen - t_off t) (esize (t_kind t)) ltac:(lia)).
    split; [apply Z.div_pos; lia | lia].
Qed.

Lemma in_bounds_lemma t x buflen j : wf_tarr t -> 0 <= buflen < 2 ^ 64 ->
  validate_index t x buflen = Some j ->
  0 <= j < ta_length t buflen /\
  t_off t + (j + 1) * esize (t_kind t) <= buflen /\
  ta_byte_index t j = t_off t + j * esize (t_kind t).
Proof.
  intros W Hb. unfold validate_index.
  destruct x as [| neg | s m e]; try discriminate.
  destruct (negb (is_integral m e)); try discriminate.
  destruct (s && (m =? 0)); try discriminate.
  destruct (ta_oob t buflen) eqn:O; try discriminate.
  pose proof (ta_length_bound t buflen W Hb O) as [L0 L1].
  cbv zeta. set (i := truncate (FFin s m e)). clearbody i.
  destruct (Z.ltb_spec i 0); try discriminate.
  destruct (Z.leb_spec (ta_length t buflen) i); try discriminate.
  cbn [orb]. intros E. injection E as <-.
  pose proof (esize_pos (t_kind t)) as S. destruct W as [Ho _].
  assert (B : (i + 1) * esize (t_kind t) <= ta_length t buflen * esize (t_kind t))
    by (apply Z.mul_le_mono_nonneg_r; lia).
  assert (0 <= i * esize (t_kind t)) by (apply Z.mul_nonneg_nonneg; lia).
  repeat split; try lia.
  unfold ta_byte_index. rewrite (u64_small (i * _)) by lia. rewrite u64_small by lia. lia.
Qed.

Lemma in_bounds_u64_lemma t i buflen j : wf_tarr t -> 0 <= buflen < 2 ^ 64 -> 0 <= i ->
  validate_index_u64 t i buflen = Some j ->
  j = i /\ t_off t + (j + 1) * esize (t_kind t) <= buflen.
Proof.
  intros W Hb Hi. unfold validate_index_u64.
  destruct (ta_oob t buflen) eqn:O; try discriminate.
  pose proof (ta_length_bound t buflen W Hb O) as [L0 L1].
  destruct (Z.leb_spec (ta_length t buflen) i); try discriminate.
  intros E. injection E as <-. split; [reflexivity|].
  pose proof (esize_pos (t_kind t)) as S.
  assert (B : (i + 1) * esize (t_kind t) <= ta_length t buflen * esize (t_kind t))
    by (apply Z.mul_le_mono_nonneg_r; lia).
  lia.
Qed.

Lemma dv_in_bounds_lemma v gi size buflen bi : wf_dview v -> 0 <= buflen < 2 ^ 64 ->
  0 <= gi < 2 ^ 53 -> 0 < size <= 8 ->
  dv_check v gi size buflen = Ok bi ->
  bi = v_off v + gi /\ v_off v <= bi /\ bi + size <= buflen /\
  match v_blen v with Some l => bi + size <= v_off v + l | None => True end.
Proof.
  intros [Ho Hl] Hb Hg Hs. unfold dv_check, dv_oob, dv_byte_length.
  destruct (Z.ltb_spec buflen (v_off v)); cbn [orb]; try discriminate.
  assert (G : u64 (gi + size) = gi + size).
  { apply u64_small. change (2 ^ 64) with (2 ^ 53 * 2048). change (2 ^ 53) with 9007199254740992 in *. lia. }
  rewrite G.
  destruct (v_blen v) as [l|].
  - destruct Hl as [Hl0 Hl1]. rewrite (u64_small (l + v_off v)) by lia.
    destruct (Z.ltb_spec buflen (l + v_off v)); try discriminate.
    destruct (Z.ltb_spec l (gi + size)); try discriminate.
    intros E. injection E as <-. rewrite u64_small by lia. lia.
  - destruct (Z.ltb_spec buflen buflen); [lia|].
    rewrite (u64_small (buflen - v_off v)) by lia.
    destruct (Z.ltb_spec (buflen - v_off v) (gi + size)); try discriminate.
    intros E. injection E as <-. rewrite u64_small by lia. lia.
Qed.

(* the constructors only produce well-formed geometry *)
Lemma to_index_range v n : to_index v = Ok n -> 0 <= n <= MAX_SAFE.
Proof.
  unfold to_index, MAX_SAFE.
  assert (forall r : res ioi, (do i <- r; match i with
            | Int z => let c := sat 0 (2 ^ 53 - 1) z in if z =? c then Ok c else Err RangeError
            | _ => Err RangeError end) = Ok n -> 0 <= n <= 2 ^ 53 - 1).
  { intros [i|e]; cbn [bind]; try discriminate.
    destruct i as [| | z]; try discriminate. cbv zeta.
    destruct (z =? sat 0 (2 ^ 53 - 1) z); try discriminate. intros E. injection E as <-. unfold sat. lia. }
  destruct v as [b | z |]; [exact (H _) | exact (H _) |]. intros E. injection E as <-. lia.
Qed.

Lemma init_from_buffer_wf s k b off len t :
  (forall d, buf_data s b = Some d -> zlen d < 2 ^ 64) ->
  init_from_buffer s k b off len = Ok t -> wf_tarr t.
Proof.
  intros BL. unfold init_from_buffer.
  destruct (to_index off) as [offset|] eqn:Eo; cbn [bind]; try discriminate.
  apply to_index_range in Eo. unfold MAX_SAFE in Eo.
  destruct (negb (offset mod esize k =? 0)); try discriminate.
  pose proof (esize_pos k) as S.
  assert (P53 : 2 ^ 53 * 16 <= 2 ^ 64) by (change (2 ^ 64) with (2 ^ 53 * 2048); change (2 ^ 53) with 9007199254740992; lia).
  destruct len as [lb | lz |].
  - destruct (to_index (JNum lb)) as [l|] eqn:El; cbn [bind]; try discriminate.
    apply to_index_range in El. unfold MAX_SAFE in El.
    destruct (buf_data s b); try discriminate.
    destruct (zlen l0 <? u64 (offset + u64 (l * esize k))); try discriminate.
    intros E. injection E as <-. unfold wf_tarr. cbn.
    assert (l * esize k <= (2 ^ 53 - 1) * 8) by (apply Z.mul_le_mono_nonneg; lia). lia.
  - cbn [bind to_index to_ioi to_number]. discriminate.
  - cbn [bind]. destruct (buf_data s b) as [d|]; try discriminate.
    specialize (BL d eq_refl).
    destruct (negb (buf_fixed s b)).
    + destruct (zlen d <? offset); try discriminate. intros E. injection E as <-. unfold wf_tarr. cbn. lia.
    + destruct (negb (zlen d mod esize k =? 0)); try discriminate.
      destruct (Z.ltb_spec (zlen d) offset); try discriminate.
      intros E. injection E as <-. unfold wf_tarr. cbn.
      assert (0 <= zlen d - offset) by lia.
      pose proof (Z.mul_div_le (zlen d - offset) (esize k) ltac:(lia)).
      assert (0 <= (zlen d - offset) / esize k) by (apply Z.div_pos; lia).
      (* needs the buffer length bound *)
      lia.
Qed.

(* ------------------------------------------------------------------------------------------ *)
(* bytes *)

Lemma bytes_le_length n v : length (bytes_le n v) = n.
Proof. revert v; induction n; intros; cbn; auto. Qed.

Lemma bytes_le_range n v : Forall (fun b => 0 <= b < 256) (bytes_le n v).
Proof.
  revert v; induction n; intros; cbn; constructor; auto. apply Z.mod_pos_bound. lia.
Qed.

Lemma of_bytes_le_bytes_le n v : of_bytes_le (bytes_le n v) = v mod 256 ^ Z.of_nat n.
Proof.
  revert v; induction n; intros v.
  - cbn. rewrite Z.mod_1_r. reflexivity.
  - cbn [bytes_le of_bytes_le]. rewrite IHn.
    rewrite Nat2Z.inj_succ, Z.pow_succ_r by lia.
    rewrite Z.rem_mul_r by (try apply Z.pow_nonzero; lia). lia.
Qed.

Lemma bytes_le_of_bytes_le l : Forall (fun b => 0 <= b < 256) l ->
  bytes_le (length l) (of_bytes_le l) = l.
Proof.
  induction 1 as [| b r Hb Hr IH]; cbn [length bytes_le of_bytes_le]; auto.
  f_equal.
  - replace (b + 256 * of_bytes_le r) with (b + of_bytes_le r * 256) by lia.
    rewrite Z.mod_add by lia. apply Z.mod_small. exact Hb.
  - replace (b + 256 * of_bytes_le r) with (b + of_bytes_le r * 256) by lia.
    rewrite Z.div_add by lia. rewrite (Z.div_small b) by lia. rewrite Z.add_0_l. exact IH.
Qed.

Lemma Forall_rev {A} (P : A -> Prop) l : Forall P l -> Forall P (rev l).
Proof. intros H. apply Forall_forall. intros x Hx. apply in_rev in Hx. revert x Hx. apply Forall_forall. exact H. Qed.

(* big-endian bytes are the reversed little-endian bytes *)
Lemma bswap_bytes n v : bytes_le n (bswap n v) = rev (bytes_le n v).
Proof.
  unfold bswap.
  rewrite <- (bytes_le_length n v) at 1. rewrite <- rev_length.
  apply bytes_le_of_bytes_le. apply Forall_rev, bytes_le_range.
Qed.

Lemma bswap_involutive_lemma n v : 0 <= v < 256 ^ Z.of_nat n -> bswap n (bswap n v) = v.
Proof.
  intros Hv. unfold bswap at 1. rewrite bswap_bytes, rev_involutive, of_bytes_le_bytes_le.
  apply Z.mod_small. exact Hv.
Qed.

Lemma bswap_range n v : 0 <= bswap n v < 256 ^ Z.of_nat n.
Proof.
  unfold bswap.
  assert (G : forall l, Forall (fun b => 0 <= b < 256) l -> 0 <= of_bytes_le l < 256 ^ Z.of_nat (length l)).
  { induction 1 as [| b r Hb Hr IH]; cbn [of_bytes_le length]; [cbn; lia|].
    rewrite Nat2Z.inj_succ, Z.pow_succ_r by lia. lia. }
  specialize (G (rev (bytes_le n v)) (Forall_rev _ _ (bytes_le_range n v))).
  rewrite rev_length, bytes_le_length in G. exact G.
Qed.

(* read / write on lists *)
Lemma write_bytes_length off bs data d' : write_bytes off bs data = Some d' -> length d' = length data.
Proof.
  unfold write_bytes.
  destruct (Z.leb_spec 0 off); cbn [andb]; try discriminate.
  destruct (Z.leb_spec (off + Z.of_nat (length bs)) (Z.of_nat (length data))); try discriminate.
  intros E. injection E as <-.
  rewrite !app_length, firstn_length, skipn_length. lia.
Qed.

Lemma read_after_write off bs data d' : write_bytes off bs data = Some d' ->
  read_bytes off (length bs) d' = Some bs.
Proof.
  unfold write_bytes, read_bytes.
  destruct (Z.leb_spec 0 off); cbn [andb]; try discriminate.
  destruct (Z.leb_spec (off + Z.of_nat (length bs)) (Z.of_nat (length data))); try discriminate.
  intros E. injection E as <-.
  assert (L : length (firstn (Z.to_nat off) data) = Z.to_nat off) by (rewrite firstn_length; lia).
  rewrite skipn_app, L, Nat.sub_diag, skipn_O.
  rewrite (skipn_all2 (firstn _ _)) by lia. cbn [app].
  rewrite firstn_app, Nat.sub_diag, firstn_O, app_nil_r, firstn_all, Nat.eqb_refl. reflexivity.
Qed.

Lemma nth_firstn_lt {A} (l : list A) n p d : (p < n)%nat -> nth p (firstn n l) d = nth p l d.
Proof.
  revert n p. induction l as [| a l IH]; intros n p H.
  - rewrite firstn_nil. reflexivity.
  - destruct n; [lia|]. destruct p; cbn; auto. apply IH. lia.
Qed.

Lemma nth_skipn_add {A} (l : list A) k i d : nth i (skipn k l) d = nth (k + i) l d.
Proof.
  revert l. induction k; intros l; cbn; auto. destruct l; cbn; auto. destruct i; reflexivity.
Qed.

Lemma write_bytes_other off bs data d' p : write_bytes off bs data = Some d' ->
  (p < Z.to_nat off \/ Z.to_nat off + length bs <= p)%nat -> nth p d' 0 = nth p data 0.
Proof.
  unfold write_bytes.
  destruct (Z.leb_spec 0 off); cbn [andb]; try discriminate.
  destruct (Z.leb_spec (off + Z.of_nat (length bs)) (Z.of_nat (length data))); try discriminate.
  intros E. injection E as <-. intros Hp.
  assert (L : length (firstn (Z.to_nat off) data) = Z.to_nat off) by (rewrite firstn_length; lia).
  destruct Hp as [Hp | Hp].
  - rewrite app_nth1 by lia. apply nth_firstn_lt. lia.
  - rewrite app_nth2 by lia. rewrite app_nth2 by lia. rewrite L, nth_skipn_add. f_equal. lia.
Qed.

Lemma read_bytes_ok off n data : 0 <= off -> off + Z.of_nat n <= zlen data ->
  exists bs, read_bytes off n data = Some bs /\ length bs = n.
Proof.
  intros H0 H1. unfold read_bytes, zlen in *.
  assert (L : length (firstn n (skipn (Z.to_nat off) data)) = n).
  { rewrite firstn_length, skipn_length. lia. }
  rewrite L, Nat.eqb_refl. destruct (Z.leb_spec 0 off); [|lia]. cbn [andb]. eauto.
Qed.

Lemma write_bytes_ok off bs data : 0 <= off -> off + Z.of_nat (length bs) <= zlen data ->
  exists d', write_bytes off bs data = Some d'.
Proof.
  intros H0 H1. unfold write_bytes, zlen in *.
  destruct (Z.leb_spec 0 off); [|lia]. cbn [andb].
  destruct (Z.leb_spec (off + Z.of_nat (length bs)) (Z.of_nat (length data))); [|lia]. eauto.
Qed.

Lemma nsize_esize k : Z.of_nat (nsize k) = esize k.
Proof. destruct k; reflexivity. Qed.

(* ------------------------------------------------------------------------------------------ *)
(* element get / set *)

Lemma zlen_bounds {A} (l : list A) : 0 <= zlen l.
Proof. unfold zlen. lia. Qed.

(* every in-bounds index can be read (the Rust `subslice(..).expect(..)` cannot panic) *)
Lemma ta_get_no_panic t x data : wf_tarr t -> zlen data < 2 ^ 64 ->
  ta_get_elem t x data <> None.
Proof.
  intros W B. unfold ta_get_elem.
  destruct (validate_index t x (zlen data)) as [j|] eqn:V; [|discriminate].
  apply in_bounds_lemma in V; auto; [|split; [apply zlen_bounds | exact B]].
  destruct V as (V0 & V1 & V2). unfold ta_read. rewrite V2.
  destruct W as [Ho _]. pose proof (esize_pos (t_kind t)).
  destruct (read_bytes_ok (t_off t + j * esize (t_kind t)) (nsize (t_kind t)) data) as (bs & E & _).
  - assert (0 <= j * esize (t_kind t)) by (apply Z.mul_nonneg_nonneg; lia). lia.
  - rewrite nsize_esize. lia.
  - rewrite E. discriminate.
Qed.

Definition elem_range (k : kind) (bits : Z) : Prop := 0 <= bits < 256 ^ esize k.

Lemma get_set_roundtrip_lemma t x bits data : wf_tarr t -> zlen data < 2 ^ 64 ->
  elem_range (t_kind t) bits ->
  forall j, validate_index t x (zlen data) = Some j ->
  exists data',
    ta_set_elem t x bits data = Some data' /\
    ta_get_elem t x data' = Some (Some bits) /\
    length data' = length data /\
    forall p, (Z.of_nat p < t_off t + j * esize (t_kind t) \/
               t_off t + (j + 1) * esize (t_kind t) <= Z.of_nat p) -> nth p data' 0 = nth p data 0.
Proof.
  intros W B R j V. pose proof V as V'.
  apply in_bounds_lemma in V'; auto; [|split; [apply zlen_bounds | exact B]].
  destruct V' as (V0 & V1 & V2).
  pose proof (esize_pos (t_kind t)) as S. destruct W as [Ho Hw].
  assert (J : 0 <= j * esize (t_kind t)) by (apply Z.mul_nonneg_nonneg; lia).
  unfold ta_set_elem, ta_write. rewrite V, V2.
  destruct (write_bytes_ok (t_off t + j * esize (t_kind t)) (bytes_le (nsize (t_kind t)) bits) data) as (d' & E).
  - lia.
  - rewrite bytes_le_length, nsize_esize. lia.
  - exists d'. split; [exact E|].
    pose proof (write_bytes_length _ _ _ _ E) as L.
    split; [|split; [exact L|]].
    + unfold ta_get_elem. unfold zlen. rewrite L. fold (zlen data). rewrite V.
      unfold ta_read. rewrite V2.
      pose proof (read_after_write _ _ _ _ E) as RW. rewrite bytes_le_length in RW. rewrite RW.
      cbn [option_map]. rewrite of_bytes_le_bytes_le, nsize_esize.
      rewrite Z.mod_small by exact R. reflexivity.
    + intros p Hp. apply (write_bytes_other _ _ _ _ p E).
      rewrite bytes_le_length.
      assert (Z.of_nat (nsize (t_kind t)) = esize (t_kind t)) by apply nsize_esize.
      lia.
Qed.

Lemma oob_lemma t x bits data : validate_index t x (zlen data) = None ->
  ta_get_elem t x data = Some None /\ ta_set_elem t x bits data = Some data.
Proof. intros V. unfold ta_get_elem, ta_set_elem. rewrite V. auto. Qed.

(* DataView: a stored value reads back under the same endianness, and the big-endian bytes are the
   reversed little-endian bytes *)
Lemma dv_roundtrip_lemma k le bi bits data data' : 0 <= bits < 256 ^ esize k ->
  dv_write k le bi bits data = Some data' ->
  dv_read k le bi data' = Some bits /\ length data' = length data /\
  forall p, (p < Z.to_nat bi \/ Z.to_nat bi + nsize k <= p)%nat -> nth p data' 0 = nth p data 0.
Proof.
  intros R W. unfold dv_write in W. unfold dv_read.
  pose proof (read_after_write _ _ _ _ W) as RW. rewrite bytes_le_length in RW. rewrite RW.
  split; [|split].
  - rewrite of_bytes_le_bytes_le, nsize_esize.
    destruct le.
    + rewrite Z.mod_small by exact R. reflexivity.
    + pose proof (bswap_range (nsize k) bits) as BR. rewrite nsize_esize in BR.
      rewrite Z.mod_small by exact BR. f_equal. apply bswap_involutive_lemma. rewrite nsize_esize. exact R.
  - eapply write_bytes_length; eauto.
  - intros p Hp. apply (write_bytes_other _ _ _ _ p W). rewrite bytes_le_length. exact Hp.
Qed.

(* witnesses: 3.5e38 = 0x47F0_7546_8A7E_2DE5 (an even multiple of 2^75), 2^63, -2^63 - 2^11 *)
Definition D_3_5e38 : dbl := dbl_of_bits 5183771782906367355.
Definition D_239 : dbl := dbl_of_bits 4642613081493471232.     (* 239.0 *)
Definition D_half : dbl := dbl_of_bits 4602678819172646912.    (* 0.5 *)

(* ------------------------------------------------------------------------------------------ *)
(* JS-level view of the integer kinds *)

Lemma dbl_of_bits_wf b : 0 <= b -> wf_dbl (dbl_of_bits b).
Proof.
  intros Hb. unfold wf_dbl, dbl_of_bits. cbn [d_be d_frac].
  change 2047 with (Z.ones 11). change (2 ^ 52 - 1) with (Z.ones 52).
  rewrite !Z.land_ones by lia. split; apply Z.mod_pos_bound; reflexivity.
Qed.

Definition elem_int (k : kind) (bits : Z) : Z :=
  match k with Int8 => recenter 8 bits | Int16 => recenter 16 bits | Int32 => recenter 32 bits | _ => bits end.

Lemma elem_to_js_int k bits : is_int_kind k = true -> elem_to_js k bits = JNum (f64_of_Z (elem_int k bits)).
Proof. destruct k; try discriminate; reflexivity. Qed.

Lemma clamp_spec_range x : wf_fval x -> 0 <= ToUint8Clamp_spec x <= 255.
Proof.
  destruct x as [| neg | s m e]; cbn [wf_fval ToUint8Clamp_spec]; try lia.
  - destruct neg; lia.
  - intros Hm. destruct s; [lia|].
    assert (T : 0 <= trunc_mag (2 * m) e).
    { unfold trunc_mag. destruct (Z.leb_spec 0 e).
      - apply Z.mul_nonneg_nonneg; [lia|]. apply Z.pow_nonneg. lia.
      - apply Z.div_pos; [lia|]. apply pow2_pos. lia. }
    generalize dependent (trunc_mag (2 * m) e). intros t2 T.
    destruct (Z.leb_spec 510 t2); [lia|].
    assert (0 <= t2 / 2 < 255) by (split; [apply Z.div_pos; lia | apply Z.div_lt_upper_bound; lia]).
    assert (0 <= (t2 + 1) / 2 <= 255) by (split; [apply Z.div_pos; lia | apply Z.div_le_upper_bound; lia]).
    destruct (if 0 <=? e then false else ((2 * m) mod 2 ^ (- e) =? 0) && Z.odd (2 * m / 2 ^ (- e))).
    + cbv zeta. destruct (Z.even (t2 / 2)); lia.
    + lia.
Qed.

Lemma num_to_elem_spec c k b : narrow_fixed c = true -> is_int_kind k = true -> 0 <= b ->
  elem_range k (num_to_elem c k b) /\
  elem_int k (num_to_elem c k b) = conv_spec_fn k (fval_of_bits b).
Proof.
  intros C K Hb. pose proof (dbl_of_bits_wf b Hb) as W.
  assert (E : conv c k (dbl_of_bits b) = conv_spec_fn k (fval_of_bits b)).
  { unfold conv. rewrite C. apply conv_fixed_spec_lemma; assumption. }
  pose proof (conv_spec_range k (fval_of_bits b) K) as R.
  pose proof (clamp_spec_range (fval_of_bits b) (wf_dbl_fval _ W)) as RC.
  unfold elem_range.
  destruct k; try discriminate; unfold num_to_elem; rewrite E; cbn [esize elem_int];
    cbn [conv_spec_fn] in *;
    (split; [apply Z.mod_pos_bound; reflexivity|]).
  - change (2 ^ (8 * 1)) with (2 ^ 8). apply recenter_id; lia.
  - apply Z.mod_small. change (2 ^ (8 * 1)) with 256. lia.
  - apply Z.mod_small. change (2 ^ (8 * 1)) with 256. lia.
  - change (2 ^ (8 * 2)) with (2 ^ 16). apply recenter_id; lia.
  - apply Z.mod_small. change (2 ^ (8 * 2)) with 65536. lia.
  - change (2 ^ (8 * 4)) with (2 ^ 32). apply recenter_id; lia.
  - apply Z.mod_small. change (2 ^ (8 * 4)) with 4294967296. lia.
Qed.

(* BigInt kinds *)
Lemma big_to_elem_spec c k z bits : is_big k = true -> js_to_elem c k (JBig z) = Ok bits ->
  elem_range k bits /\
  elem_to_js k bits = JBig (match k with BigInt64 => ToBigInt64_spec z | _ => ToBigUint64_spec z end).
Proof.
  intros K. unfold elem_range. destruct k; try discriminate; cbn [js_to_elem to_bigint bind esize elem_to_js];
    intros E; injection E as <-.
  - split; [apply Z.mod_pos_bound; reflexivity|]. f_equal. unfold ToBigInt64_spec.
    rewrite recenter_mod by lia.
    rewrite Z.mod_mod by (apply Z.pow_nonzero; lia). reflexivity.
  - split; [apply Z.mod_pos_bound; reflexivity|]. reflexivity.
Qed.

(* ------------------------------------------------------------------------------------------ *)
(* refutations on the tree as found: concrete witnesses *)

Lemma to_uint8_refuted_lemma :
  conv_old Uint8 D_3_5e38 = 255 /\ conv_spec_fn Uint8 (fval_of_dbl D_3_5e38) = 0.
Proof. vm_compute. split; reflexivity. Qed.
Lemma to_int8_refuted_lemma :
  conv_old Int8 D_3_5e38 = -1 /\ conv_spec_fn Int8 (fval_of_dbl D_3_5e38) = 0.
Proof. vm_compute. split; reflexivity. Qed.
Lemma to_uint16_refuted_lemma :
  conv_old Uint16 D_3_5e38 = 65535 /\ conv_spec_fn Uint16 (fval_of_dbl D_3_5e38) = 0.
Proof. vm_compute. split; reflexivity. Qed.
Lemma to_int16_refuted_lemma :
  conv_old Int16 D_3_5e38 = -1 /\ conv_spec_fn Int16 (fval_of_dbl D_3_5e38) = 0.
Proof. vm_compute. split; reflexivity. Qed.
Lemma cast_int8_refuted_lemma :
  cast_old Int8 D_239 = 127 /\ conv_spec_fn Int8 (fval_of_dbl D_239) = -17.
Proof. vm_compute. split; reflexivity. Qed.
Lemma cast_clamp_refuted_lemma :
  cast_old Uint8C D_half = 1 /\ conv_spec_fn Uint8C (fval_of_dbl D_half) = 0.
Proof. vm_compute. split; reflexivity. Qed.
