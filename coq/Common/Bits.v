(* Machine words as N / Z with the wrap-around written out, and the hi/lo split lemmas that let a
   predicate on 64-bit words be decided by a finite sweep over the bits it really reads. *)
From Coq Require Import NArith ZArith Lia List Bool.
Import ListNotations.
Local Open Scope N_scope.

Definition two64 : N := 18446744073709551616.
Definition two32 : N := 4294967296.
Definition two31 : N := 2147483648.
Definition two48 : N := 281474976710656.
Definition two16 : N := 65536.

(* Rust `x as u64` for i32 x: sign extension, i.e. reduction modulo 2^64 *)
Definition u64_of_i32 (x : Z) : N := Z.to_N (x mod 18446744073709551616)%Z.
(* Rust `x as i32` for u64 x: truncation to 32 bits, read as two's complement *)
Definition i32_of_u64 (x : N) : Z :=
  let r := Z.of_N (x mod two32) in if (r <? 2147483648)%Z then r else (r - 4294967296)%Z.
Definition u64_of_bool (b : bool) : N := if b then 1 else 0.
Definition in_i32 (x : Z) : Prop := (-2147483648 <= x < 2147483648)%Z.
Definition in_u64 (x : N) : Prop := x < two64.

(* IEEE binary64 classification on the bit pattern *)
Definition f64_exp (b : N) : N := N.land (N.shiftr b 52) 2047.
Definition f64_man (b : N) : N := N.land b 4503599627370495.
Definition f64_is_nan (b : N) : bool := N.eqb (f64_exp b) 2047 && negb (N.eqb (f64_man b) 0).

Lemma testbit_lo_high k lo n : lo < 2 ^ k -> k <= n -> N.testbit lo n = false.
Proof.
  intros Hlo Hn. destruct (N.eq_dec lo 0) as [->|Hz]; [apply N.bits_0|].
  apply N.bits_above_log2. apply N.log2_lt_pow2; [lia|].
  eapply N.lt_le_trans; [exact Hlo|]. apply N.pow_le_mono_r; lia.
Qed.

Lemma land_shiftl_lo_0 k hi lo : lo < 2 ^ k -> N.land (N.shiftl hi k) lo = 0.
Proof.
  intros Hlo. apply N.bits_inj; intro n. rewrite N.land_spec, N.bits_0.
  destruct (N.lt_ge_cases n k) as [Hn|Hn].
  - rewrite N.shiftl_spec_low by exact Hn. reflexivity.
  - rewrite (testbit_lo_high k lo n Hlo Hn). apply andb_false_r.
Qed.

Lemma hi_lo_lor k hi lo : lo < 2 ^ k -> hi * 2 ^ k + lo = N.lor (N.shiftl hi k) lo.
Proof.
  intros Hlo. rewrite <- N.shiftl_mul_pow2.
  rewrite N.add_nocarry_lxor by (apply land_shiftl_lo_0; exact Hlo).
  apply N.lxor_lor. apply land_shiftl_lo_0; exact Hlo.
Qed.

(* masking a word with a mask whose low k bits are clear only looks at the high part *)
Lemma land_hi_mask k hi lo m : lo < 2 ^ k ->
  N.land (hi * 2 ^ k + lo) (m * 2 ^ k) = N.land hi m * 2 ^ k.
Proof.
  intros Hlo. rewrite (hi_lo_lor k hi lo Hlo). rewrite <- !N.shiftl_mul_pow2.
  rewrite N.land_lor_distr_l. rewrite <- N.shiftl_land.
  rewrite (N.land_comm lo), land_shiftl_lo_0 by exact Hlo. apply N.lor_0_r.
Qed.

(* masking with a mask below 2^k only looks at the low part *)
Lemma land_lo_mask k hi lo m : lo < 2 ^ k -> m < 2 ^ k ->
  N.land (hi * 2 ^ k + lo) m = N.land lo m.
Proof.
  intros Hlo Hm. rewrite (hi_lo_lor k hi lo Hlo). rewrite N.land_lor_distr_l.
  rewrite land_shiftl_lo_0 by exact Hm. apply N.lor_0_l.
Qed.

Lemma lor_hi_lo k hi lo : lo < 2 ^ k -> N.lor (hi * 2 ^ k) lo = hi * 2 ^ k + lo.
Proof. intros Hlo. rewrite (hi_lo_lor k hi lo Hlo), N.shiftl_mul_pow2. reflexivity. Qed.

Lemma split_word k w : exists hi lo, w = hi * 2 ^ k + lo /\ lo < 2 ^ k /\ hi = w / 2 ^ k.
Proof.
  exists (w / 2 ^ k), (w mod 2 ^ k). split; [|split; [|reflexivity]].
  - rewrite N.mul_comm. apply N.div_mod. apply N.pow_nonzero. lia.
  - apply N.mod_lt. apply N.pow_nonzero. lia.
Qed.

Lemma hi_bound k j w : w < 2 ^ (k + j) -> w / 2 ^ k < 2 ^ j.
Proof.
  intros H. apply N.div_lt_upper_bound; [apply N.pow_nonzero; lia|].
  rewrite <- N.pow_add_r. exact H.
Qed.

(* a finite sweep by binary recursion: forall n < 2^d, f (base + n) = true *)
Fixpoint all_below (d : nat) (base : N) (f : N -> bool) : bool :=
  match d with
  | O => f base
  | S d' => all_below d' base f && all_below d' (base + 2 ^ N.of_nat d') f
  end.

Lemma all_below_spec d : forall base f, all_below d base f = true ->
  forall n, n < 2 ^ N.of_nat d -> f (base + n) = true.
Proof.
  induction d as [|d IH]; intros base f H n Hn.
  - simpl in Hn. assert (n = 0) by lia. subst. rewrite N.add_0_r. exact H.
  - cbn [all_below] in H. apply andb_prop in H. destruct H as [H1 H2].
    rewrite Nat2N.inj_succ, N.pow_succ_r' in Hn.
    destruct (N.lt_ge_cases n (2 ^ N.of_nat d)) as [Hlt|Hge].
    + apply IH; assumption.
    + replace (base + n) with (base + 2 ^ N.of_nat d + (n - 2 ^ N.of_nat d)) by lia.
      apply IH; [assumption|lia].
Qed.

Lemma all_below_0 d f : all_below d 0 f = true -> forall n, n < 2 ^ N.of_nat d -> f n = true.
Proof. intros H n Hn. rewrite <- (N.add_0_l n). eapply all_below_spec; eassumption. Qed.
