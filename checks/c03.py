"""C03 — every compiled code block is well-formed on all of its paths.

Proof: coq/C03/Props_C03.v — soundness of the Gallina bytecode verifier `verify : codeblock -> bool` over ALL abstract
executions of a block (any path, both branches, every table entry, every throwing instruction also taking its
exception edge): `verify_sound`, `verify_merge_agreement`, `step_safe`, `no_register_oob`, `no_env_underflow`,
`locator_matches_assignment`, and for the verifier extended with the frame's iterator stack (the verdict): `verify2_sound`,
`verify2_merge_agreement`, `step_safe2`, `iterator_never_underflows`, `verify2_covers_base_partial`, plus two table obligations that are re-proved whenever the opcode table changes.
The opcode table (names, operand kinds, field names, return kind of every `operation`, and what
`Vm::handle_exception_at` does on handler entry) is regenerated from the Rust sources on every run (tools/gen_c03.py).

Decision per program (translation validation): seeded generated programs are compiled by the real engine
(harness `dump` prints CodeBlock::verif_dump() of every block, decoded by boa's own decoder); the *extracted*
verifier (ocaml/C03) accepts or rejects every block.  A rejected block is a violation; its class label is computed from
the block and the disagreeing depth triples; the replay holds the (shrunk) program, the block and the diagnostics.

Correspondence (ties the hand-written effect table and the exception-edge model to the VM): a second stream of programs
is also *run* with the per-instruction depth log on; every observed transition of the VM must be one the abstract
machine allows, and every observed state of a verified block must carry the verifier's annotation.  Per-opcode coverage
of this validation is reported; opcodes never executed are listed as unvalidated.
"""
import hashlib
import json
import os
import re
import subprocess
import sys
import tempfile
import time
from concurrent.futures import ThreadPoolExecutor

import vlib
from vlib import Run, log

sys.path.insert(0, os.path.join(vlib.VERIF, "gen"))
sys.path.insert(0, os.path.join(vlib.VERIF, "tools"))
import c03_gen  # noqa: E402

PROP = "C03"
MODEL_DIR = os.path.join(vlib.OCAML, "C03")
MODEL_BIN = os.path.join(MODEL_DIR, "_build", "c03_driver")
CORPUS_DIR = os.path.join(vlib.CORPUS, PROP)
TRUSTED = [
    "Coq 8.16.1 kernel (proofs; vm_compute for the two table obligations and the Examples); extraction with ExtrOcamlBasic only + OCaml 4.13",
    "tools/gen_c03.py (regex/brace-matching translator of generate_opcodes!, the impl-generating macros, args.rs, completion_record.rs and the "
    "shape pins of handle_error / handle_throw / handle_exception_at / find_handler / Handler::contains; refuses anything it does not recognise)",
    "/repo hook CodeBlock::verif_dump() (cfg boa_verif): instructions are decoded by boa's own InstructionIterator and printed with the derived Debug; "
    "ocaml/C03/driver.ml parses that text and cross-checks opcode byte/name, field names, kinds and operand count against the regenerated table",
    "hand-written effect table `effect` in coq/C03/Bytecode_C03.v (value-stack pops/pushes, environment and binding-reference pushes/pops, successor "
    "shape) -- validated dynamically against the VM's depth log on every run, per-opcode coverage in the evidence; an opcode never executed is unvalidated",
    "modelled, not verified: the value stack at handler entry is taken to be the depth before the faulting instruction (the VM leaves whatever the "
    "instruction and unwound callee frames left there: frame residue is C07's subject); frame.iterators and the private-environment stack are not tracked; "
    "code compiled at run time (eval, Function) is only observed in the depth log, not dumped; scripts only (no modules)",
    "entry environment depth = HAS_BINDING_IDENTIFIER + HAS_FUNCTION_SCOPE flag bits (pushed by function_call before pc 0), checked dynamically",
    "gen/c03_gen.py (seeded generator), checks/c03.py (batching, classification bookkeeping, shrinking)",
]

# classes of rejected blocks that correspond to DESIGN.md section 5 findings (reported through run.violation like any other:
# suppressed only if listed in known_findings.json)
CLASS_DOC = {
    "short-circuit-assign-locator-leak": "DESIGN 5 #3: `x ??= e` / `||=` / `&&=` on a non-lexical variable: the short-circuit jump skips SetNameByLocator, "
                                         "one binding reference stays on frame.binding_stack on that path",
    "exc-edge-stack-residue": "DESIGN 5 #8: an instruction inside a protected range can throw while this frame has values pushed (call arguments, a pending "
                              "return value); handle_exception_at leaves them on the value stack",
    "exc-edge-binding-residue": "same mechanism for frame.binding_stack: GetLocator ... <throw> ... SetNameByLocator inside a protected range",
    "binding-locator-beyond-environment-chain": "a binding operand's locator names environment Stack(n) but fewer than n+1 environments exist on some path reaching the "
                                                "instruction (env_fp of the closure + relative depth): Context::environment_expect would panic / a wrong environment is used",
    "iterator-stack-depth-merge": "two normal control-flow paths meet with different lengths of frame.iterators: a break / continue / return left an "
                                  "iterator loop (for-of, for-in, for await) without closing its record, or closed the wrong one",
    "exc-edge-iterator-residue": "a handler is entered with a frame.iterators length other than the one its close code assumes (handle_exception_at does "
                                 "not touch frame.iterators): IteratorNext/IteratorValue inside an array-pattern handler drop their record when the call "
                                 "throws; a for-in loop has no handler at all, so an exception out of its body leaves its record behind",
    "iterator-stack-underflow": "an opcode that needs an iterator record is reachable with an empty iterator stack",
    "async-epilogue-depth-merge": "the handler covering an async function body lands on the epilogue that normal completion also falls into with its "
                                  "environments still open (benign: the epilogue touches neither)",
}


def ensure_model(run):
    os.makedirs(os.path.join(MODEL_DIR, "_build"), exist_ok=True)
    rc, out, err = vlib.sh(["bash", os.path.join(MODEL_DIR, "build.sh")], timeout=1800)
    if rc != 0 or not os.path.exists(MODEL_BIN):
        return False, (out + err)[-2000:]
    return True, ""


def run_batch(dump_bin, cfg, progs):
    """progs: list of (id, text).  Returns (driver stdout, dump stdout) for the batch."""
    inp = [cfg] + ["run %s %s" % (pid, c03_gen.escape(t)) for pid, t in progs]
    p1 = subprocess.run(["nice", "-n", "10", dump_bin], input="\n".join(inp) + "\n", stdout=subprocess.PIPE, stderr=subprocess.PIPE,
                        text=True, timeout=3000, errors="replace")
    p2 = subprocess.run(["nice", "-n", "10", MODEL_BIN], input=p1.stdout, stdout=subprocess.PIPE, stderr=subprocess.PIPE, text=True,
                        timeout=3000, errors="replace")
    return p2.stdout, p1.stdout, p1.returncode, p2.returncode, p2.stderr[-500:]


def block_keys(dump_out):
    """{case id: {block id: sha1 of the instruction texts}} and total instruction count"""
    res, cur, bid, h = {}, None, None, None
    nins = 0
    for line in dump_out.split("\n"):
        if line.startswith("ins "):
            nins += 1
            if h is not None:
                h.update(line.split(" ", 4)[4].encode("utf8", "replace"))
        elif line.startswith("case "):
            cur = line.split()[1]
            res[cur] = {}
        elif line.startswith("block "):
            bid = line.split()[1]
            h = hashlib.sha1()
        elif line.startswith("end ") and cur is not None and h is not None:
            res[cur][bid] = h.hexdigest()[:16]
            h = None
    return res, nins


class Result:
    def __init__(self):
        self.cases = {}        # id -> {"blocks": [(bid, ok)], "errs": [(bid, cls, text)], "dyn": {...}, "dynbad": [...], "status": str}
        self.cov = {}          # opcode -> [static, normal, exc]
        self.push_scope = {}
        self.push_scope_samples = []

    def absorb(self, out):
        cur = None
        for line in out.split("\n"):
            if line.startswith("case "):
                cur = {"blocks": [], "errs": [], "dyn": None, "dynbad": [], "status": ""}
                self.cases[line.split()[1]] = cur
            elif cur is not None and line.startswith("blk "):
                p = line.split()
                cur["blocks"].append((p[1], p[2] == "ok", line))
            elif cur is not None and line.startswith("err "):
                m = re.match(r"err (\S+) class=(\S+) ?(.*)", line)
                if m:
                    cur["errs"].append((m.group(1), m.group(2), m.group(3)))
            elif cur is not None and line.startswith("dyn "):
                cur["dyn"] = {k: int(v) for k, v in (x.split("=") for x in line.split()[1:])}
            elif cur is not None and line.startswith("dynbad "):
                cur["dynbad"].append(line[7:])
            elif cur is not None and line.startswith("dynwit "):
                cur.setdefault("dynwit", []).append(line[7:])
            elif cur is not None and line.startswith("status "):
                cur["status"] = line[7:]
            elif line.startswith("note ") and " push-scope " in line:
                k = "ok" if " push-scope ok " in line else "mismatch"
                self.push_scope[k] = self.push_scope.get(k, 0) + 1
                if k == "mismatch" and len(self.push_scope_samples) < 5:
                    self.push_scope_samples.append(line)
            elif line.startswith("endcase"):
                cur = None
            elif line.startswith("cov "):
                p = line.split()
                c = self.cov.setdefault(p[1], [0, 0, 0])
                for k in range(3):
                    c[k] += int(p[2 + k])


def classes_of(case):
    by_block = {}
    for bid, cls, text in case["errs"]:
        by_block.setdefault(bid, []).append((cls, text))
    return by_block


def shrink(dump_bin, text, cls, budget=40):
    """batched delta debugging on characters: every round removes one chunk per candidate, all candidates of a round go
    through one dump|verifier invocation; keeps the class (or the compile panic) among the diagnostics.
    budget = number of rounds."""
    def holds(c):
        if c is None:
            return False
        if cls.startswith("compile-panic"):
            return c["status"].startswith("panic")
        return any(k == cls for _, k, _ in c["errs"])
    n = 2
    rounds = 0
    while len(text) >= 2 and rounds < budget:
        rounds += 1
        chunk = max(1, len(text) // n)
        cands = [text[:i] + text[i + chunk:] for i in range(0, len(text), chunk)][:96]
        out, _, _, _, _ = run_batch(dump_bin, "cfg run=0", [("k%d" % k, c) for k, c in enumerate(cands) if c.strip()])
        r = Result()
        r.absorb(out)
        hit = None
        for k, c in enumerate(cands):
            if holds(r.cases.get("k%d" % k)):
                hit = c
                break
        if hit is not None:
            text = hit
            n = max(n - 1, 2)
        else:
            if chunk == 1:
                break
            n = min(len(text), n * 2)
    return text


def coq_block_term(lines, name, info):
    """Gallina term of one dumped block (for the kernel cross-check of the extracted verifier)."""
    import gen_c03
    byte2name = {b: n for n, b in info["bytes"].items()}

    def num(x):
        return re.search(r"\((\d+)\)", x).group(1)

    def val(v, ty):
        v = v.strip()
        k = gen_c03.KINDS[ty]
        if k == "KReg":
            return "AReg %s" % num(v)
        if k == "KIdx":
            return "AIdx %s" % num(v)
        if k == "KAddr":
            return "AAddr %s" % num(v)
        if k == "KU32":
            return "AU32 %s" % v
        if k == "KU64":
            return "AU64"
        if k == "KInt":
            return "AInt (%s)%%Z" % v
        if k == "KImm":
            return "AImm"
        items = [x for x in v.strip("[]").split(",") if x.strip()]
        if k == "KVecReg":
            return "AVReg [%s]" % "; ".join(num(x) for x in items)
        if k == "KVecAddr":
            return "AVAddr [%s]" % "; ".join(num(x) for x in items)
        return "AVU32 [%s]" % "; ".join(x.strip() for x in items)

    def split_fields(body):
        out, depth, cur = [], 0, ""
        for ch in body:
            if ch in "[(":
                depth += 1
            if ch in "])":
                depth -= 1
            if ch == "," and depth == 0:
                out.append(cur)
                cur = ""
            else:
                cur += ch
        if cur.strip():
            out.append(cur)
        return out
    hdr = lines[0].split()
    kv = dict(x.split("=", 1) for x in hdr[2:] if "=" in x)
    consts, hs, ins = [], [], []
    for l in lines[1:]:
        p = l.split()
        if p[0] == "const":
            consts.append({"S": "CStr", "B": "CBig", "C": "CScope", "F": "CFun"}[p[2]])
        elif p[0] == "handler":
            hs.append("mkHandler %s %s %s" % (p[2], p[3], p[4]))
        elif p[0] == "ins":
            text = l.split(" ", 4)[4]
            nm = byte2name[int(p[3])]
            args = []
            if "{" in text:
                body = text[text.index("{") + 1:text.rindex("}")]
                for (f, ty), fv in zip(info["fields"][nm], split_fields(body)):
                    args.append(val(fv.split(":", 1)[1], ty))
            ins.append("mkInstr %s %s Op_%s [%s]" % (p[1], p[2], nm, "; ".join(args)))
    flags = int(kv["flags"])
    entry = (1 if flags & 2 else 0) + (1 if flags & 256 else 0)
    return ("Definition %s_code : list instr := [\n  %s].\nDefinition %s : codeblock := mkCB %s %d %s (build_code %s_code) [%s] %s %s [%s] (jump_regs %s_code).\n"
            % (name, ";\n  ".join(ins), name, kv["regs"], entry, kv["bytes"], name, "; ".join(consts), kv["bindings"], kv["ics"], "; ".join(hs), name))


def kernel_crosscheck(run, dump_out, result, info, limit):
    """Evaluate `verify` on a few dumped blocks inside Coq (vm_compute) and compare with the extracted verifier."""
    blocks, cur, case = [], None, None
    for line in dump_out.split("\n"):
        if line.startswith("case "):
            case = line.split()[1]
        elif line.startswith("block "):
            cur = [line]
        elif line.startswith("end ") and cur is not None:
            blocks.append((case, cur[0].split()[1], cur))
            cur = None
        elif cur is not None:
            cur.append(line)
    if not blocks:
        return None
    # prefer a mix of accepted and rejected blocks of moderate size
    verdict = {}
    for cid, c in result.cases.items():
        for bid, ok, _ in c["blocks"]:
            verdict[(cid, bid)] = ok
    cand = [b for b in blocks if 5 <= len(b[2]) <= 120 and (b[0], b[1]) in verdict]
    run.rng.shuffle(cand)
    rej = [b for b in cand if not verdict[(b[0], b[1])]][:limit // 2]
    acc = [b for b in cand if verdict[(b[0], b[1])]][:limit - len(rej)]
    chosen = rej + acc
    if not chosen:
        return None
    body = ["From Coq Require Import NArith ZArith List Bool FMapPositive.", "From Gen Require Import OpcodeSig.",
            "From C03 Require Import Bytecode_C03 DeepBytecode_C03.", "Import ListNotations.", "Local Open Scope N_scope."]
    for k, (cid, bid, lines) in enumerate(chosen):
        body.append(coq_block_term(lines, "b%d" % k, info))
    body.append("Eval vm_compute in [%s]." % "; ".join("verify2 b%d" % k for k in range(len(chosen))))
    rc, out, err = vlib.coq_eval("Cases_C03", "\n".join(body) + "\n", timeout=1500)
    if rc != 0:
        return {"error": (out + err)[-1500:]}
    got = re.findall(r"\b(true|false)\b", out[out.index("="):]) if "=" in out else []
    bad = []
    for k, (cid, bid, lines) in enumerate(chosen):
        want = verdict[(cid, bid)]
        if k >= len(got) or (got[k] == "true") != want:
            bad.append({"case": cid, "block": bid, "extracted": want, "kernel": got[k] if k < len(got) else None})
    return {"checked": len(chosen), "rejected_among_them": len(rej), "disagreements": bad}


def main():
    if os.environ.get("C03_PROPOSED_KNOWN") == "1":
        # trial runs only (default off): treat the builder's *proposed* known-finding entries as accepted
        kf = vlib.known_findings()
        try:
            extra = json.load(open(os.path.join(vlib.VERIF, "fixes.d", "C03-known-findings.json")))["findings"]
            have = {(k["property"], k["class"]) for k in kf.get("findings", [])}
            kf.setdefault("findings", []).extend(k for k in extra if (k["property"], k["class"]) not in have)
        except (OSError, ValueError, KeyError):
            pass
    run = Run(PROP, "translation_validation")
    run.cov["rule"] = ("programs: seeded grammar (gen/c03_gen.py) biased to assignment targets x short-circuit x try/finally x break/continue/return out of "
                       "scopes x generators/async x with/eval x destructuring x classes, plus a token-mutated malformed stream; each program is compiled by "
                       "the real engine and every code block (main + nested function constants) is one evaluation of the extracted verifier; a block is "
                       "distinct by the SHA-1 of its decoded instruction texts and non-trivial when it has >= 8 instructions; a second stream is executed "
                       "with the depth log on (every VM transition checked against the abstract machine)")
    broken = None
    t_start = time.time()
    # 1. translator
    import gen_c03
    info = None
    try:
        text, info = gen_c03.generate(vlib.REPO)
        os.makedirs(os.path.join(MODEL_DIR, "_build"), exist_ok=True)
        vlib.write_if_changed(os.path.join(vlib.COQ, "Gen", "OpcodeSig.v"), text)
        run.cov["translator"] = {"source": [gen_c03.MODRS, gen_c03.ARGSRS, gen_c03.VMRS, gen_c03.CBRS], "executable_opcodes": info["executable"],
                                 "reserved": info["reserved"], "handler_truncates_stack": info["handler_truncates_stack"],
                                 "handler_truncates_bindings": info["handler_truncates_bindings"]}
    except Exception as e:
        broken = {"kind": "translator", "detail": {"error": "%s: %s" % (type(e).__name__, e)}}
    # 2. proofs + gates (+ extraction)
    if broken is None:
        pr = vlib.proof_stage(PROP, ["C03", "Gen"], "C03/Props_C03.v", extra_targets=["C03/Extract_C03.vo"])
        run.set_proof(pr, TRUSTED)
        if not pr["ok"]:
            broken = pr["broken"]
    else:
        run.cov.update({"obligations": 8, "discharged": 0, "checker_cmd": "tools/gen_c03.py", "trusted_base": TRUSTED})
    # 3. harness + model driver
    ok, paths, blog = vlib.harness_build(["dump"])
    if not ok:
        if re.search(r"^error", blog, re.M):
            run.violation({"kind": "correspondence-broken", "obligation": "harness `dump` no longer compiles against /repo (CodeBlock::verif_dump hook)",
                           "log": blog[-3000:]}, found_input=False)
            return run.finish()
        vlib.infra_error(PROP, "harness build failed: " + blog[-400:])
    dump_bin = paths["dump"]
    model_ok, mlog = ensure_model(run)
    if not model_ok:
        if broken is None:
            broken = {"kind": "proof", "detail": {"error": "extracted verifier does not build: " + mlog[-800:]}}
        if not os.path.exists(MODEL_BIN):
            run.violation({"kind": "proof-broken", "obligation": "C03/Props_C03.v + extraction over regenerated Gen/OpcodeSig.v", "detail": broken,
                           "search": "no verifier binary available: generated programs could not be checked"}, found_input=False)
            run.cov["programs"] = 0
            run.cov["disagreements_checked"] = 0
            return run.finish()
    # 4. programs
    quick = run.quick
    enlarged = broken is not None
    n_static = (700 if quick else 6000) * (2 if enlarged else 1)
    n_dyn = 150 if quick else 900
    n_mal = 150 if quick else 900
    programs = []      # (id, text, stream)
    feats = {}
    corpus = []
    if os.path.isdir(CORPUS_DIR):
        for f in sorted(os.listdir(CORPUS_DIR)):
            if f.endswith(".js"):
                corpus.append(("corpus:" + f, open(os.path.join(CORPUS_DIR, f)).read()))
    for i in range(n_static):
        t, f = c03_gen.gen_program(run.rng, run.rng.choice([20, 40, 80, 120]), prelude=False)
        programs.append(("s%d" % i, t, "static"))
        for x in f:
            feats[x] = feats.get(x, 0) + 1
    for i in range(n_mal):
        programs.append(("m%d" % i, c03_gen.gen_malformed(run.rng), "malformed"))
    dyn_programs = [("c%d" % k, t, "corpus") for k, (_, t) in enumerate(corpus)]
    for i in range(n_dyn):
        t, f = c03_gen.gen_program(run.rng, run.rng.choice([20, 40, 80]), prelude=True)
        dyn_programs.append(("d%d" % i, t, "dynamic"))
        for x in f:
            feats[x] = feats.get(x, 0) + 1
    texts = {pid: t for pid, t, _ in programs + dyn_programs}
    stream = {pid: s for pid, _, s in programs + dyn_programs}
    batches = []
    bs = 100
    for i in range(0, len(programs), bs):
        batches.append(("cfg run=0", [(p, t) for p, t, _ in programs[i:i + bs]]))
    for i in range(0, len(dyn_programs), 25):
        batches.append(("cfg run=1 loop=200 rec=40 stack=4000 maxlog=60000", [(p, t) for p, t, _ in dyn_programs[i:i + 25]]))
    result = Result()
    distinct = set()
    nins_total = 0
    sample_dump = None
    sample_static = None
    infra = []
    workers = max(2, min(8, vlib.NCPU // 2))

    def one(b):
        try:
            return run_batch(dump_bin, b[0], b[1])
        except subprocess.TimeoutExpired:
            return None
    with ThreadPoolExecutor(max_workers=workers) as ex:
        for b, r in zip(batches, ex.map(one, batches)):
            if r is None:
                infra.append("batch timeout")
                continue
            out, dump_out, rc1, rc2, err2 = r
            if rc2 != 0:
                infra.append("verifier driver exit %d: %s" % (rc2, err2))
            if rc1 != 0:
                # the dump process died (abort/stack overflow inside the engine): find the case
                infra.append("dump exit %d" % rc1)
            result.absorb(out)
            keys, nins = block_keys(dump_out)
            nins_total += nins
            for cid, blocks in keys.items():
                for bid, h in blocks.items():
                    distinct.add(h)
            if sample_dump is None and b[0].startswith("cfg run=1"):
                sample_dump = dump_out
            if sample_static is None and b[0] == "cfg run=0":
                sample_static = dump_out
    # 5. verdicts
    n_blocks = n_ok = n_rej = 0
    status_count = {}
    class_blocks = {}
    class_first = {}
    dyn_tot = {"pairs": 0, "ok": 0, "skipped": 0, "bad": 0, "annot_checked": 0, "annot_bad": 0, "unknown_block_records": 0, "witnesses": 0}
    dyn_witness = {}
    dyn_bad_cases = []
    missing = 0
    for pid in texts:
        c = result.cases.get(pid)
        if c is None:
            missing += 1
            continue
        st = c["status"].split(" ")[0] + ":" + (c["status"].split(" ")[1] if " " in c["status"] else "")
        key = stream[pid] + ":" + st
        status_count[key] = status_count.get(key, 0) + 1
        if c["status"].startswith("panic"):
            # the parser accepted the program and the bytecompiler (or the dumper) panicked: no block was emitted
            msg = re.sub(r"[^a-z0-9]+", "-", c["status"][6:].lower()).strip("-")[:48]
            pcls = "compile-panic-" + msg
            class_blocks[pcls] = class_blocks.get(pcls, 0) + 1
            if pcls not in class_first or len(texts[pid]) < len(texts[class_first[pcls][0]]):
                class_first[pcls] = (pid, "-", [c["status"]])
        for bid, ok_, line in c["blocks"]:
            n_blocks += 1
            run.cov["evaluations"] += 1
            n_ok += ok_
            n_rej += (not ok_)
        for bid, errs in classes_of(c).items():
            for cls in sorted(set(k for k, _ in errs)):
                class_blocks[cls] = class_blocks.get(cls, 0) + 1
                if cls not in class_first or len(texts[pid]) < len(texts[class_first[cls][0]]):
                    class_first[cls] = (pid, bid, [t for k, t in errs if k == cls][:6])
        if c["dyn"]:
            for k in dyn_tot:
                dyn_tot[k] += c["dyn"].get(k, 0)
            if c["dyn"].get("bad", 0) or c["dyn"].get("annot_bad", 0):
                dyn_bad_cases.append((pid, c["dynbad"][:8]))
            for w in c.get("dynwit", []):
                m = re.search(r"class=(\S+)", w)
                if m:
                    dyn_witness.setdefault(m.group(1), []).append({"program": pid, "record": w})
    run._distinct = set(distinct)
    run.cov["programs"] = len(texts) - missing
    run.cov["blocks_verified"] = n_blocks
    run.cov["blocks_accepted"] = n_ok
    run.cov["blocks_rejected"] = n_rej
    run.cov["push_scope_index_vs_environment_index"] = {"counts": result.push_scope, "mismatch_samples": result.push_scope_samples,
                                                        "note": "informational until hooks.d/C03-binding-locators.patch is applied and this comparison has been observed on the tree"}
    run.cov["blocks_with_known_env_fp"] = sum(1 for c in result.cases.values() for _, _, l in c["blocks"] if re.search(r"env_fp=\d", l))
    run.cov["instructions"] = nins_total
    run.cov["status_distribution"] = dict(sorted(status_count.items()))
    run.cov["rejection_classes_blocks"] = dict(sorted(class_blocks.items()))
    run.cov["vm_transitions_validated"] = dyn_tot
    run.cov["traces_validated_against_impl"] = dyn_tot["ok"]
    run.cov["dynamic_witnesses_of_rejected_blocks"] = {k: {"count": len(v), "first": v[0]} for k, v in sorted(dyn_witness.items())}
    run.cov["feature_distribution_top"] = dict(sorted(feats.items(), key=lambda kv: -kv[1])[:60])
    unval = sorted(o for o, c in result.cov.items() if c[1] + c[2] == 0)
    never = sorted(o for o, c in result.cov.items() if c[0] == 0)
    run.cov["opcode_coverage"] = {"executable": len(result.cov), "seen_in_dumps": len(result.cov) - len(never),
                                  "validated_dynamically": len(result.cov) - len(unval), "never_compiled": never,
                                  "compiled_but_never_executed": [o for o in unval if o not in never]}
    run.cov["disagreements_checked"] = n_rej + len(dyn_bad_cases)
    if missing:
        run.notes.append({"cases_without_result": missing, "infra": infra[:5]})
    # samples
    for pid in list(texts)[:2] + [p for p in texts if p.startswith("d")][:1]:
        c = result.cases.get(pid)
        if c:
            run.sample({"program": texts[pid][:600], "status": c["status"], "blocks": [l for _, _, l in c["blocks"]][:6],
                        "diagnostics": ["%s %s %s" % e for e in c["errs"]][:4], "dyn": c["dyn"]})
    # kernel cross-check of the extraction on a few blocks
    if broken is None and sample_dump:
        kc = kernel_crosscheck(run, sample_dump, result, info, 4 if quick else 12)
        run.cov["extraction_crosscheck"] = kc
        if kc and kc.get("disagreements"):
            run.violation({"kind": "correspondence-broken", "obligation": "extracted verifier = Coq `verify` (vm_compute) on dumped blocks",
                           "detail": kc}, found_input=False)
        elif kc and kc.get("error"):
            run.notes.append({"extraction_crosscheck_error": kc["error"][-400:]})
    # sensitivity: compiler-defect mutants of accepted blocks must be rejected
    try:
        import c03_mut
        acc = set()
        for cid, c in result.cases.items():
            for bid, ok_, _ in c["blocks"]:
                if ok_:
                    acc.add(bid)
        fps = {}
        for cid, c in result.cases.items():
            for bid, ok_, line in c["blocks"]:
                m = re.search(r"env_fp=(\d+)", line)
                if m:
                    fps[bid] = m.group(1)
        blocks = [b for b in c03_mut.parse_blocks(sample_static or "") if b[0].split()[1] in acc and b[0].split()[1] in fps and 12 <= len(b) <= 400]
        blocks = [[b[0] + " env_fp=" + fps[b[0].split()[1]]] + b[1:] for b in blocks]
        run.rng.shuffle(blocks)
        cases, meta = [], {}
        for b in blocks[:(25 if quick else 200)]:
            for kind, desc, mb in c03_mut.mutants(b, run.rng, info["bytes"]):
                cid = "mut%d" % len(cases)
                cases.append((cid, mb))
                meta[cid] = (kind, desc, b[0].split()[1])
        if cases:
            p2 = subprocess.run(["nice", "-n", "10", MODEL_BIN], input=c03_mut.wrap(cases), stdout=subprocess.PIPE, stderr=subprocess.PIPE,
                                text=True, timeout=1500, errors="replace")
            mres = Result()
            mres.absorb(p2.stdout)
            sens, survivors = {}, []
            for cid, (kind, desc, bid) in meta.items():
                c = mres.cases.get(cid)
                killed = bool(c) and any(not ok_ for _, ok_, _ in c["blocks"])
                k = sens.setdefault(kind, [0, 0])
                k[1] += 1
                k[0] += killed
                if not killed and len(survivors) < 12:
                    survivors.append({"kind": kind, "where": desc, "block": bid})
            run.cov["mutation_sensitivity"] = {"rule": "edits of dumps of accepted blocks simulating one-line lowering defects; [killed, total] per kind",
                                               "per_kind": sens, "survivors_sample": survivors}
    except Exception as e:   # the sensitivity stage never decides the verdict
        run.notes.append({"mutation_stage_error": "%s: %s" % (type(e).__name__, e)})
    found_any = False
    for cls in sorted(class_first):
        pid, bid, diags = class_first[cls]
        text = texts[pid]
        small = text
        known = vlib.match_known(PROP, {"class": cls}) is not None
        if not cls.startswith("compile-panic") and not (known and quick):
            try:
                small = shrink(dump_bin, text, cls, budget=10 if quick else 60)
            except Exception:
                small = text
        obj = {"kind": "counterexample", "class": cls, "what": CLASS_DOC.get(cls, "block rejected by the verifier"),
               "input": small, "original_program_id": pid, "block": bid, "diagnostics": diags, "blocks_in_this_run": class_blocks[cls],
               "obligation": "verify cb = true for every block of compile(P) (coq/C03/Props_C03.v verify_sound)",
               "how_to_rerun": "./check replay <this file>   (compiles `input` with harness/target/debug/dump and runs ocaml/C03/_build/c03_driver)"}
        if run.violation(obj):
            found_any = True
        if cls.startswith(("exc-", "short-", "async-")) and quick is False:
            # keep the shrunk witness for the next runs
            try:
                os.makedirs(CORPUS_DIR, exist_ok=True)
                pth = os.path.join(CORPUS_DIR, "class-%s.js" % cls)
                if not os.path.exists(pth):
                    open(pth, "w").write(small)
            except OSError:
                pass
    for pid, bad in dyn_bad_cases[:3]:
        run.violation({"kind": "correspondence-broken", "class": "vm-transition-outside-abstract-machine",
                       "obligation": "every VM transition observed in the depth log is an abstract transition of coq/C03/Bytecode_C03.v (effect table, exception edges)",
                       "input": texts[pid], "impl_output": bad, "how_to_rerun": "./check replay <this file>"}, found_input=found_any)
    if broken is not None and not found_any:
        run.violation({"kind": "proof-broken", "obligation": "C03/Props_C03.v over regenerated Gen/OpcodeSig.v", "detail": broken,
                       "search": "%d generated programs (%d blocks) verified with the last extracted verifier: no rejected block" % (len(texts), n_blocks)},
                      found_input=False)
    elif broken is not None:
        run.notes.append({"proof_broken": broken})
    if infra:
        run.notes.append({"infra": infra[:10]})
    run.assumptions = TRUSTED
    run.cov["gen_wall_s"] = round(time.time() - t_start, 1)
    return run.finish()


def replay(obj):
    ok, paths, _ = vlib.harness_build(["dump"])
    r = Run(PROP, "translation_validation")
    ensure_model(r)
    text = obj.get("input", "")
    out, dump_out, _, _, _ = run_batch(paths["dump"], "cfg run=1 loop=200 rec=40 stack=4000 maxlog=2000", [("replay", text)])
    print(text)
    for line in out.split("\n"):
        if not line.startswith("cov "):
            print(line)
    res = Result()
    res.absorb(out)
    c = res.cases.get("replay")
    cls = obj.get("class")
    if c and cls and cls.startswith("compile-panic") and c["status"].startswith("panic"):
        print("REPRODUCED class=%s" % cls)
        return 1
    if c and any(k == cls for _, k, _ in c["errs"]):
        print("REPRODUCED class=%s" % cls)
        return 1
    print("not reproduced")
    return 0
