"""C15 — typed arrays, buffers and DataViews match a byte model and stay in bounds.

Proof: coq/C15/Props_C15.v over coq/C15/Model_C15.v (transliterated from typed_array/{object,builtin,mod}.rs,
array_buffer/{mod,shared,utils}.rs, dataview/mod.rs, value/{mod,integer}.rs, number/conversions.rs): the element
conversions equal the ECMA-262 modular conversions for every double, the bounds arithmetic of validate_index /
validate_index_u64 / DataView get/set keeps every accepted access inside the *current* buffer for every view
geometry, get-after-set round trips, endianness is an involution, out-of-bounds / detached accesses are
undefined / no-ops.

Tie: histories of buffer creation / resize / transfer / slice / detach, view creation (12 element kinds, offsets,
lengths, length-tracking), element and DataView get/set with Numbers/BigInts from the conversion boundary set, bulk
operations between overlapping views -- with resizes and detaches hidden in argument `valueOf`s -- are run on the
real engine (harness `taops`, one boa Context per history, raw buffer bytes observed natively after every op) and on
the extracted Gallina `step`; result + every buffer's bytes + every view's geometry are diffed after every op.

The model carries the conversion table in two variants (the tree as found: `as i64` saturation / saturating element
casts; and the repaired one).  A probe of six witness conversions on the built engine selects the variant that
models the code that exists (`impl_cfg`); the correspondence uses that variant.  The property oracle is always the
*specified* variant (proved equal to ToInt8/…/ToUint8Clamp by `conv_spec`): a history on which the engine differs
from it is a concrete counterexample; it is shrunk and labelled with a class computed from the shrunk case itself.

Search: (a) the same histories against the spec variant; (b) an independent Python oracle (big-integer modular
arithmetic / struct) for store-then-load of boundary Numbers and BigInts through every element kind and through
DataView in both byte orders; (c) thorough tier: the release build (no overflow checks) against the debug build.
"""
import json
import os
import re
import struct
import subprocess
import sys
import time
from concurrent.futures import ThreadPoolExecutor

import vlib
from vlib import Run, log

sys.path.insert(0, os.path.join(vlib.VERIF, "gen"))
import c15_gen  # noqa: E402

PROP = "C15"
MODEL_DIR = os.path.join(vlib.OCAML, "C15")
MODEL_BIN = os.path.join(MODEL_DIR, "_build", "c15_driver")
CORPUS_DIR = os.path.join(vlib.CORPUS, PROP)
TRUSTED = [
    "Coq 8.16.1 kernel (proofs, vm_compute for the six refutation witnesses); extraction with ExtrOcamlBasic only + OCaml 4.13 (model execution)",
    "ocaml/C15/c15_driver.ml (history parser / printer around the extracted `step`), harness/src/bin/taops.rs (ops rendered as JavaScript, "
    "buffers observed natively through JsArrayBuffer::data / JsSharedArrayBuffer::to_vec, geometry through the JS accessors)",
    "modelled, not verified: u64 arithmetic as Z mod 2^64, `as i64`/`as iN` from f64 as saturating truncation, `%` as Z.rem, integer `as` casts as wrapping, "
    "f32/f16 narrowing as round-to-nearest-even (no theorem: correspondence only), AlignedVec<u8> as list of bytes, SliceRef/SliceRefMut raw pointer "
    "views by their index arithmetic only (memory safety of the unsafe blocks themselves is not proved), JsValue::from(f64) canonicalising NaN (C12)",
    "shared-memory atomics (Atomics.*), sort/toSorted/iteration methods, species constructors, typed arrays on the prototype chain are outside the model",
    "gen/c15_gen.py (seeded generator), checks/c15.py (comparison, canonicalisation, shrinking, classification, Python conversion oracle)",
]
CLASS_NARROW = "narrow-int-conv-saturates"
CLASS_CAST = "ta-from-ta-cast-saturates"
CLASS_SAB = "sab-slice-empty-typeerror"
SPEC_CFG = (1, 1, 1)
# one as-found table at a time (everything else as specified) -> the class it defines
SINGLE = [((0, 1, 1), CLASS_NARROW), ((1, 0, 1), CLASS_CAST), ((1, 1, 0), CLASS_SAB)]
WHAT = {
    CLASS_NARROW: "ToInt8/ToUint8/ToInt16/ToUint16 saturate through `as i64` for |x| >= 2^63 instead of wrapping modulo 2^n "
                  "(value/mod.rs; Coq: to_uint8_refuted, conv_old_spec_in_range)",
    CLASS_CAST: "TypedArrayElement::cast (typed array constructed from a typed array of another element type) uses saturating `as` casts / "
                "round-half-away instead of the modular conversions (typed_array/mod.rs to_element_f64; Coq: cast_old_refuted)",
    CLASS_SAB: "SharedArrayBuffer.prototype.slice on a buffer whose data block is zero-sized throws TypeError: the same-block test compares "
               "first-byte addresses and all zero-sized blocks share one dangling address (array_buffer/shared.rs step 18)",
}


# ------------------------------------------------------------------------------------------------
# running model and implementation

def run_proc(cmd, text, timeout=900):
    try:
        p = subprocess.run(cmd, input=text, stdout=subprocess.PIPE, stderr=subprocess.PIPE, text=True, timeout=timeout, errors="replace")
        return p.stdout.split("\n"), p.returncode, p.stderr[-400:]
    except subprocess.TimeoutExpired:
        return [], 124, "timeout"


def hist_text(hid, ops):
    return "H %s\n%s\n" % (hid, "\n".join(ops))


def split_out(lines):
    """output lines -> {history id: [result lines]}"""
    out, cur = {}, None
    for ln in lines:
        if ln.startswith("H "):
            cur = ln[2:].strip()
            out[cur] = []
        elif cur is not None and ln != "":
            out[cur].append(ln)
    return out


def run_many(cmd, hists, nproc=None, timeout=1200):
    """hists: list of (id, ops).  Runs `cmd` on chunks in parallel; returns {id: [lines]} and a list of process problems."""
    nproc = nproc or max(2, min(vlib.NCPU, 12))
    nchunks = max(1, min(len(hists), nproc * 2))
    chunks = [hists[i::nchunks] for i in range(nchunks)]

    def one(chunk):
        text = "".join(hist_text(h, ops) for h, ops in chunk)
        lines, rc, err = run_proc(cmd, text, timeout)
        return split_out(lines), rc, err
    res, problems = {}, []
    with ThreadPoolExecutor(max_workers=nproc) as ex:
        for out, rc, err in ex.map(one, chunks):
            res.update(out)
            if rc != 0:
                problems.append("%s: exit %s %s" % (os.path.basename(cmd[0]), rc, err))
    return res, problems


def model_cmd(cfg):
    return [MODEL_BIN] + [str(x) for x in cfg]


def canon_impl(ln):
    if ln.startswith("panic:"):
        return "panic"
    return ln


def compare(ops, mlines, ilines):
    """First disagreement between model and implementation lines of one history.
    Returns (status, index): status in ok | mismatch | poison | short.  Comparison stops (without alarm) where the model marks
    the state as depending on a NaN payload (poison) and after a predicted-and-observed panic."""
    n = len(ops)
    for k in range(n):
        m = mlines[k] if k < len(mlines) else "<missing>"
        i = canon_impl(ilines[k]) if k < len(ilines) else "<missing>"
        if m.endswith("|P"):
            return "poison", k
        if m != i:
            return "mismatch", k
        if m.startswith("panic"):
            return "ok", k
    return "ok", n


# ------------------------------------------------------------------------------------------------
# Python oracle for conversions (independent of the Coq model): exact integers / struct

def f64_of_bits(b):
    return struct.unpack("<d", struct.pack("<Q", b))[0]


def bits_of_f64(x):
    return struct.unpack("<Q", struct.pack("<d", x))[0]


def py_trunc(x):
    if x != x or x in (float("inf"), float("-inf")):
        return 0
    return int(x)        # exact, rounds toward zero


def py_round_f32(x):
    try:
        return struct.unpack("<f", struct.pack("<f", x))[0]
    except OverflowError:
        return float("inf") if x > 0 else float("-inf")


def py_round_f16(x):
    try:
        return struct.unpack("<e", struct.pack("<e", x))[0]
    except OverflowError:
        return float("inf") if x > 0 else float("-inf")


def py_store_load(kind, tok):
    """Expected `show` string of reading back the value `tok` stored through element kind `kind` (ECMA-262 7.1.6-7.1.16,
    25.1.3.x), or 'E:TypeError' when the content type does not match.  None = not predicted (NaN payloads)."""
    big = kind in ("i64", "u64")
    if tok == "u":
        if big:
            return "E:TypeError"
        x = float("nan")
    elif tok[0] == "g":
        if not big:
            return "E:TypeError"
        z = -int(tok[2:], 16) if tok[1] == "-" else int(tok[1:], 16)
        z %= 1 << 64
        if kind == "i64" and z >= 1 << 63:
            z -= 1 << 64
        return ("G-%x" % -z) if z < 0 else ("G%x" % z)
    else:
        if big:
            return "E:TypeError"
        x = f64_of_bits(int(tok[1:], 16))
    if kind in ("i8", "u8", "i16", "u16", "i32", "u32"):
        n = int(kind[1:])
        z = py_trunc(x) % (1 << n)
        if kind[0] == "i" and z >= 1 << (n - 1):
            z -= 1 << n
        return "F%016x" % bits_of_f64(float(z))
    if kind == "c8":
        if x != x or x <= 0:
            z = 0
        elif x >= 255:
            z = 255
        else:
            f = int(x)                      # floor, x > 0
            d = x - f                       # exact for 0 < x < 255
            z = f + 1 if d > 0.5 else (f if d < 0.5 else (f + 1 if f % 2 else f))
        return "F%016x" % bits_of_f64(float(z))
    if x != x:
        return "Fnan"
    if kind == "f64":
        return "F%016x" % bits_of_f64(x)
    y = py_round_f32(x) if kind == "f32" else py_round_f16(x)
    return "F%016x" % bits_of_f64(y)


def conv_sweep_history(rng, gen, nvals, caps):
    """store/load pairs through every element kind (typed array element and DataView in both byte orders); returns
    (ops, expectations) with expectations = {op index: expected result field}"""
    kinds = [k for k in c15_gen.KINDS if caps.get("f16", 1) or k != "f16"]
    # one 16-byte buffer; a view of the chosen kind is (re)created in slot 8 on demand, the DataView lives in slot 9
    ops = ["newbuf 0 0 %s -" % c15_gen.fv(16.0), "mkdv 9 0 u u"]
    exp = {}
    for _ in range(nvals):
        k = rng.choice(kinds)
        tok = gen.value_for(k)
        if rng.random() < 0.55:
            ops.append("mkta 8 %s 0 u u" % k)
            ops.append("set 8 %s %s -" % (c15_gen.fv(1.0), tok))
            e = py_store_load(k, tok)
            if e == "E:TypeError":
                exp[len(ops) - 1] = e
                continue
            ops.append("get 8 %s" % c15_gen.fv(1.0))
            if e is not None:
                exp[len(ops) - 1] = "V:" + e
        elif k != "c8":
            le = rng.randrange(2)
            off = rng.randrange(0, 16 - c15_gen.SIZE[k] + 1)
            ops.append("dvset 9 %s %s %s %d -" % (k, c15_gen.fv(float(off)), tok, le))
            e = py_store_load(k, tok)
            if e == "E:TypeError":
                exp[len(ops) - 1] = e
                continue
            ops.append("dvget 9 %s %s %d" % (k, c15_gen.fv(float(off)), le))
            if e is not None:
                exp[len(ops) - 1] = "V:" + e
    return ops, exp


# ------------------------------------------------------------------------------------------------
# generation

def gen_histories(run, n, nops, caps, stats):
    g = c15_gen.Gen(run.rng, stats)
    g.allow_transfer = bool(caps.get("transfer", 0))
    g.allow_f16 = bool(caps.get("f16", 1))
    hists = []
    for h in range(n):
        c = run.rng.random()
        if c < 0.2:
            ops, fam = g.conv_history(nops), "conv"
        elif c < 0.32:
            ops, fam = c15_gen.malformed_history(run.rng, nops, stats, g), "malformed"
        elif c < 0.5:
            ops, fam = g.resize_history(nops), "resize-inside-op"
        elif c < 0.62:
            ops, fam = g.shared_copy_history(nops), "shared-copy"
        else:
            ops, fam = g.history(nops), "mixed"
        stats["family:" + fam] = stats.get("family:" + fam, 0) + 1
        hists.append(("g%d" % h, ops))
    return hists


def corpus_histories():
    out = []
    if os.path.isdir(CORPUS_DIR):
        for f in sorted(os.listdir(CORPUS_DIR)):
            if f.endswith(".hist"):
                ops = [ln.strip() for ln in open(os.path.join(CORPUS_DIR, f)) if ln.strip() and not ln.startswith("#")]
                out.append(("c_" + f[:-5], ops))
    return out


def needs(ops, caps):
    """ops usable on this build (feature-gated builtins)"""
    if not caps.get("transfer", 0) and any(o.startswith("transfer ") for o in ops):
        return False
    if not caps.get("f16", 1) and any(" f16 " in o + " " for o in ops):
        return False
    return True


# ------------------------------------------------------------------------------------------------
# shrinking and classification

def batch_differs(harness, cfg, cands):
    """for each candidate op list: (differs?, first index, model line, impl line) -- one parallel batch per side"""
    hs = [("k%d" % i, ops) for i, ops in enumerate(cands)]
    impl, _ = run_many([harness], hs, timeout=300)
    mod, _ = run_many(model_cmd(cfg), hs, timeout=300)
    out = []
    for h, ops in hs:
        ml, il = mod.get(h, []), impl.get(h, [])
        st, k = compare(ops, ml, il)
        if st == "mismatch":
            out.append((True, k, ml[k] if k < len(ml) else "<missing>", il[k] if k < len(il) else "<missing>"))
        else:
            out.append((False, k, None, None))
    return out


def differs(harness, cfg, ops):
    """does the implementation differ from model variant cfg on this history? -> (bool, index, mline, iline)"""
    return batch_differs(harness, cfg, [ops])[0]


def shrink(harness, cfg, ops, rounds=30):
    """delta debugging on the op list (all candidates of a round run as one parallel batch): keeps a history on which
    implementation and model(cfg) still differ"""
    bad, k, _, _ = differs(harness, cfg, ops)
    if not bad:
        return ops
    cur = ops[:k + 1]
    n = 2
    while len(cur) >= 2 and rounds > 0:
        rounds -= 1
        size = max(1, len(cur) // n)
        cands = [cur[:start] + cur[start + size:] for start in range(0, len(cur), size)]
        cands = [c for c in cands if c]
        res = batch_differs(harness, cfg, cands)
        best = None
        for c, (b2, k2, _, _) in zip(cands, res):
            if b2 and (best is None or k2 + 1 < len(best)):
                best = c[:k2 + 1]
        if best is not None:
            cur = best
            n = max(2, n - 1)
        else:
            if size == 1:
                break
            n = min(len(cur), n * 2)
    return cur


def model_lines(cfg, ops):
    ml, _, _ = run_proc(model_cmd(cfg), hist_text("s", ops), 120)
    return split_out(ml).get("s", [])


def classify(harness, ops):
    """Class label of a history on which the implementation differs from the specified behaviour, computed from the case:
    which of the two as-found conversion tables (and only it) reproduces the implementation's output on this history."""
    il, _, _ = run_proc([harness], hist_text("s", ops), 120)
    il = [canon_impl(x) for x in split_out(il).get("s", [])]
    spec = model_lines(SPEC_CFG, ops)

    def same(cfg):
        st, _ = compare(ops, model_lines(cfg, ops), il)
        return st == "ok"
    if same(SPEC_CFG):
        return None, il, spec
    for cfg, cls in SINGLE:
        if same(cfg):
            return cls, il, spec
    if same((0, 0, 0)):
        # more than one table involved in one (unshrinkable) history: label by the op at which it first shows
        st, k = compare(ops, spec, il)
        op = ops[min(k, len(ops) - 1)].split()[0]
        return (CLASS_CAST if op == "mktafrom" else CLASS_SAB if op == "bslice" else CLASS_NARROW), il, spec
    return None, il, spec


def js_of(harness, ops):
    lines, _, _ = run_proc([harness, "--js"], hist_text("s", ops), 60)
    return [ln for ln in lines if ln and not ln.startswith("//")]


# ------------------------------------------------------------------------------------------------

def build_model(run):
    os.makedirs(os.path.join(MODEL_DIR, "_build"), exist_ok=True)
    pr = vlib.proof_stage(PROP, ["C15"], "C15/Props_C15.v", extra_targets=["C15/Extract_C15.vo"])
    run.set_proof(pr, TRUSTED)
    if not pr["ok"]:
        return pr, None
    with vlib.Lock("ocaml-c15"):
        rc, out, err = vlib.sh(["bash", "build.sh"], cwd=MODEL_DIR, timeout=900)
    if rc != 0 or not os.path.exists(MODEL_BIN):
        return pr, "model driver build failed: " + (out + err)[-800:]
    try:
        src = open(os.path.join(vlib.COQ, "C15", "Extract_C15.v")).read()
        run.cov["extraction_directives"] = [ln.strip() for ln in vlib.strip_coq_comments(src).split("\n")
                                            if re.match(r"\s*(Extract|Extraction|Set Extraction|Require|From)", ln)]
    except OSError:
        pass
    return pr, None


def fake_engine(cfg_text):
    """self-test of the check's own logic (env C15_FAKE_ENGINE="n c s"): a stand-in for the engine that answers with the extracted
    model under the given variant, e.g. "1 1 1" = how the engine behaves once fixes.d/C15-*.patch are applied.  Never used by
    ./check unless the variable is set; the evidence then says so."""
    path = os.path.join(vlib.WORK, "c15_fake_engine.py")
    os.makedirs(vlib.WORK, exist_ok=True)
    with open(path, "w") as f:
        f.write("#!/usr/bin/env python3\nimport sys, subprocess\n"
                "if len(sys.argv) > 1 and sys.argv[1] == '--js':\n    sys.stdin.read(); sys.exit(0)\n"
                "data = sys.stdin.read()\n"
                "if data.strip() == 'caps':\n    print('caps transfer=1 f16=1 resizable=1 growable=1'); sys.exit(0)\n"
                "p = subprocess.run([%r] + %r, input=data, stdout=subprocess.PIPE, text=True)\n"
                "sys.stdout.write(p.stdout)\n" % (MODEL_BIN, cfg_text.split()))
    os.chmod(path, 0o755)
    return path


def get_caps(harness):
    lines, rc, err = run_proc([harness], "caps\n", 120)
    caps = {}
    for ln in lines:
        if ln.startswith("caps "):
            for kv in ln.split()[1:]:
                if "=" in kv:
                    k, v = kv.split("=", 1)
                    caps[k] = int(v) if v.isdigit() else 0
    return caps


PROBE = ["newbuf 0 0 %s -" % c15_gen.fv(8.0), "mkdv 9 0 u u", "mkta 0 u8 0 u u", "mkta 1 f64 0 u u",
         # narrow conversions: 3.5e38 through ToUint8 / ToInt16 (must be 0)
         "dvset 9 u8 %s %s 1 -" % (c15_gen.fv(0.0), c15_gen.fv(3.5e38)), "dvget 9 u8 %s 1" % c15_gen.fv(0.0),
         "dvset 9 i16 %s %s 1 -" % (c15_gen.fv(0.0), c15_gen.fv(-3.5e38)), "dvget 9 i16 %s 1" % c15_gen.fv(0.0),
         # element casts: Int8Array(Uint8Array[239]) (must be -17), Uint8ClampedArray(Float64Array[0.5]) (must be 0)
         "set 0 %s %s -" % (c15_gen.fv(0.0), c15_gen.fv(239.0)), "mktafrom 2 1 i8 0", "get 2 %s" % c15_gen.fv(0.0),
         "set 1 %s %s -" % (c15_gen.fv(0.0), c15_gen.fv(0.5)), "mktafrom 3 2 c8 1", "get 3 %s" % c15_gen.fv(0.0),
         # slice of an empty SharedArrayBuffer (must give a new empty buffer)
         "newbuf 4 1 %s -" % c15_gen.fv(0.0), "bslice 5 4 u u"]


def probe_cfg(harness):
    """Which conversion table does the built engine have?  -> ((narrow_fixed, cast_fixed), details)"""
    il, _, _ = run_proc([harness], hist_text("p", PROBE), 120)
    il = split_out(il).get("p", [])

    def res(k):
        return il[k].split("|")[0] if k < len(il) else "?"
    zero = "V:F%016x" % 0
    narrow = int(res(5) == zero and res(7) == zero)
    cast = int(res(10) == "V:F%016x" % bits_of_f64(-17.0) and res(13) == zero)
    sab = int(res(15) == "ok")
    return (narrow, cast, sab), {"u8(3.5e38)": res(5), "i16(-3.5e38)": res(7), "i8<-u8(239)": res(10), "c8<-f64(0.5)": res(13),
                                 "SharedArrayBuffer(0).slice()": res(15)}


def main():
    run = Run(PROP, "proof")
    run.cov["rule"] = ("cases are operation histories (one fresh engine Context each) from five seeded families (the fifth, shared-copy: copyWithin / set / "
                       "slice on views of one SharedArrayBuffer over all (from mod 8, to mod 8, count) classes and both directions): mixed (buffers, views, "
                       "element/DataView access, bulk ops, resizes/detaches also from inside argument valueOf), conversion-focused (boundary "
                       "Numbers/BigInts through all element kinds), resize-inside-op (length-tracking/fixed views of one resizable buffer, every "
                       "bulk/element op shrinking, growing or detaching it from inside an argument) and malformed/edge (empty slots, wrong view "
                       "family, extreme indices); after "
                       "every op the result, all buffer bytes and all view geometries are compared.  evaluations = ops compared; "
                       "a history is distinct by its op list and non-trivial when at least one op completed without skip on both sides")
    stats = {}
    broken = None
    # 1-2. proofs, gates, extraction, model driver
    pr, merr = build_model(run)
    if not pr["ok"]:
        broken = pr["broken"]
    if merr:
        vlib.infra_error(PROP, merr)
    model_ok = os.path.exists(MODEL_BIN)
    if broken is not None and not model_ok:
        # no executable model at all: the Python oracle still searches
        log("C15: proof stage broken and no model driver: %r" % (broken,))
    # 3. harness
    tb = time.time()
    ok, paths, blog = vlib.harness_build(["taops"])
    if not ok:
        if re.search(r"^error", blog, re.M):
            run.violation({"kind": "correspondence-broken", "obligation": "harness `taops` no longer compiles against /repo",
                           "log": blog[-3000:]}, found_input=False)
            return run.finish()
        vlib.infra_error(PROP, "harness build failed: " + blog[-400:])
    harness = paths["taops"]
    if os.environ.get("C15_FAKE_ENGINE"):
        harness = fake_engine(os.environ["C15_FAKE_ENGINE"])
        run.notes.append("SELF-TEST: engine replaced by the extracted model under variant %s (C15_FAKE_ENGINE); not a statement about /repo"
                         % os.environ["C15_FAKE_ENGINE"])
    builds = [("debug", harness)]
    if not run.quick and not os.environ.get("C15_FAKE_ENGINE"):
        ok2, p2, blog2 = vlib.harness_build(["taops"], profile="release", target_dir=os.path.join(vlib.HARNESS, "target-release"))
        if ok2:
            builds.append(("release", p2["taops"]))
        else:
            run.notes.append("release build failed (not compared): " + blog2[-300:])
        ok3, p3, blog3 = vlib.harness_build(["taops"], features=["boa_engine/experimental"],
                                            target_dir=os.path.join(vlib.HARNESS, "target-exp"))
        if ok3:
            builds.append(("debug+experimental", p3["taops"]))
        else:
            run.notes.append("experimental-feature build failed (ArrayBuffer.prototype.transfer not compared): " + blog3[-300:])
    run.cov["harness_build_wall_s"] = round(time.time() - tb, 1)      # includes queueing on the shared cargo lock
    caps = {label: get_caps(b) for label, b in builds}
    run.cov["builds"] = {label: caps[label] for label, _ in builds}
    if not caps["debug"]:
        vlib.infra_error(PROP, "harness `taops` does not answer the caps probe")
    # which conversion table models the code that exists
    impl_cfg, probe = probe_cfg(harness)
    run.cov["impl_variant"] = {"narrow_fixed": impl_cfg[0], "cast_fixed": impl_cfg[1], "sab_slice_fixed": impl_cfg[2], "probe": probe}

    # 4. corpus + generated histories
    t0 = time.time()
    nh, nops = (420, 36) if run.quick else (3000, 48)
    if broken is not None:
        nh *= 2
    corpus = corpus_histories()
    gen = gen_histories(run, nh, nops, caps["debug"], stats)
    bounds = []
    if not caps["debug"].get("transfer", 0):
        bounds.append("ArrayBuffer.prototype.transfer/transferToFixedLength are behind boa's `experimental` feature: "
                      + ("compared on the debug+experimental build only" if any(l == "debug+experimental" for l, _ in builds) else "not compared in this tier"))
    run.cov["bounds"] = bounds
    findings = []      # (label, hist id, ops, index, mline, iline, against)
    corr_bad = []

    def check_build(label, binpath, hists, targets):
        """run the histories once on the engine and once per model variant; targets = [(cfg, sink, counted)]"""
        usable = [(h, ops) for h, ops in hists if needs(ops, caps[label])]
        impl, probs = run_many([binpath], usable)
        for p in probs:
            run.notes.append(p)
        npoison = 0
        for cfg, sink, counted in targets:
            mod, mprobs = run_many(model_cmd(cfg), usable)
            for p in mprobs:
                run.notes.append(p)
            for h, ops in usable:
                ml, il = mod.get(h, []), impl.get(h, [])
                st, k = compare(ops, ml, il)
                if counted:
                    compared = k if st != "ok" else min(k + 1, len(ops))
                    run.cov["evaluations"] += compared
                    if any(not x.startswith("skip") for x in ml[:compared]):
                        run._distinct.add(hash((label, tuple(ops))))
                    if st == "poison":
                        npoison += 1
                if st == "mismatch":
                    sink.append({"build": label, "hist": h, "ops": ops, "k": k, "impl": il, "against": cfg})
        return len(usable), npoison

    total_h = 0
    poisoned = 0
    if model_ok:
        for label, binpath in builds:
            hs = corpus + gen
            if label == "debug+experimental":
                # the transfer-enabled stream
                st2 = {}
                g2 = gen_histories(run, max(200, nh // 4), nops, caps[label], st2)
                for k2, v2 in st2.items():
                    stats["exp:" + k2] = v2
                hs = corpus + g2
            if impl_cfg != SPEC_CFG:
                # tie: the variant that models the code that exists; property oracle: the specified variant
                n, p = check_build(label, binpath, hs, [(impl_cfg, corr_bad, True), (SPEC_CFG, findings, False)])
            else:
                n, p = check_build(label, binpath, hs, [(SPEC_CFG, findings, True)])
            total_h += n
            poisoned += p
    run.cov["histories"] = total_h
    run.cov["histories_cut_at_nan_payload"] = poisoned
    run.cov["corpus_histories"] = len(corpus)
    run.cov["correspondence_wall_s"] = round(time.time() - t0, 1)

    # 5. Python oracle: store/load sweeps (independent of the Coq model)
    t1 = time.time()
    g = c15_gen.Gen(run.rng, stats)
    nsweep, nvals = (40, 60) if run.quick else (600, 80)
    if broken is not None or corr_bad:
        nsweep *= 3
    sweeps = []
    for h in range(nsweep):
        ops, exp = conv_sweep_history(run.rng, g, nvals, caps["debug"])
        sweeps.append(("s%d" % h, ops, exp))
    py_bad = []
    npairs = 0
    for label, binpath in builds:
        impl, probs = run_many([binpath], [(h, ops) for h, ops, _ in sweeps])
        for p in probs:
            run.notes.append(p)
        for h, ops, exp in sweeps:
            il = impl.get(h, [])
            for k, e in exp.items():
                got = canon_impl(il[k]).split("|")[0] if k < len(il) else "<missing>"
                npairs += 1
                run.cov["evaluations"] += 1
                if got != e:
                    py_bad.append((label, h, ops, k, e, got))
            run._distinct.add(hash((label, "sweep", tuple(ops))))
    run.cov["python_oracle_pairs"] = npairs
    run.cov["python_oracle_wall_s"] = round(time.time() - t1, 1)
    run.cov["distribution"] = dict(sorted(stats.items()))

    # samples
    for h, ops in (gen[:2] + corpus[:1]):
        run.sample({"history": h, "ops": ops[:14], "n_ops": len(ops)})
    if sweeps:
        run.sample({"history": sweeps[0][0], "ops": sweeps[0][1][:8], "python_expectations": {str(k): v for k, v in list(sweeps[0][2].items())[:4]}})

    # ---- verdicts ----
    tr = time.time()
    reported = set()
    reported_hist = set()

    def report_history(label, binpath, h, ops, against, kind, obligation):
        sh = shrink(binpath, against, ops)
        cls, il, spec = classify(binpath, sh)
        key = ("h", tuple(sh)) if cls is None else (cls,)
        reported_hist.add((label, h))
        if key in reported:
            return
        reported.add(key)
        bad, k, ml, iline = differs(binpath, against, sh)
        obj = {"kind": kind, "class": cls, "build": label, "input": sh, "original_history": h, "original_length": len(ops),
               "first_difference_at_op": k, "model_output": ml, "impl_output": iline, "obligation": obligation,
               "model_variant": {"narrow_fixed": against[0], "cast_fixed": against[1], "sab_slice_fixed": against[2]},
               "javascript": js_of(binpath, sh),
               "how_to_rerun": "./check replay <this file>   (or: printf 'H x\\n<ops>\\n' | harness/target/debug/taops ; same | ocaml/C15/_build/c15_driver 1 1 1)"}
        if cls in WHAT:
            obj["what"] = WHAT[cls]
        run.violation(obj)

    bins = dict(builds)

    def preclass(items):
        """which as-found conversion table (if any) explains the engine's output on the *whole* history: a cheap model-only
        pre-sort so that one representative per class is shrunk; the reported label is recomputed from the shrunk case"""
        if not items or not model_ok:
            return
        hs = [("f%d" % i, it["ops"]) for i, it in enumerate(items)]
        variants = SINGLE + [((0, 0, 0), "several")]
        outs = {cfg: run_many(model_cmd(cfg), hs, timeout=600)[0] for cfg, _ in variants}
        for i, it in enumerate(items):
            it["pre"] = None
            for cfg, cls in variants:
                st, _ = compare(it["ops"], outs[cfg].get("f%d" % i, []), it["impl"])
                if st == "ok":
                    it["pre"] = cls
                    break

    def representatives(items, per_unexplained=5):
        preclass(items)
        groups = {}
        for it in items:
            key = it.get("pre") or ("?", it["ops"][min(it["k"], len(it["ops"]) - 1)].split()[0])
            groups.setdefault(key, []).append(it)
        reps = []
        for key, its in groups.items():
            its.sort(key=lambda it: it["k"])
            reps.append(its[0])
        run.cov.setdefault("finding_groups", {}).update({str(k): len(v) for k, v in groups.items()})
        known = [r for r in reps if r.get("pre")]
        unknown = [r for r in reps if not r.get("pre")][:per_unexplained]
        return unknown + known

    # counterexamples against the specified behaviour
    for it in representatives(findings):
        report_history(it["build"], bins[it["build"]], it["hist"], it["ops"], SPEC_CFG, "counterexample",
                       "engine vs byte model under the specified conversions (model variant proved by conv_spec / in_bounds / get_set_roundtrip)")
    seen_py = set()
    for (label, h, ops, k, e, got) in py_bad:
        t = ops[k].split()
        kind = t[2] if t[0] in ("dvget", "dvset") else next((o.split()[2] for o in reversed(ops[:k]) if o.startswith("mkta 8 ")), "?")
        sig = (label, t[0], kind)
        if sig in seen_py or len(seen_py) >= 8:
            continue
        seen_py.add(sig)
        pre = ops[:k + 1]
        if model_ok:
            report_history(label, bins[label], h, pre, SPEC_CFG, "counterexample",
                           "store-then-load through an element kind vs the Python big-integer/struct oracle: expected %s got %s" % (e, got))
        else:
            run.violation({"kind": "counterexample", "class": None, "build": label, "input": pre, "expected": e, "impl_output": got,
                           "obligation": "store-then-load vs Python oracle"})
    run.cov["python_oracle_disagreements"] = len(py_bad)
    # the model of the code that exists disagrees with the code: the tie is broken
    for it in representatives(corr_bad)[:6] if impl_cfg != SPEC_CFG else []:
        label, against = it["build"], it["against"]
        if (label, it["hist"]) in reported_hist:
            continue
        sh = shrink(bins[label], against, it["ops"])
        bad, k2, ml2, il2 = differs(bins[label], against, sh)
        spec_bad, _, _, _ = differs(bins[label], SPEC_CFG, sh)
        key = ("h", tuple(sh))
        if key in reported:
            continue
        reported.add(key)
        run.violation({"kind": "correspondence-broken" if not spec_bad else "counterexample", "class": None, "build": label, "input": sh,
                       "original_history": it["hist"], "first_difference_at_op": k2, "model_output": ml2, "impl_output": il2,
                       "model_variant": {"narrow_fixed": against[0], "cast_fixed": against[1], "sab_slice_fixed": against[2]},
                       "differs_from_specified_behaviour": spec_bad, "javascript": js_of(bins[label], sh),
                       "obligation": "Model_C15.step (variant selected by the conversion probe) vs engine, op by op",
                       "how_to_rerun": "./check replay <this file>"}, found_input=True)
    # debug vs release
    if broken is not None and not run.violations and not run.known:
        run.violation({"kind": "proof-broken", "obligation": "C15/Props_C15.v", "detail": broken,
                       "search": "%d histories and %d store/load pairs against the spec variant and the Python oracle found no failing input" % (total_h, npairs)},
                      found_input=False)
    elif broken is not None:
        run.notes.append({"proof_broken": broken})
    run.cov["shrink_and_report_wall_s"] = round(time.time() - tr, 1)
    run.assumptions = TRUSTED
    return run.finish()


def replay(obj):
    ok, paths, _ = vlib.harness_build(["taops"])
    ops = obj.get("input", [])
    text = hist_text("r", ops)
    il, _, _ = run_proc([paths["taops"]], text, 120)
    il = split_out(il).get("r", [])
    os.makedirs(os.path.join(MODEL_DIR, "_build"), exist_ok=True)
    if not os.path.exists(MODEL_BIN):
        vlib.coq_make(["C15/Extract_C15.vo"])
        vlib.sh(["bash", "build.sh"], cwd=MODEL_DIR, timeout=900)
    ml = model_lines(SPEC_CFG, ops)
    rc = 0
    for k, op in enumerate(ops):
        m = ml[k] if k < len(ml) else "<missing>"
        i = canon_impl(il[k]) if k < len(il) else "<missing>"
        flag = "  " if m == i else "!!"
        if m != i:
            rc = 1
        print("%s %s\n     spec : %s\n     boa  : %s" % (flag, op, m, i))
    for ln in js_of(paths["taops"], ops):
        print("js: " + ln)
    return rc
