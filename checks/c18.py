"""C18 -- JSON.parse / JSON.stringify implement exactly the JSON grammar and value mapping.

Proof   : coq/C18/Props_C18.v over coq/C18/Json.v (ECMA-404 parser on UTF-16 code units, QuoteJSONString,
          SerializeJSONProperty/Object/Array, duplicate keys, own-key order).
Tie     : the model extracted with ExtrOcamlBasic (ocaml/C18/_build/c18model, built by ocaml/C18/build.sh) and the engine (harness `jsonops`) run on the
          same generated texts / values; accept-reject, the structural dump of the parsed value and the exact
          stringify text are diffed.  Number tokens are converted to binary64 by Python's float() (correctly rounded).
Search  : on the implementation alone -- parse vs Python's json module (strict, constants refused) with JS object
          semantics re-implemented in Python; parse(stringify(v)) vs the dump of v; stringify text re-read by Python json.
Extra   : replacer function / replacer array / toJSON / reviver programs, expected result computed in Python from the
          model's text, node (V8) consulted only to withhold an alarm.
Classes : a text the model/oracle accepts and the engine rejects with SyntaxError is labelled by predicates over the text itself
          (parse-raw-lone-surrogate, parse-escaped-lone-surrogate, parse-number-overflow, parse-number-near-max -- the last two through a
          transcription of serde_json's number conversion --, parse-nesting-depth-128) and only if the text with every such occurrence
          neutralised agrees again; everything else stays unclassified.  known_findings.json suppresses exactly listed classes; a
          suppressed case still gets a replay file (replay/C18_known-<class>_<seed>_<n>.json).
"""
import json
import os
import re
import struct
import subprocess
import sys
import time
from concurrent.futures import ThreadPoolExecutor

import vlib
from vlib import Run, log

import c18_texts as T
import c18_values as V
import c18_progs as P
import c18_dags as G

PROP = "C18"
TRUSTED = [
    "Coq 8.16.1 kernel + vm_compute (examples only); theorems are Closed under the global context",
    "extraction with ExtrOcamlBasic only + OCaml 4.13 (ocaml/C18/driver.ml: hex reader/printer, int<->N)",
    "number token -> binary64: Python float() (David Gay strtod, correctly rounded); the engine's own String(x) is taken as the "
    "number token of a finite double on the stringify side (C13 owns its exactness; a difference with a Python re-implementation "
    "of Number::toString is reported as a note)",
    "ToIntegerOrInfinity of the `space` Number is computed in Python (truncation) before the model sees it",
    "harness/src/bin/jsonops.rs: own structural dumper over the engine API (own keys via [[OwnPropertyKeys]], prototype identity, "
    "data-property attributes), values built through CreateDataProperty / JsArray::push, catch_unwind, 256 MB worker stack",
    "search oracles: Python 3 json module (strict, NaN/Infinity refused) + Python re-implementation of object key semantics",
    "node 20 (V8): only to withhold an alarm (model_defect / python_reference_defect counted in the evidence)",
    "class labels: Python transcription of serde_json 1.0.151 number conversion (serde_number_out_of_range) + surrogate / depth predicates; "
    "a label is given only when the neutralised text agrees again, so a wrong predicate shows up as an unclassified violation",
    "modelled, not verified: serde_json (pre-validation), boa's lexer/parser/compiler/VM run by JSON.parse, ryu-js (Number::toString)",
]

MODEL_DIR = os.path.join(vlib.OCAML, "C18", "_build")      # git-ignored: extracted json_model.ml{,i}, objects, c18model
MODEL_BIN = os.path.join(MODEL_DIR, "c18model")
STACK_MB = "256"


# ----------------------------------------------------------------------------------------------
# wire helpers

def hx(units):
    return "".join("%04x" % c for c in units)


def unhx(s):
    return [int(s[i:i + 4], 16) for i in range(0, len(s), 4)]


def esc(units):
    out = []
    for c in units:
        if 0x21 <= c <= 0x7E and c != 0x5C:
            out.append(chr(c))
        else:
            out.append("\\u%04x" % c)
    return "".join(out)


def show(units, limit=160):
    s = esc(units)
    return s if len(s) <= limit else s[:limit] + "...(%d units)" % len(units)


def _big_stack():
    """the extracted model is plain structural recursion (app, map on lists of a million units): give it the largest stack allowed"""
    import resource
    soft, hard = resource.getrlimit(resource.RLIMIT_STACK)
    want = 4 << 30
    if hard != resource.RLIM_INFINITY:
        want = min(want, hard)
    try:
        resource.setrlimit(resource.RLIMIT_STACK, (want, hard))
    except (ValueError, OSError):
        pass


def run_lines(cmd, lines, env=None, timeout=1800, big_stack=False):
    """Feed lines, return the list of result lines (shorter than `lines` when the process died)."""
    e = dict(os.environ)
    if env:
        e.update(env)
    try:
        p = subprocess.run(cmd, input=("\n".join(lines) + "\n").encode("utf8"), stdout=subprocess.PIPE, stderr=subprocess.PIPE,
                           env=e, timeout=timeout, preexec_fn=_big_stack if big_stack else None)
        out = p.stdout.decode("utf8", "replace").split("\n")
        if out and out[-1] == "":
            out.pop()
        return out, p.returncode, p.stderr.decode("utf8", "replace")[-300:]
    except subprocess.TimeoutExpired as ex:
        out = (ex.stdout or b"").decode("utf8", "replace").split("\n")
        if out and out[-1] == "":
            out.pop()
        if out:
            out.pop()     # possibly partial
        return out, 124, "timeout"


def run_batch(cmd, lines, env=None, chunk=None, crash_marker="crash", big_stack=False):
    """Run all lines, in parallel chunks; a case that kills the process gets `crash <detail>` and the rest of its
    chunk is re-run."""
    if not lines:
        return []
    n = len(lines)
    chunk = chunk or max(1, min(400, (n + vlib.NCPU - 1) // vlib.NCPU))
    spans = [(i, min(n, i + chunk)) for i in range(0, n, chunk)]

    def work(span):
        a, b = span
        res = []
        pos = a
        while pos < b:
            out, rc, err = run_lines(cmd, lines[pos:b], env, big_stack=big_stack)
            res += out[:b - pos]
            pos += len(out)
            if pos < b:
                kind = "timeout" if rc == 124 else ("stack-overflow" if "overflowed its stack" in err else "exit-%s" % rc)
                res.append("%s %s" % (crash_marker, kind))
                pos += 1
        return res
    with ThreadPoolExecutor(max_workers=vlib.NCPU) as ex:
        parts = list(ex.map(work, spans))
    return [x for p in parts for x in p]


class Tools:
    def __init__(self, harness):
        self.harness = harness

    def model(self, lines):
        return run_batch([MODEL_BIN], lines, crash_marker="model-crash", big_stack=True)

    def impl(self, lines, stack_mb=STACK_MB):
        return run_batch([self.harness], lines, env={"JSONOPS_STACK_MB": stack_mb})


# ----------------------------------------------------------------------------------------------
# canonical forms

def f64_bits_of_token(units):
    s = "".join(chr(c) for c in units)
    return struct.unpack("<Q", struct.pack("<d", float(s)))[0]


def canon_model_dump(toks):
    out = []
    for t in toks:
        if t.startswith("M"):
            out.append("D%016x" % f64_bits_of_token(unhx(t[1:])))
        else:
            out.append(t)
    return " ".join(out)


def canon_model_parse(line):
    """model result line of `parse` -> canonical expectation"""
    if line == "reject":
        return "err SyntaxError"
    if line.startswith("ok"):
        return "ok " + canon_model_dump(line.split()[1:])
    return "model:" + line


def canon_impl(line):
    if line.startswith("err "):
        return line.split("\t")[0]
    return line.rstrip()


# ----------------------------------------------------------------------------------------------
# known-finding classes: predicates over the failing case itself + neutralisation (the classes present are
# removed from the text; the finding is attributed to them only if model and engine agree on the neutralised text)

NUM_RE = re.compile(r"^(-?)(0|[1-9][0-9]*)(?:\.([0-9]+))?(?:[eE]([+-]?)([0-9]+))?$")
U64_MAX = (1 << 64) - 1
I32_MAX = (1 << 31) - 1
I32_MIN = -(1 << 31)


def serde_number_out_of_range(tok):
    """Transcription of serde_json 1.0.151 src/de.rs (feature float_roundtrip off, as boa builds it): parse_integer /
    parse_long_integer / parse_decimal / parse_decimal_overflow / parse_exponent / parse_exponent_overflow / f64_from_parts.
    True when `serde_json::from_str::<Value>` answers NumberOutOfRange for this (grammatical) number token.  The conversion is
    u64 significand (digits beyond u64 dropped) times/divided by a table power of ten in binary64 -- not correctly rounded -- and
    an infinite product is an error.  Python floats are binary64 with correctly rounded * and /, int->float is correctly rounded,
    and float("1eN") is the correctly rounded literal, as in Rust."""
    m = NUM_RE.match(tok)
    if not m:
        return False
    _, ip, fp, esign, edigits = m.groups()

    def overflow(a, d):
        return a >= U64_MAX // 10 and (a > U64_MAX // 10 or d > U64_MAX % 10)

    sig = 0
    exponent = 0                    # exponent_before_decimal_point
    is_float = False
    # parse_integer
    if ip != "0":
        sig = int(ip[0])
        for i in range(1, len(ip)):
            d = int(ip[i])
            if overflow(sig, d):
                exponent = len(ip) - i           # parse_long_integer: this digit and the following ones are only counted
                is_float = True
                break
            sig = sig * 10 + d
    if fp is None and edigits is None:
        if not is_float:
            return False                          # U64 / I64 / -(u64 as f64): never an error
        return f64_from_parts_oor(sig, exponent)
    # parse_decimal
    if fp is not None:
        after = 0
        for ch in fp:
            d = int(ch)
            if overflow(sig, d):
                break                             # parse_decimal_overflow: further digits ignored
            sig = sig * 10 + d
            after -= 1
        exponent += after
    if edigits is None:
        return f64_from_parts_oor(sig, exponent)
    # parse_exponent
    positive_exp = esign != "-"
    exp = int(edigits[0])
    for ch in edigits[1:]:
        d = int(ch)
        if exp > I32_MAX // 10 or (exp == I32_MAX // 10 and d > I32_MAX % 10):       # overflow!(exp * 10 + digit, i32::MAX)
            return sig != 0 and positive_exp      # parse_exponent_overflow
        exp = exp * 10 + d
    final = max(I32_MIN, min(I32_MAX, exponent + exp if positive_exp else exponent - exp))
    return f64_from_parts_oor(sig, final)


def f64_from_parts_oor(sig, exponent):
    f = float(sig)
    while True:
        idx = abs(exponent) if exponent != I32_MIN else None      # wrapping_abs of i32::MIN stays negative -> table miss
        if idx is not None and idx <= 308:
            if exponent >= 0:
                f = f * float("1e%d" % idx)
                if f == float("inf"):
                    return True
            return False
        if f == 0.0:
            return False
        if exponent >= 0:
            return True
        f = f / 1e308
        exponent += 308


def string_items(units, a, b):
    """items of a string token units[a:b] (quotes included): ('raw', c, pos, len) | ('esc', c, pos, len) | ('u', value, pos, len)"""
    items = []
    i = a + 1
    end = b - 1 if b - a >= 2 and units[b - 1] == 0x22 else b
    while i < end:
        c = units[i]
        if c == 0x5C and i + 1 < end:
            e = units[i + 1]
            if e == 0x75 and i + 6 <= end:
                try:
                    v = int("".join(chr(x) for x in units[i + 2:i + 6]), 16)
                    items.append(("u", v, i, 6))
                    i += 6
                    continue
                except ValueError:
                    pass
            items.append(("esc", e, i, 2))
            i += 2
        else:
            items.append(("raw", c, i, 1))
            i += 1
    return items


def known_classes(units):
    """(classes present in this text, neutralised text or None)"""
    classes = []
    out = list(units)
    # raw lone surrogates anywhere in the code-unit sequence
    i = 0
    n = len(units)
    raw_lone = []
    while i < n:
        c = units[i]
        if 0xD800 <= c <= 0xDBFF:
            if i + 1 < n and 0xDC00 <= units[i + 1] <= 0xDFFF:
                i += 2
                continue
            raw_lone.append(i)
        elif 0xDC00 <= c <= 0xDFFF:
            raw_lone.append(i)
        i += 1
    if raw_lone:
        classes.append("parse-raw-lone-surrogate")
        for i in raw_lone:
            out[i] = 0x58
    edits = []     # (pos, len, replacement)
    for a, b in T.tokens(units):
        if units[a] == 0x22:
            items = string_items(units, a, b)
            k = 0
            while k < len(items):
                kind, v, pos, ln = items[k]
                if kind == "u" and 0xD800 <= v <= 0xDBFF:
                    if k + 1 < len(items) and items[k + 1][0] == "u" and 0xDC00 <= items[k + 1][1] <= 0xDFFF:
                        k += 2
                        continue
                    edits.append((pos, ln, [0x5C, 0x75, 0x30, 0x30, 0x35, 0x38]))
                elif kind == "u" and 0xDC00 <= v <= 0xDFFF:
                    edits.append((pos, ln, [0x5C, 0x75, 0x30, 0x30, 0x35, 0x38]))
                k += 1
        else:
            s = "".join(chr(c) if c < 0x80 else "?" for c in units[a:b])
            if NUM_RE.match(s) and serde_number_out_of_range(s):
                edits.append((a, b - a, [0x31]))
                try:
                    inf = float(s) in (float("inf"), float("-inf"))
                except ValueError:
                    inf = True
                cls = "parse-number-overflow" if inf else "parse-number-near-max"
                if cls not in classes:
                    classes.append(cls)
    if any(r[2] != [0x31] for r in edits):
        classes.append("parse-escaped-lone-surrogate")
    for pos, ln, rep in sorted(edits, reverse=True):
        out[pos:pos + ln] = rep
    if T.max_depth(units) >= 128:
        classes.append("parse-nesting-depth-128")
        return classes, None      # cannot be neutralised by a local edit
    return classes, (out if classes else None)


# ----------------------------------------------------------------------------------------------
# V8, only to withhold

NODE_PARSE = r"""
const lines=require('fs').readFileSync(0,'utf8').split('\n').filter(x=>x.length);
const dv=new DataView(new ArrayBuffer(8));
function hex(s,p){let o=p;for(let i=0;i<s.length;i++)o+=s.charCodeAt(i).toString(16).padStart(4,'0');return o}
function dump(v,o){if(v===null)o.push('N');else if(v===true)o.push('T');else if(v===false)o.push('F');
 else if(typeof v==='number'){dv.setFloat64(0,v);o.push('D'+dv.getBigUint64(0).toString(16).padStart(16,'0'))}
 else if(typeof v==='string')o.push(hex(v,'S'));
 else if(Array.isArray(v)){o.push('[');for(const e of v)dump(e,o);o.push(']')}
 else{if(Object.getPrototypeOf(v)!==Object.prototype)o.push('!objproto');o.push('{');for(const k of Object.getOwnPropertyNames(v)){o.push(hex(k,'K'));dump(v[k],o)}o.push('}')}}
for(const l of lines){const u=JSON.parse(l);let s='';for(const c of u)s+=String.fromCharCode(c);
 try{const v=JSON.parse(s);const o=[];dump(v,o);console.log('ok '+o.join(' '))}catch(e){console.log('err '+e.name)}}
"""


def node_parse(texts):
    try:
        p = subprocess.run(["node", "--stack-size=60000", "-e", NODE_PARSE], input="\n".join(json.dumps(t) for t in texts) + "\n",
                           stdout=subprocess.PIPE, stderr=subprocess.PIPE, text=True, timeout=300)
        out = p.stdout.strip("\n").split("\n")
        if len(out) != len(texts):
            return None
        return [o.rstrip() for o in out]
    except Exception:
        return None


def node_eval(progs):
    """each program is an expression statement list whose completion value is a string; returns 'ok U..'/'err Class'"""
    drv = r"""
const lines=require('fs').readFileSync(0,'utf8').split('\n').filter(x=>x.length);const vm=require('vm');
function hex(s,p){let o=p;for(let i=0;i<s.length;i++)o+=s.charCodeAt(i).toString(16).padStart(4,'0');return o}
for(const l of lines){const src=JSON.parse(l);try{const v=vm.runInNewContext(src);console.log('ok '+hex(String(v),'U'))}catch(e){console.log('err '+(e&&e.name))}}
"""
    try:
        p = subprocess.run(["node", "-e", drv], input="\n".join(json.dumps(s) for s in progs) + "\n", stdout=subprocess.PIPE,
                           stderr=subprocess.PIPE, text=True, timeout=300)
        out = p.stdout.strip("\n").split("\n")
        return out if len(out) == len(progs) else None
    except Exception:
        return None


# ----------------------------------------------------------------------------------------------
# parse correspondence

def parse_stream(run, tools, cases, label, dist):
    """cases: list of dicts with 'units'.  Returns list of mismatch records (already classified)."""
    mlines = ["parse U" + hx(c["units"]) for c in cases]
    ilines = ["parse " + esc(c["units"]) for c in cases]
    mo = tools.model(mlines)
    io = tools.impl(ilines)
    mism = []
    for c, m, i in zip(cases, mo, io):
        exp = canon_model_parse(m)
        got = canon_impl(i)
        c["model"] = exp
        c["impl"] = got
        if exp.startswith("model:"):
            # the model driver could not answer (stack overflow / crash on a huge text): discarded and counted, never compared
            dist["parse:model-discarded"] = dist.get("parse:model-discarded", 0) + 1
            continue
        acc = "accept" if exp.startswith("ok") else "reject"
        dist["%s:%s:%s" % (label, c["kind"], acc)] = dist.get("%s:%s:%s" % (label, c["kind"], acc), 0) + 1
        for t in c.get("tags", []):
            dist["tag:" + t] = dist.get("tag:" + t, 0) + 1
        run.count(("parse", tuple(c["units"])), nontrivial=len(c["units"]) > 0)
        if exp != got:
            mism.append(c)
    return mism


def triage_parse(run, tools, mism, stats):
    """Attribute mismatches to known classes (by neutralisation) or leave them unclassified; returns violation objects."""
    out = []
    todo = []
    for c in mism:
        classes, neutral = known_classes(c["units"])
        c["classes"] = classes
        if c["impl"].startswith("crash") or c["impl"].startswith("panic"):
            c["class"] = None
            c["verdict"] = "engine-crash"
            continue
        if not (c["model"].startswith("ok") and c["impl"] == "err SyntaxError") or not classes:
            c["class"] = None
            continue
        if neutral is None:
            # depth: attributed when it is the only class or the others are also present
            c["class"] = "parse-nesting-depth-128" if "parse-nesting-depth-128" in classes else None
            continue
        todo.append((c, neutral))
    if todo:
        mo = tools.model(["parse U" + hx(n) for _, n in todo])
        io = tools.impl(["parse " + esc(n) for _, n in todo])
        for (c, n), m, i in zip(todo, mo, io):
            if canon_model_parse(m) == canon_impl(i):
                c["class"] = c["classes"][0]
                c["all_classes"] = c["classes"]
            else:
                c["class"] = None
                c["neutralised"] = {"text": show(n), "model": canon_model_parse(m)[:300], "impl": canon_impl(i)[:300]}
    unknown = [c for c in mism if c.get("class") is None]
    if unknown:
        nd = node_parse([c["units"] for c in unknown])
        if nd is not None:
            for c, v8 in zip(unknown, nd):
                c["v8"] = v8[:400]
                if v8 == c["impl"] and v8 != c["model"]:
                    c["verdict"] = "model_defect"
                    stats["model_defect"] = stats.get("model_defect", 0) + 1
    for c in mism:
        if c.get("verdict") == "model_defect":
            run.notes.append({"model_defect": {"text": show(c["units"]), "model": c["model"][:200], "impl_and_v8": c["impl"][:200]}})
            continue
        cls = c.get("class")
        stats["mismatch:" + str(cls)] = stats.get("mismatch:" + str(cls), 0) + 1
        out.append(c)
    return out


def violation_of_parse(c, kind="correspondence-broken"):
    return {
        "kind": kind, "class": c.get("class"), "all_classes": c.get("all_classes") or c.get("classes"),
        "input": {"cmd": "parse", "units": c["units"], "escaped": esc(c["units"])},
        "obligation": "JSON.parse(text) = Json.v parse_json text (accept/reject and value, keys in own-key order)",
        "model_output": c["model"][:2000], "impl_output": c["impl"][:2000], "v8_output": c.get("v8"),
        "neutralised": c.get("neutralised"), "source_kind": c.get("kind"), "tags": c.get("tags"),
        "how_to_rerun": "printf 'parse %s\\n' | JSONOPS_STACK_MB=256 harness/target/debug/jsonops ; printf 'parse U%s\\n' | ocaml/C18/_build/c18model"
                        % (esc(c["units"])[:4000].replace("%", "%%").replace("'", "'\\''"), hx(c["units"])[:16000]),
    }


# ----------------------------------------------------------------------------------------------
# stringify correspondence

def number_tokens(run, tools, bitset, stats):
    """engine's String(x) for every finite double used; cross-checked against a Python Number::toString"""
    fin = sorted(b for b in bitset if V.float_of(b) == V.float_of(b) and abs(V.float_of(b)) != float("inf"))
    out = tools.impl(["numstr %016x" % b for b in fin])
    tok = {}
    for b, o in zip(fin, out):
        if o.startswith("ok U"):
            tok[b] = unhx(o[4:])
            mine = V.js_number_string(V.float_of(b))
            if "".join(chr(c) for c in tok[b]) != mine:
                stats["c13_numstr_differs"] = stats.get("c13_numstr_differs", 0) + 1
                if stats["c13_numstr_differs"] <= 3:
                    run.notes.append({"c13_note": "String(x) differs from shortest round-trip form", "bits": "%016x" % b,
                                      "engine": "".join(chr(c) for c in tok[b]), "python": mine})
        else:
            tok[b] = [0x3F]     # not a number token: the model answers badnum, reported
    return tok


def stringify_stream(run, tools, cases, dist, stats):
    """cases: dict(tree, hspace, mspace, tags).  Returns (mismatches, produced texts as parse cases)."""
    bits = set()
    for c in cases:
        V.tree_doubles(c["tree"], bits)
    tok = number_tokens(run, tools, bits, stats)
    ilines = ["stringify %s %s" % (c["hspace"], V.harness_tokens(c["tree"])) for c in cases]
    mlines = ["stringify %s %s" % (c["mspace"], V.model_tokens(c["tree"], tok)) for c in cases]
    mo = tools.model(mlines)
    io = tools.impl(ilines)
    mism, texts = [], []
    for c, m, i, il, ml in zip(cases, mo, io, ilines, mlines):
        c["model"] = m.rstrip()
        c["impl"] = canon_impl(i)
        c["iline"], c["mline"] = il, ml
        if c["model"].startswith("model-") or c["model"].startswith("badinput"):
            # the model driver could not answer (stack overflow / crash on a huge text): discarded and counted, never compared
            dist["stringify:model-discarded"] = dist.get("stringify:model-discarded", 0) + 1
            stats["model_discarded"] = stats.get("model_discarded", 0) + 1
            continue
        for t in c["tags"]:
            dist["tag:" + t] = dist.get("tag:" + t, 0) + 1
        dist["stringify:" + ("undef" if c["model"] == "undef" else "text")] = dist.get("stringify:" + ("undef" if c["model"] == "undef" else "text"), 0) + 1
        run.count(("stringify", il))
        if c["model"] != c["impl"]:
            mism.append(c)
        elif c["model"].startswith("ok U"):
            texts.append({"kind": "stringified", "units": unhx(c["model"][4:]), "tags": ["from-stringify"], "valid_gap": "nonws" not in c["spacetag"]})
    return mism, texts


def violation_of_stringify(c):
    def text(line):
        return show(unhx(line[4:]), 400) if line.startswith("ok U") else line
    return {
        "kind": "correspondence-broken", "class": None,
        "input": {"cmd": "stringify", "harness_line": c["iline"][:6000], "model_line": c["mline"][:6000]},
        "obligation": "JSON.stringify(value, undefined, space) text = Json.v serialize (gap_of_space space) (js_build value), code unit for code unit",
        "model_output": text(c["model"]), "impl_output": text(c["impl"]), "tags": c["tags"],
        "how_to_rerun": "printf '%s\\n' | harness/target/debug/jsonops ; printf '%s\\n' | ocaml/C18/_build/c18model" % (c["iline"][:3000], c["mline"][:3000]),
    }


def dag_stream(run, tools, n, dist, stats):
    """values with sharing (the same instance reachable several times, at several depths; exotic key-less objects; wrappers) and
    genuine cycles, built through the Rust API: the engine's text must equal (a) the text of the extracted model WITH identities
    (DeepModel_C18.ser_id: store + stack discipline of SerializeJSONObject/Array) and (b) for acyclic values the text of the tree model
    on the unfolded value (sharing is unobservable: theorem stringify_dag_eq_tree); a reachable cycle must throw TypeError."""
    cases = []
    for c in G.fixed_cases():
        for hs, ms, st in (("-", "-", "space-none"), ("n%016x" % V.bits_of(1.0), "n1", "space-num")):
            cases.append(dict(c, hspace=hs, mspace=ms, spacetag=st))
    for _ in range(n):
        c = G.gen_dag_case(run.rng)
        hs, ms, st = V.gen_space(run.rng)
        c["hspace"], c["mspace"], c["spacetag"] = hs, ms, st
        cases.append(c)
    bits = set()
    for c in cases:
        G.graph_doubles(c["graph"], bits)
    tok = number_tokens(run, tools, bits, stats)
    ilines = ["stringify %s %s" % (c["hspace"], G.harness_tokens(c["graph"])) for c in cases]
    idlines = ["stringifyid %s %s" % (c["mspace"], G.model_id_tokens(c["graph"], tok)) for c in cases]
    acyc = [k for k, c in enumerate(cases) if not c["cyclic"]]
    trlines = ["stringify %s %s" % (cases[k]["mspace"], V.model_tokens(G.unfold(cases[k]["graph"]), tok)) for k in acyc]
    io = tools.impl(ilines)
    ido = tools.model(idlines)
    tro = dict(zip(acyc, tools.model(trlines)))
    out = []
    for k, (c, i, m, il, ml) in enumerate(zip(cases, io, ido, ilines, idlines)):
        impl, mid = canon_impl(i), m.rstrip()
        for t in c["tags"]:
            dist["tag:" + t] = dist.get("tag:" + t, 0) + 1
        run.count(("dag", il))
        if mid.startswith("model-") or mid.startswith("badinput"):
            dist["dag:model-discarded"] = dist.get("dag:model-discarded", 0) + 1
            continue
        expect_cycle = "err TypeError" if c["cyclic"] else None
        dist["dag:" + ("cycle" if c["cyclic"] else "undef" if mid == "undef" else "text")] = dist.get("dag:" + ("cycle" if c["cyclic"] else "undef" if mid == "undef" else "text"), 0) + 1
        why = None
        if expect_cycle is not None and mid != expect_cycle:
            why = "model with identities does not throw on a generated cycle (model/generator inconsistency)"
        elif k in tro and tro[k].rstrip() != mid:
            why = "model with identities differs from the tree model on the unfolded value (contradicts stringify_dag_eq_tree: driver/generator inconsistency)"
        elif impl != mid:
            why = ("JSON.stringify of a value with shared instances differs from the model (sharing must be unobservable)" if not c["cyclic"]
                   else "JSON.stringify of a cyclic value must throw TypeError")
        if why:
            out.append({"kind": "correspondence-broken", "class": None,
                        "input": {"cmd": "stringify", "harness_line": il[:6000], "model_line": ml[:6000]},
                        "obligation": why + "; engine text = DeepModel_C18.m_stringify_id (store, stack) = Json.v serialize of the unfolded tree",
                        "model_output": mid[:1500], "tree_model_output": (tro.get(k) or "").rstrip()[:1500], "impl_output": impl[:1500],
                        "tags": c["tags"], "cyclic": c["cyclic"],
                        "how_to_rerun": "printf '%s\\n' | harness/target/debug/jsonops ; printf '%s\\n' | ocaml/C18/_build/c18model" % (il[:3000], ml[:3000])})
    stats["dag_mismatches"] = len(out)
    out.sort(key=lambda v: len(v["input"]["harness_line"]))
    return out[:4]


def gen_value_cases(run, n, maxdepth, dist):
    cases = []
    for _ in range(n):
        tags = set()
        depth = run.rng.choice([0, 1, 2, 3, 4, 6, maxdepth])
        tree = V.gen_tree(run.rng, depth, tags, [run.rng.choice([6, 25, 80])], surrogate_ok=run.rng.random() < 0.5)
        hs, ms, st = V.gen_space(run.rng)
        tags.add(st)
        tags.add("vdepth-%d" % min(V.tree_depth(tree), 13))
        cases.append({"tree": tree, "hspace": hs, "mspace": ms, "spacetag": st, "tags": sorted(tags)})
    return cases


# ----------------------------------------------------------------------------------------------
# search on the implementation alone (oracles independent of the Coq model)

def py_refuse_constant(_):
    raise ValueError("constant")


def py_object(pairs):
    """JS object semantics over the member list Python's json hands over.  Keys are compared as UTF-16 code-unit sequences
    (Python joins an escaped surrogate pair into one astral character but leaves a raw pair as two: both are the same JS key)."""
    d = {}
    for k, v in pairs:
        d[tuple(T.u(k))] = v       # assignment to an existing key keeps its position: CreateDataProperty
    idx, rest = [], []
    for k in d:
        s = "".join(chr(c) for c in k)
        if (s == "0" or (s.isascii() and s.isdigit() and s[0] != "0")) and len(s) <= 10 and int(s) < 4294967295:
            idx.append(k)
        else:
            rest.append(k)
    idx.sort(key=lambda k: int("".join(chr(c) for c in k)))
    return ("O", [(k, d[k]) for k in idx + rest])


def py_dump(v, out):
    if v is None:
        out.append("N")
    elif v is True:
        out.append("T")
    elif v is False:
        out.append("F")
    elif isinstance(v, float):
        out.append("D%016x" % struct.unpack("<Q", struct.pack("<d", v))[0])
    elif isinstance(v, str):
        out.append("S" + hx(T.u(v)))
    elif isinstance(v, list):
        out.append("[")
        for e in v:
            py_dump(e, out)
        out.append("]")
    else:
        out.append("{")
        for k, e in v[1]:
            out.append("K" + hx(k))
            py_dump(e, out)
        out.append("}")


def py_parse(units):
    """independent oracle: Python json (strict) -> canonical line, or None when the oracle cannot decide"""
    s = "".join(chr(c) for c in units)
    try:
        v = json.loads(s, parse_float=float, parse_int=float, parse_constant=py_refuse_constant, object_pairs_hook=py_object, strict=True)
    except RecursionError:
        return None
    except ValueError:
        return "err SyntaxError"
    out = []
    try:
        py_dump(v, out)
    except RecursionError:
        return None
    return "ok " + " ".join(out)


def search_parse(run, tools, n, maxdepth, stats, dist):
    """texts (own seed stream): engine vs Python json; returns counterexample objects"""
    cases = []
    for _ in range(n):
        c = T.grammar_case(run.rng, maxdepth)
        cases.append(c)
        if run.rng.random() < 0.8:
            cases.append(T.mutant_case(run.rng, c["units"]))
    io = tools.impl(["parse " + esc(c["units"]) for c in cases])
    bad = []
    for c, i in zip(cases, io):
        exp = py_parse(c["units"])
        if exp is None:
            stats["search_oracle_undecided"] = stats.get("search_oracle_undecided", 0) + 1
            continue
        c["model"], c["impl"] = exp, canon_impl(i)
        run.count(("search-parse", tuple(c["units"])))
        dist["search-parse:" + ("accept" if exp.startswith("ok") else "reject")] = dist.get("search-parse:" + ("accept" if exp.startswith("ok") else "reject"), 0) + 1
        if c["model"] != c["impl"]:
            bad.append(c)
    return bad


def json_representable(tree):
    k = tree[0]
    if k == "X":
        return False
    if k == "D":
        x = V.float_of(tree[1])
        return x == x and abs(x) != float("inf") and not (x == 0 and tree[1] != 0)
    if k == "A":
        return all(json_representable(e) for e in tree[1])
    if k == "O":
        return all(json_representable(e) for _, e in tree[1])
    return True


def search_roundtrip(run, tools, n, maxdepth, stats, dist):
    """parse(stringify(v)) = v and `an independent parser reads the text back to v`, on the engine alone"""
    cases = []
    while len(cases) < n:
        tags = set()
        if run.rng.random() < 0.25:
            # a value with shared instances: parse(stringify(v)) must be the unfolded v (the dumper walks the DAG as a tree)
            g = G.gen_dag_case(run.rng)
            if g["cyclic"] or G.has_exotic(g["graph"]):
                continue
            tree, htok, tags = G.unfold(g["graph"]), G.harness_tokens(g["graph"]), set(g["tags"])
        else:
            tree = V.gen_tree(run.rng, run.rng.choice([1, 2, 3, 5, maxdepth]), tags, [run.rng.choice([6, 25, 80])], surrogate_ok=run.rng.random() < 0.3)
            htok = V.harness_tokens(tree)
        if not json_representable(tree):
            continue
        hs, ms, st = V.gen_space(run.rng)
        if "nonws" in st:
            continue
        cases.append({"tree": tree, "htok": htok, "hspace": hs, "tags": sorted(tags | {st})})
    rlines = ["roundtrip %s %s" % (c["hspace"], c["htok"]) for c in cases]
    # the reference dump of v does not go through JSON: the value is built through the API and dumped directly
    dlines = ["dumpval " + c["htok"] for c in cases]
    ro = tools.impl(rlines)
    do = tools.impl(dlines)
    bad = []
    for c, r, d, rl in zip(cases, ro, do, rlines):
        run.count(("search-roundtrip", rl))
        dist["search-roundtrip"] = dist.get("search-roundtrip", 0) + 1
        c["iline"] = rl
        if not r.startswith("ok U") or not d.startswith("ok "):
            c["model"], c["impl"] = d, canon_impl(r)
            c["why"] = "stringify failed or value could not be dumped"
            bad.append(c)
            continue
        parts = r.split(" ", 2)
        text = unhx(parts[1][1:])
        back = canon_impl(parts[2]) if len(parts) > 2 else ""
        want = canon_impl(d)
        pyv = py_parse(text)
        c["text"] = text
        if back != want:
            c["model"], c["impl"], c["why"] = want, back, "parse(stringify(v)) differs from v"
            bad.append(c)
        elif pyv is not None and pyv != want:
            c["model"], c["impl"], c["why"] = want, pyv, "Python json reads the emitted text back to a different structure"
            c["independent_parser"] = True
            bad.append(c)
    return bad


# ----------------------------------------------------------------------------------------------

def report(run, v, found_input=True):
    """run.violation, plus a replay file for a case that is suppressed as a known finding (one per class and run), so that every
    KNOWN-FINDING line of a run can be reproduced from a file as well"""
    if vlib.match_known(PROP, v) is not None:
        seen = getattr(run, "_c18_known_replays", None)
        if seen is None:
            seen = run._c18_known_replays = {}
        if v["class"] not in seen:
            seen[v["class"]] = run.replay_file(v, tag="known-" + v["class"])
            run.notes.append({"known_finding_replay": {"class": v["class"], "file": seen[v["class"]]}})
    return run.violation(v, found_input)


def build_model():
    ml = os.path.join(MODEL_DIR, "json_model.ml")
    if not os.path.exists(ml):
        return False, "extraction output ocaml/C18/_build/json_model.ml missing"
    srcs = [ml, os.path.join(vlib.OCAML, "C18", "driver.ml"), os.path.join(vlib.OCAML, "C18", "build.sh")]
    need = (not os.path.exists(MODEL_BIN)) or any(os.path.getmtime(f) > os.path.getmtime(MODEL_BIN) for f in srcs)
    if need:
        with vlib.Lock("ocaml-c18"):
            rc, out, err = vlib.sh(["sh", os.path.join(vlib.OCAML, "C18", "build.sh")], timeout=600)
        if rc != 0:
            return False, (out + err)[-1500:]
    return True, ""


def load_corpus():
    d = os.path.join(vlib.CORPUS, "C18")
    out = []
    if os.path.isdir(d):
        for f in sorted(os.listdir(d)):
            if f.endswith(".json"):
                try:
                    o = json.load(open(os.path.join(d, f)))
                    o["file"] = f
                    out.append(o)
                except Exception:
                    pass
    return out


def main():
    sys.setrecursionlimit(max(sys.getrecursionlimit(), 50000))      # the nesting probes (2000 levels) are walked recursively
    run = Run(PROP, "proof")
    quick = run.quick
    run.cov["rule"] = (
        "parse cases: texts from the ECMA-404 grammar (random white space, escape forms, raw/escaped lone surrogates, duplicate / __proto__ / "
        "array-index keys, number edge forms), a fixed adversarial list, single-token/code-unit mutants of valid texts, nesting probes, and every "
        "text the stringify stream produced; stringify cases: JS value trees (undefined, non-finite, -0, adversarial strings and keys, creation-order "
        "duplicates) x space argument (none, numbers incl. clamping/NaN/infinity, white-space and non-white-space strings, > 10 units). "
        "A case counts as non-trivial when its text is non-empty; distinct = distinct code-unit sequence / distinct command line. "
        "The accept/reject split and the feature tags are measured (coverage.distribution).")
    dist, stats = {}, {}
    broken = None
    # the extraction target must be rebuilt when its output vanished
    os.makedirs(MODEL_DIR, exist_ok=True)
    if not os.path.exists(os.path.join(MODEL_DIR, "json_model.ml")):
        for ext in (".vo", ".vos", ".vok", ".glob"):
            try:
                os.remove(os.path.join(vlib.COQ, "C18", "Extract_C18" + ext))
            except OSError:
                pass
    pr = vlib.proof_stage(PROP, ["Common", "C18"], "C18/Props_C18.v", extra_targets=["C18/Extract_C18.vo"])
    run.set_proof(pr, TRUSTED)
    if not pr["ok"]:
        broken = pr["broken"]
    okm, mlog = build_model()
    if not okm:
        if broken is None:
            vlib.infra_error(PROP, "model driver build failed: " + mlog)
        # the model cannot run: only the implementation-side search below is possible
    ok, paths, blog = vlib.harness_build(["jsonops"])
    if not ok:
        if re.search(r"^error", blog, re.M):
            run.violation({"kind": "correspondence-broken", "obligation": "harness `jsonops` no longer compiles against /repo", "log": blog[-3000:]},
                          found_input=False)
            return run.finish()
        vlib.infra_error(PROP, "harness build failed: " + blog[-400:])
    tools = Tools(paths["jsonops"])
    t_corr = time.time()
    violations = []
    have_model = okm and os.path.exists(MODEL_BIN)

    # ---- corpus first
    corpus = load_corpus()
    cparse = [{"kind": "corpus", "units": o["units"], "tags": ["corpus"], "file": o["file"]} for o in corpus if o.get("cmd") == "parse"]

    # ---- parse side
    maxdepth = 12
    n_grammar = 700 if quick else 6000
    parse_cases = list(cparse) + T.adversarial_cases()
    for _ in range(n_grammar):
        c = T.grammar_case(run.rng, maxdepth)
        parse_cases.append(c)
        if run.rng.random() < 0.9:
            parse_cases.append(T.mutant_case(run.rng, c["units"]))
    for base in run.rng.sample(T.ADVERSARIAL, 60 if quick else len(T.ADVERSARIAL)):
        parse_cases.append(T.mutant_case(run.rng, T.u(base)))
    depths = [13, 20, 40, 64, 100, 126, 127] if quick else [13, 20, 40, 64, 100, 120, 126, 127, 128, 129, 200, 256, 400, 1000]
    if quick:
        depths += [128, 200]
    for d in depths:
        for shape in (["array", "object", "mixed"] if quick else ["array", "object", "mixed", "array-ws", "siblings"]):
            parse_cases.append(T.deep_case(run.rng, d, shape))

    # ---- stringify side
    value_cases = gen_value_cases(run, 500 if quick else 5000, maxdepth, dist)
    for o in corpus:
        if o.get("cmd") == "stringify":
            value_cases.insert(0, {"tree": tuple_tree(o["tree"]), "hspace": o["hspace"], "mspace": o["mspace"], "spacetag": o.get("spacetag", "corpus"),
                                   "tags": ["corpus"]})
    # nesting probes for stringify
    for d in ([13, 50, 127, 128, 300] if quick else [13, 50, 127, 128, 300, 1000, 2000]):
        t = ("S", T.u("x"))
        for k in range(d):
            t = ("A", [t]) if k % 2 == 0 else ("O", [(T.u("k"), t)])
        value_cases.append({"tree": t, "hspace": "-", "mspace": "-", "spacetag": "space-none", "tags": ["vdeep-%d" % d]})
        if d <= 1000:     # with a gap the text grows quadratically (4 M units at 2000 levels): minutes on both sides, no new information
            value_cases.append({"tree": t, "hspace": "n%016x" % V.bits_of(1.0), "mspace": "n1", "spacetag": "space-num", "tags": ["vdeep-%d" % d]})

    if have_model:
        smism, texts = stringify_stream(run, tools, value_cases, dist, stats)
        for c in sorted(smism, key=lambda c: len(c["iline"]))[:4]:      # the shortest disagreeing cases are the replays
            violations.append(violation_of_stringify(c))
        stats["stringify_mismatches"] = len(smism)
        violations += dag_stream(run, tools, 300 if quick else 3000, dist, stats)
        # every produced text goes through the parse correspondence as well (= round trip on the engine, value given by the model)
        parse_cases += [t for t in texts if t["valid_gap"] or run.rng.random() < 0.3]
        pm = parse_stream(run, tools, parse_cases, "parse", dist)
        tri = triage_parse(run, tools, pm, stats)
        seen_cls = {}
        for c in sorted(tri, key=lambda c: len(c["units"])):      # the shortest text of a class is its replay
            key = c.get("class") or ("unclassified-%d" % len(seen_cls))
            if key in seen_cls and c.get("class") is not None:
                seen_cls[key]["count"] += 1
                continue
            if c.get("class") is None and sum(1 for k in seen_cls if k.startswith("unclassified")) >= 8:
                continue
            seen_cls[key] = {"count": 1, "case": c}
        for key, rec in seen_cls.items():
            v = violation_of_parse(rec["case"])
            v["cases_in_this_class_this_run"] = rec["count"]
            violations.append(v)
    else:
        run.notes.append({"model_unavailable": mlog[-500:]})
    stats["correspondence_wall_s"] = round(time.time() - t_corr, 1)

    # ---- replacer / toJSON / reviver programs (Python reference from the model's text; node only withholds)
    t_prog = time.time()
    if have_model:
        pv = P.run_programs(run, tools, 220 if quick else 1500, dist, stats, node_eval)
        violations += pv
        run.cov["programs"] = sum(v for k, v in dist.items() if k.startswith("prog:"))
    stats["programs_wall_s"] = round(time.time() - t_prog, 1)

    # ---- search on the implementation alone; enlarged when something above broke
    t_search = time.time()
    enlarged = (not quick) or broken is not None or any(v.get("class") is None for v in violations)
    sp = search_parse(run, tools, (600 if quick else 5000) * (3 if enlarged and quick else 1), maxdepth, stats, dist)
    found = []
    if sp:
        tri = triage_parse_search(run, tools, sp, stats)
        for c in tri:
            found.append(c)
    sr = search_roundtrip(run, tools, (300 if quick else 3000) * (3 if enlarged and quick else 1), maxdepth, stats, dist)
    found_rt = []
    for c in sr:
        cls = None
        if c.get("text") is not None and c["impl"].startswith("err SyntaxError"):
            kc, _ = known_classes(c["text"])
            kc = [k for k in kc if k in ("parse-escaped-lone-surrogate", "parse-nesting-depth-128", "parse-number-near-max")]
            if kc:
                cls = kc[0]
        c["class"] = cls
        stats["search_roundtrip:" + str(cls)] = stats.get("search_roundtrip:" + str(cls), 0) + 1
        found_rt.append(c)
    stats["search_wall_s"] = round(time.time() - t_search, 1)

    # ---- stack probe (C02-type observation, reported separately, never a C18 verdict)
    if not quick:
        stack_probe(run, tools, stats)

    # ---- verdicts
    reported = set()
    found.sort(key=lambda c: len(c["units"]))
    found_rt.sort(key=lambda c: len(c.get("iline", "")))
    for c in found:
        key = c.get("class") or id(c)
        if key in reported:
            continue
        reported.add(key)
        v = violation_of_parse(c, kind="counterexample")
        v["obligation"] = "JSON.parse(text) agrees with an independent ECMA-404 parser (Python json, strict) + JS object semantics"
        report(run, v)
    for c in found_rt:
        key = ("rt", c.get("class") or id(c))
        if key in reported:
            continue
        reported.add(key)
        report(run, {"kind": "counterexample", "class": c.get("class"), "input": {"cmd": "roundtrip", "harness_line": c["iline"][:6000]},
                     "obligation": c.get("why"), "model_output": c["model"][:1500], "impl_output": c["impl"][:1500],
                     "text": show(c["text"], 600) if c.get("text") is not None else None,
                     "how_to_rerun": "printf '%s\\n' | harness/target/debug/jsonops" % c["iline"][:3000]})
    have_input = bool(found or found_rt)
    for v in violations:
        # a model/engine disagreement is a concrete input; for parse cases the independent oracle (Python json) decides whether it is
        # a failure of the property itself
        if v["input"].get("cmd") == "parse":
            py = py_parse(v["input"]["units"])
            v["independent_oracle"] = py[:600] if py else None
            concrete = py is not None and py != v["impl_output"]
        else:
            concrete = True
        report(run, v, found_input=concrete or have_input)
    if broken is not None:
        # a broken proof obligation is always reported; the replay names the theorem file and the first error.  Cases that are
        # suppressed as known findings do not count as "the failing input" of a newly broken proof.
        concrete = len(run.violations) > 0
        run.violation({"kind": "proof-broken", "obligation": "C18/Props_C18.v", "detail": broken,
                       "search": ("the enlarged search reported the other violation(s) of this run" if concrete else
                                  "enlarged implementation-side search (Python-json oracle, round trips) found no failing input outside the known classes")},
                      found_input=concrete)
    run.cov["distribution"] = dict(sorted(dist.items()))
    run.cov["stats"] = stats
    for c in parse_cases[:0]:
        pass
    for c in (parse_cases[len(cparse) + 3:len(cparse) + 5] + [x for x in parse_cases if x["kind"] == "grammar"][:2] + [x for x in parse_cases if x["kind"] == "mutant"][:2]):
        run.sample({"cmd": "parse", "text": show(c["units"], 200), "model": c.get("model", "")[:200], "impl": c.get("impl", "")[:200]})
    run.assumptions = TRUSTED
    return run.finish()


def triage_parse_search(run, tools, bad, stats):
    """search-side mismatches (oracle = Python json): same classification, neutralised texts re-judged by Python json"""
    out = []
    todo = []
    for c in bad:
        classes, neutral = known_classes(c["units"])
        c["classes"] = classes
        c["class"] = None
        if c["model"].startswith("ok") and c["impl"] == "err SyntaxError" and classes:
            if neutral is None:
                c["class"] = "parse-nesting-depth-128" if "parse-nesting-depth-128" in classes else None
            else:
                todo.append((c, neutral))
    if todo:
        io = tools.impl(["parse " + esc(n) for _, n in todo])
        for (c, n), i in zip(todo, io):
            if py_parse(n) == canon_impl(i):
                c["class"] = c["classes"][0]
                c["all_classes"] = c["classes"]
    unknown = [c for c in bad if c["class"] is None]
    if unknown:
        nd = node_parse([c["units"] for c in unknown])
        if nd is not None:
            for c, v8 in zip(unknown, nd):
                c["v8"] = v8[:400]
                if v8 == c["impl"] and v8 != c["model"]:
                    c["verdict"] = "oracle_defect"
                    stats["python_oracle_defect"] = stats.get("python_oracle_defect", 0) + 1
                    run.notes.append({"python_oracle_defect": {"text": show(c["units"]), "python": c["model"][:200], "impl_and_v8": c["impl"][:200]}})
    for c in bad:
        if c.get("verdict") == "oracle_defect":
            continue
        stats["search_parse:" + str(c["class"])] = stats.get("search_parse:" + str(c["class"]), 0) + 1
        out.append(c)
    return out


def stack_probe(run, tools, stats):
    """How deep can a text nest before the process dies, with the default 8 MB stack of a main thread?  (debug profile)"""
    res = {}
    for d in (40, 50, 60, 80, 100, 127):
        c = T.deep_case(run.rng, d, "array")
        out = run_batch([tools.harness], ["parse " + esc(c["units"])], env={"JSONOPS_STACK_MB": "8"})
        res["parse-array-depth-%d" % d] = out[0].split("\t")[0][:40]
    for d in (1000, 3000, 10000, 30000):
        t = "[ " * d + "] " * d
        out = run_batch([tools.harness], ["stringify - " + t], env={"JSONOPS_STACK_MB": "8"})
        res["stringify-array-depth-%d" % d] = out[0][:40]
    stats["stack_probe_8MB_debug_profile"] = res


def tuple_tree(o):
    k = o[0]
    if k == "A":
        return ("A", [tuple_tree(e) for e in o[1]])
    if k == "O":
        return ("O", [(list(key), tuple_tree(e)) for key, e in o[1]])
    if k in ("S",):
        return ("S", list(o[1]))
    if k == "D":
        return ("D", int(o[1]))
    return (k,)


def replay(obj):
    ok, paths, _ = vlib.harness_build(["jsonops"])
    build_model()
    tools = Tools(paths["jsonops"])
    inp = obj.get("input", {})
    if inp.get("cmd") == "parse":
        u = inp["units"]
        print("text   :", show(u, 2000))
        print("engine :", tools.impl(["parse " + esc(u)])[0][:3000])
        if os.path.exists(MODEL_BIN):
            print("model  :", canon_model_parse(tools.model(["parse U" + hx(u)])[0])[:3000])
        print("python :", (py_parse(u) or "undecided")[:3000])
        nd = node_parse([u])
        print("v8     :", (nd[0] if nd else "unavailable")[:3000])
    elif inp.get("cmd") in ("stringify", "roundtrip"):
        print("engine :", tools.impl([inp["harness_line"]])[0][:3000])
        if inp.get("model_line") and os.path.exists(MODEL_BIN):
            print("model  :", tools.model([inp["model_line"]])[0][:3000])
    elif inp.get("cmd") == "js":
        print("engine :", tools.impl(["js " + inp["escaped"]])[0][:3000])
        nd = node_eval([inp["source"]])
        print("v8     :", (nd[0] if nd else "unavailable")[:3000])
        print("expect :", obj.get("model_output"))
    else:
        print(json.dumps(obj, indent=1)[:3000])
    return 0
