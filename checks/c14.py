"""C14 — array behaviour is independent of the element storage.

Proof: coq/C14/Props_C14.v — the five storage forms of `IndexedProperties` (Indexed.v, transliterated from
property_map.rs) refine an abstract index map under every operation and every form transition; values read back
identical (-0 / NaN never enter DenseI32); any program over the storage interface computes the same results on the
storage and on the abstract map (hence storage-form independence, whole histories of the modelled Array
algorithms); the by-value get/set fast paths equal the generic path; set/get_dense_property, push_dense and
shift's dense.remove(0) refine the abstract operations; histories_impl_eq_spec: implementation-model histories
(boa flavour + fast paths on the storage) = ECMA-262 histories on the abstract array-like, for every modelled operation.
Tie: histories of array operations run (1) on real boa arrays through JavaScript (harness `arrops`: structural
dump after every step through Reflect.ownKeys/getOwnPropertyDescriptor + the storage form and raw contents
through PropertyMap::index_properties()) and (2) on the extracted Gallina models (implementation model on
`storage` predicting dump AND storage form; ECMA-262 algorithms on the abstract array-like), diffed line by line.
Search (property oracle on the implementation alone): every history is run on (a) a real array, (b) a plain
array-like through Array.prototype.<m>.apply, (c) the array behind `new Proxy(arr, {})`; (a)=(c) always,
(a)=(b) while both are equivalent; raw storage contents = JS-visible descriptors; key order ascending.
"""
import json
import os
import re
import subprocess
import sys
from concurrent.futures import ThreadPoolExecutor

import vlib
from vlib import Run, log

sys.path.insert(0, os.path.join(vlib.VERIF, "gen"))
import c14_hist  # noqa: E402

PROP = "C14"
TRUSTED = [
    "Coq 8.16.1 kernel (proofs); extraction with ExtrOcamlBasic only + OCaml 4.13 (model execution)",
    "ocaml/C14/c14_driver.ml (history parser / printer of the extracted model), harness/src/bin/arrops.rs (JS prelude, "
    "dump through Reflect.ownKeys / getOwnPropertyDescriptor, storage form through PropertyMap::index_properties())",
    "modelled, not verified: FxHashMap as a duplicate-free association list (iteration order unspecified), ThinVec as list, "
    "u32 keys as unbounded N with the guard key <= 2^32-2, `as i32` as saturating truncation, JsValue::from(f64) canonicalising NaN (C12)",
    "values crossing the storage interface are in normal form (Integer32(5) == Float64(5.0) for JS, C12); insert is only ever "
    "called with complete descriptors (validate_and_apply_property_descriptor)",
    "Array builtins outside the modelled list (sort, toSorted, flat, flatMap, iteration methods, toSpliced, with, ...) are "
    "compared by (a)/(b)/(c) differential only; named (non-index) properties, prototype-chain elements, species, throwing accessors are not generated",
    "gen/c14_hist.py (seeded generator), checks/c14.py (comparison, canonicalisation of join results through a ToString table)",
]
MODEL_BIN = os.path.join(vlib.OCAML, "C14", "_build", "c14_model")
SYNC_SAFE = {"push", "pop", "shift", "unshift", "splice", "slice", "reverse", "fill", "copyWithin", "indexOf", "lastIndexOf",
             "includes", "join", "at", "get"}
B_NOT_OK = {"forin", "objkeys", "toString", "isFrozen"}
KNOWN_CLASS_LENIC = "array-length-assign-inline-cache"
CLASS_SETLEN = "array-set-length-keeps-elements"            # fixes.d/C14-array-set-length-keeps-elements.patch
CLASS_RECEIVER = "set-by-value-fast-path-ignores-receiver"   # fixes.d/C14-set-by-value-receiver.patch
# spec-oracle ops (custom / species constructors, `super[i]`): on since both fixes are in /repo (ddf3a83, 08cf6a6);
# a regression reports one of the two classes above (see design.d/C14.md "Deepening round")
EXT_FAMILIES = True
CHUNK_TIMEOUT = 900      # seconds per process for a chunk of histories
SINGLE_TIMEOUT = 120     # seconds for one history re-run alone after its chunk failed


# ------------------------------------------------------------------------------------------------
# running

def history_text(hid, h, kinds="ABC"):
    out = []
    for k in kinds:
        out.append("H %s%s %s %s" % (hid, k.lower(), k, " ".join(h["elems"])))
        out.extend(h["ops"])
    return "\n".join(out) + "\n"


def run_bin(binpath, text, timeout=600):
    try:
        p = subprocess.run([binpath], input=text, stdout=subprocess.PIPE, stderr=subprocess.PIPE, text=True, timeout=timeout)
        return p.stdout.split("\n"), p.returncode, p.stderr[-500:]
    except subprocess.TimeoutExpired:
        return [], 124, "timeout"


def parse_lines(lines):
    """{(hid, step): rest}, and {(hid, step): spec_rest} for `!spec` lines."""
    out, spec = {}, {}
    for ln in lines:
        if not ln:
            continue
        tgt = out
        if ln.startswith("!spec "):
            ln = ln[6:]
            tgt = spec
        m = re.match(r"(\S+)\.(\d+) (.*)$", ln)
        if m:
            tgt[(m.group(1), int(m.group(2)))] = m.group(3)
    return out, spec


def run_all(harness, hists, nproc=None, stats=None):
    """Run all histories on the harness and on the model.  hists: list of (hid, h).
    Returns (hout, mout, mspec, errs, lost): `lost` = ids of histories without a complete output because a process
    timed out or died even when re-run alone (discarded and counted, never compared)."""
    nproc = nproc or vlib.NCPU
    chunks = [[] for _ in range(min(nproc, max(1, len(hists))))]
    for i, x in enumerate(hists):
        chunks[i % len(chunks)].append(x)
    texts = ["".join(history_text(hid, h) for hid, h in ch) for ch in chunks]

    def one(arg):
        which, ci, t, to = arg
        return which, ci, run_bin(harness if which == "h" else MODEL_BIN, t, timeout=to)
    jobs = [("h", i, t, CHUNK_TIMEOUT) for i, t in enumerate(texts)] + [("m", i, t, CHUNK_TIMEOUT) for i, t in enumerate(texts)]
    hl, ml, errs, failed = [], [], [], set()
    with ThreadPoolExecutor(max_workers=nproc) as ex:
        for which, ci, (lines, rc, err) in ex.map(one, jobs):
            if rc != 0:
                errs.append("%s chunk %d exit %s %s" % (which, ci, rc, err[-200:]))
                failed.add(ci)
            else:
                (hl if which == "h" else ml).extend(lines)
    lost = set()
    if failed:
        # re-run the histories of the failed chunks one per process with a short timeout
        singles = [(hid, h) for ci in sorted(failed) for hid, h in chunks[ci]]
        jobs = [(w, i, history_text(hid, h), SINGLE_TIMEOUT) for i, (hid, h) in enumerate(singles) for w in ("h", "m")]
        with ThreadPoolExecutor(max_workers=nproc) as ex:
            for which, i, (lines, rc, err) in ex.map(one, jobs):
                if rc != 0:
                    lost.add(singles[i][0])
                    errs.append("%s history %s exit %s %s" % (which, singles[i][0], rc, err[-200:]))
                else:
                    (hl if which == "h" else ml).extend(lines)
    hout, _ = parse_lines(hl)
    mout, mspec = parse_lines(ml)
    if stats is not None and lost:
        stats["histories_lost_process_timeout_or_crash"] += len(lost)
    return hout, mout, mspec, errs, lost


# ------------------------------------------------------------------------------------------------
# comparison

def fields(rest):
    return rest.split(" | ")


def render_join(res, op):
    """model `join:[tok,tok,~]` -> `str:"..."` as the harness prints it; None when a ToString is unknown."""
    inner = res[len("join:["):-1]
    toks = inner.split(",") if inner else []
    parts = []
    for t in toks:
        if t == "~":
            parts.append("")
        else:
            s = c14_hist.tostring(t)
            if s is None:
                return None
            parts.append(s)
    sp = op.split()
    sep = {"1": "-", "2": ""}.get(sp[1] if len(sp) > 1 else "", ",")
    return "str:" + json.dumps(sep.join(parts))


def len_value(f2):
    m = re.match(r"len=([^,]*),", f2)
    return m.group(1) if m else f2


def ext_of(f2):
    m = re.search(r"ext=(\d)", f2)
    return m.group(1) if m else "?"


def len_writable(f2):
    m = re.match(r"len=[^,]*,(\d)", f2)
    return m.group(1) if m else "?"


def len_small(f2):
    """length is a number below 2^32 - 16 (so that no generic method can reach the 2^32 - 1 array limit)"""
    v = len_value(f2)
    if not re.fullmatch(r"d[0-9a-f]{16}", v):
        return False
    import struct
    x = struct.unpack("<d", struct.pack("<Q", int(v[1:], 16)))[0]
    return x == x and 0 <= x < 4294967280


def in_sync(fa, fb):
    """the array and the array-like are equivalent: same elements (keys, values, attributes), same length value and
    writability, same extensibility"""
    return (fa[3] == fb[3] and len_value(fa[2]) == len_value(fb[2]) and len_writable(fa[2]) == len_writable(fb[2])
            and ext_of(fa[2]) == ext_of(fb[2]) and len_small(fa[2]))


MARKERS = ("!raw", "!order", "!unsorted", "!key", "!attrs", "!notarray", "dump!", "arr!", "panic", "missing", "DIFF ")


def compare_history(hid, h, hout, mout, mspec, stats):
    """Returns None or a dict describing the first mismatch."""
    ops = h["ops"]
    ka, kb, kc = hid + "a", hid + "b", hid + "c"
    model_live = {"a": True, "b": True}
    prev = {}
    sync = None
    for step in range(0, len(ops) + 1):
        op = ops[step - 1] if step else "H"
        opname = op.split()[0]
        xname = op.split()[1] if opname in ("x", "q") and len(op.split()) > 1 else None
        la, lb, lc = hout.get((ka, step)), hout.get((kb, step)), hout.get((kc, step))
        if la is None or lb is None or lc is None:
            return {"what": "harness-output-missing", "step": step, "op": op, "impl": [la, lb, lc]}
        if "!bigkey" in la or "!bigkey" in lb or "!bigkey" in lc:
            # a property named by a numeric string >= 2^32 - 1 (not an array index) exists: outside the modelled domain
            stats["histories_cut_at_nonindex_numeric_key"] += 1
            return None
        if la.startswith("skip") or lb.startswith("skip") or lc.startswith("skip"):
            # a method whose running time is proportional to a huge `length` was not executed (arrops.rs BIG_LEN)
            stats["histories_cut_at_biglen"] += 1
            return None
        for kind, l in (("A", la), ("B", lb), ("C", lc)):
            for mk in MARKERS:
                if mk in l:
                    return {"what": "invariant-marker", "marker": mk, "step": step, "op": op, "kind": kind, "impl": l,
                            "oracle": "search"}
        fa, fb, fc = fields(la), fields(lb), fields(lc)
        if len(fa) != 5 or len(fb) != 5 or len(fc) != 5:
            return {"what": "harness-line-malformed", "step": step, "op": op, "impl": [la, lb, lc]}
        # (a) = (c): always, everything except the storage form
        if fa[:4] != fc[:4]:
            return {"what": "array-vs-proxy", "step": step, "op": op, "impl": {"A": la, "C": lc}, "oracle": "search"}
        stats["diff_ac"] += 1
        # model
        for kind, key, f, l in (("a", ka, fa, la), ("b", kb, fb, lb)):
            ml = mout.get((key, step))
            if ml is None:
                return {"what": "model-output-missing", "step": step, "op": op, "kind": kind}
            if not model_live[kind]:
                continue
            if ml.startswith("skip query"):
                stats["model_skip_query"] += 1
                # a query must not change the state
                p = prev.get(kind)
                if p is not None and (p[2] != f[2] or p[3] != f[3]):
                    return {"what": "query-mutated-state", "step": step, "op": op, "kind": kind.upper(),
                            "impl": l, "before": " | ".join(p), "oracle": "search"}
                continue
            if ml.startswith("skip") or ml.startswith("bad"):
                model_live[kind] = False
                stats["model_dead_" + ml.split()[1 if ml.startswith("skip") else 0]] += 1
                continue
            sp = mspec.get((key, step))
            if sp is not None:
                return {"what": "model-impl-vs-spec", "step": step, "op": op, "kind": kind.upper(), "model": ml, "spec": sp,
                        "impl": l, "oracle": "model"}
            mf = fields(ml)
            if mf[0].startswith("join:["):
                rj = render_join(mf[0], op)
                if rj is None:
                    stats["join_unrendered"] += 1
                    mf[0] = f[0]
                else:
                    mf[0] = rj
            if mf[:4] != f[:4]:
                return {"what": "impl-vs-model", "step": step, "op": op, "kind": kind.upper(), "model": ml, "impl": l,
                        "oracle": "spec"}
            if mf[4] != f[4]:
                return {"what": "storage-form", "step": step, "op": op, "kind": kind.upper(), "model": ml, "impl": l,
                        "oracle": "form"}
            stats["steps_vs_model"] += 1
            if kind == "a":
                # the proxy-wrapped array must give the model's answers too
                if mf[:4] != fc[:4]:
                    return {"what": "proxy-vs-model", "step": step, "op": op, "model": ml, "impl": lc, "oracle": "spec"}
        # (a) = (b): a generic Array.prototype method that returns normally on an array and on an equivalent plain
        # array-like gives the same result, the same getter/setter/callback log and equivalent objects afterwards.  Index/length/descriptor operations are exotic on the
        # array by specification and are not compared across kinds (each kind is compared with its own model).
        if step == 0:
            sync = in_sync(fa, fb)
        else:
            generic = (opname in SYNC_SAFE and opname != "get") or (opname in ("x", "q") and xname not in B_NOT_OK)
            if sync and generic:
                ea, eb = fa[0].startswith("E:"), fb[0].startswith("E:")
                if ea or eb:
                    # an abrupt completion: the array refuses an index >= a non-writable `length` at once, the
                    # array-like only when it finally sets `length` - so the point of failure (hence the getter
                    # log and the state) may differ by specification; only the error class is compared, and a
                    # one-sided exception is counted, not reported (A is still compared with its model and with C)
                    if ea and eb:
                        if fa[0] != fb[0]:
                            return {"what": "array-vs-arraylike", "step": step, "op": op, "impl": {"A": la, "B": lb}, "oracle": "search"}
                        stats["diff_ab_both_throw"] += 1
                    else:
                        stats["diff_ab_one_sided_exception"] += 1
                    sync = in_sync(fa, fb)
                else:
                    if fa[0] != fb[0] or fa[1] != fb[1]:
                        return {"what": "array-vs-arraylike", "step": step, "op": op, "impl": {"A": la, "B": lb}, "oracle": "search"}
                    stats["diff_ab"] += 1
                    if not in_sync(fa, fb):
                        return {"what": "array-vs-arraylike-state", "step": step, "op": op, "impl": {"A": la, "B": lb},
                                "oracle": "search"}
            else:
                sync = in_sync(fa, fb)
        # statistics
        for kind, f in (("A", fa), ("B", fb), ("C", fc)):
            form = f[4].split()[0]
            stats["form_%s_%s" % (kind, form)] += 1
            p = prev.get(kind.lower())
            if p is not None and p[4].split()[0] != form:
                stats["trans_%s_%s>%s" % (kind, p[4].split()[0][5:], form[5:])] += 1
        if step:
            stats["op_" + opname + ("_" + xname if xname else "")] += 1
            r = fa[0]
            stats["res_" + (r.split(":")[0] if not r.startswith("E:") else r)] += 1
        prev = {"a": fa, "b": fb, "c": fc}
    return None


class Stats(dict):
    def __missing__(self, k):
        return 0


def Stats_count(it):
    c = Stats()
    for x in it:
        c[x] += 1
    return c


def check_batch(harness, hists, stats):
    hout, mout, mspec, errs, lost = run_all(harness, hists, stats=stats)
    bad = []
    for hid, h in hists:
        if hid in lost:
            continue
        mm = compare_history(hid, h, hout, mout, mspec, stats)
        if mm is not None:
            mm["hid"] = hid
            bad.append((hid, h, mm))
    return bad, errs, [(hid, h) for hid, h in hists if hid in lost]


def check_one(harness, h):
    st = Stats()
    hout, mout, mspec, errs, lost = run_all(harness, [("z", h)], nproc=2)
    if lost:
        return None
    return compare_history("z", h, hout, mout, mspec, st)


def shrink(harness, h, mm, budget=120):
    """Greedy delta debugging on the op list (same mismatch kind)."""
    what = mm["what"]
    cur = {"family": h.get("family"), "elems": list(h["elems"]), "ops": list(h["ops"][:max(1, mm.get("step", len(h["ops"])))])}
    r = check_one(harness, cur)
    if r is None or r["what"] != what:
        cur = {"family": h.get("family"), "elems": list(h["elems"]), "ops": list(h["ops"])}
        r = mm
    n = 0
    changed = True
    while changed and n < budget:
        changed = False
        i = len(cur["ops"]) - 2
        while i >= 0 and n < budget:
            cand = dict(cur, ops=cur["ops"][:i] + cur["ops"][i + 1:])
            n += 1
            r2 = check_one(harness, cand)
            if r2 is not None and r2["what"] == what:
                cur, r, changed = cand, r2, True
            i -= 1
        i = len(cur["elems"]) - 1
        while i >= 0 and n < budget:
            cand = dict(cur, elems=cur["elems"][:i] + cur["elems"][i + 1:])
            n += 1
            r2 = check_one(harness, cand)
            if r2 is not None and r2["what"] == what:
                cur, r, changed = cand, r2, True
            i -= 1
    return cur, r


def classify(harness, h, mm):
    """A stable class label computed from the failing case itself."""
    if mm.get("marker") == "DIFF ":
        op, line = mm.get("op", ""), str(mm.get("impl"))
        m = re.search(r"builtin=(\d+)\[([^\]]*)\] spec=(\d+)\[([^\]]*)\]", line)
        if (op.split()[1:2] and op.split()[1] in ("ofctor", "fromctor", "speciesSlice", "speciesSplice", "speciesConcat") and m
                and m.group(1) == m.group(3) and m.group(2).startswith(m.group(4)) and m.group(2) != m.group(4)):
            return CLASS_SETLEN          # right length, right elements below it, stale elements at or above it
        if op.startswith("q superset") and "changed the prototype array" in line:
            return CLASS_RECEIVER
        return None
    if any(o.startswith("lenic") for o in h["ops"]) and mm.get("op", "").startswith("lenic"):
        alt = dict(h, ops=[("len" + o[5:]) if o.startswith("lenic") else o for o in h["ops"]])
        if check_one(harness, alt) is None:
            return KNOWN_CLASS_LENIC
    return None


def report(run, harness, h, mm):
    small, r = shrink(harness, h, mm)
    cls = classify(harness, small, r)
    found_input = r.get("oracle") in ("search", "spec")
    obj = {
        "kind": "counterexample" if found_input else "correspondence-broken",
        "class": cls,
        "input": {"elems": small["elems"], "ops": small["ops"]},
        "family": h.get("family"),
        "mismatch": r,
        "model_output": r.get("model"), "impl_output": r.get("impl"),
        "obligation": {
            "array-vs-proxy": "(a) real array = (c) Proxy-wrapped array",
            "array-vs-arraylike": "(a) real array = (b) equivalent plain array-like through Array.prototype.<m>.apply",
            "array-vs-arraylike-state": "(a) real array = (b) equivalent plain array-like (state after the call)",
            "invariant-marker": "raw storage contents = JS-visible descriptors; own keys ascending; result arrays ordinary; "
                                "builtin = ECMA-262 transliteration for custom-constructor / species results and super[i] stores (DIFF)",
            "query-mutated-state": "a non-mutating method left the array unchanged",
            "impl-vs-model": "boa = ECMA-262 algorithms (coq/C14/ArraySpec.v) on the same history",
            "proxy-vs-model": "boa (Proxy-wrapped array) = ECMA-262 algorithms on the same history",
            "storage-form": "storage form after the step = form predicted by the implementation model (coq/C14/Indexed.v)",
            "model-impl-vs-spec": "implementation model (boa flavour on storage) = abstract array-like (ECMA-262) — refinement theorems of Props_C14.v extended to the shortcuts",
        }.get(r["what"], r["what"]),
        "how_to_rerun": "./check replay <this file>   (or: printf 'H z A %s\\n%s\\n' | harness/target/debug/arrops)" % (
            " ".join(small["elems"]), "\\n".join(small["ops"])),
    }
    run.violation(obj, found_input=found_input)
    return obj


# ------------------------------------------------------------------------------------------------

def build_model():
    rc, out, err = vlib.sh(["sh", os.path.join(vlib.OCAML, "C14", "build.sh")], timeout=600)
    return rc == 0 and os.path.exists(MODEL_BIN), (out + err)[-2000:]


def corpus_histories(ext=False):
    d = os.path.join(vlib.CORPUS, "C14")
    out = []
    if os.path.isdir(d):
        for f in sorted(os.listdir(d)):
            if f.startswith("ext-") and not ext:
                continue          # spec-oracle cases of the two pending findings (see EXT_FAMILIES)
            if f.endswith(".json"):
                try:
                    o = json.load(open(os.path.join(d, f)))
                    for i, h in enumerate(o if isinstance(o, list) else [o]):
                        out.append(("c%s%d" % (re.sub(r"\W", "", f[:-5]), i), {"family": h.get("family", "corpus"), "elems": h["elems"], "ops": h["ops"], "expect": h.get("expect")}))
                except Exception as e:  # a broken corpus file is an infrastructure problem, not a violation
                    log("corpus file %s unreadable: %s" % (f, e))
    return out


def main():
    run = Run(PROP, "proof")
    run.cov["rule"] = ("a case = one history (initial array literal + op list) run on one subject kind (A real array / B plain array-like / "
                       "C Proxy-wrapped array); after every op the full structural dump (result, getter/setter log, length descriptor, "
                       "[[Extensible]], every own index key with its descriptor, storage form) is compared with the implementation model "
                       "(A, B) / the model of A (C) and across A/B/C; distinct = distinct (kind, elems, ops); non-trivial = every history "
                       "(each has >= 6 ops)")
    broken = None
    # 1-2. proofs + gates (+ extraction of the executable model)
    pr = vlib.proof_stage(PROP, ["Common", "C14"], "C14/Props_C14.v", extra_targets=["C14/Extract_C14.vo"])
    run.set_proof(pr, TRUSTED)
    if not pr["ok"]:
        broken = pr["broken"]
    ok, blog = build_model()
    if not ok:
        if broken is None:
            vlib.infra_error(PROP, "model driver build failed: " + blog[-400:])
        # the proofs/model no longer compile: fall back to the differential search alone
    # 3. harness
    okh, paths, hlog = vlib.harness_build(["arrops"])
    if not okh:
        if re.search(r"^error", hlog, re.M):
            run.violation({"kind": "correspondence-broken", "obligation": "harness `arrops` no longer compiles against /repo",
                           "log": hlog[-3000:]}, found_input=False)
            return run.finish()
        vlib.infra_error(PROP, "harness build failed: " + hlog[-400:])
    harness = paths["arrops"]
    if not os.path.exists(MODEL_BIN):
        run.violation({"kind": "proof-broken", "obligation": "C14/Props_C14.v / extraction", "detail": broken}, found_input=False)
        return run.finish()
    stats = Stats()
    # 4. corpus, then seeded histories
    nh = int(os.environ.get("C14_N", 0)) or (1500 if run.quick else 8000)
    if broken is not None:
        nh *= 2
    ext = EXT_FAMILIES or bool(os.environ.get("C14_EXT"))
    g = c14_hist.Gen(run.rng, thorough=not run.quick, ext=ext)
    run.cov["ext_families"] = ext
    hists = corpus_histories(ext)
    ncorpus = len(hists)
    fam = Stats()
    for i in range(nh):
        h = g.history()
        fam[h["family"]] += 1
        hists.append(("h%d" % i, h))
    for hid, h in hists:
        for k in "ABC":
            run.count((k, tuple(h["elems"]), tuple(h["ops"])))
    bad_all, errs, lost_all = [], [], []
    B = 3000
    for lo in range(0, len(hists), B):
        bad, e, lost = check_batch(harness, hists[lo:lo + B], stats)
        bad_all += bad
        errs += e
        lost_all += lost
    for i in (0, 1, 2):
        if ncorpus + i < len(hists):
            hid, h = hists[ncorpus + i]
            run.sample({"family": h["family"], "elems": " ".join(h["elems"]), "ops": h["ops"][:8]})
    run.cov["histories"] = len(hists)
    run.cov["corpus_histories"] = ncorpus
    run.cov["families"] = dict(fam)
    run.cov["ops_per_history_avg"] = round(sum(len(h["ops"]) for _, h in hists) / max(1, len(hists)), 1)
    run.cov["steps_compared_with_model"] = stats["steps_vs_model"]
    run.cov["steps_array_vs_proxy"] = stats["diff_ac"]
    run.cov["steps_array_vs_arraylike_in_sync"] = stats["diff_ab"]
    run.cov["distribution"] = {k: v for k, v in sorted(stats.items())}
    if errs:
        run.notes.append({"process_errors": errs[:5]})
    if lost_all:
        # discarded, not compared (DESIGN 1.2): the process timed out / died even with the history run alone
        run.notes.append({"histories_discarded_timeout_or_crash": [{"elems": h["elems"], "ops": h["ops"]} for _, h in lost_all[:5]]})
    run.cov["histories_discarded"] = len(lost_all)
    if len(lost_all) > max(3, len(hists) // 50):
        vlib.infra_error(PROP, "%d of %d histories lost to process timeouts/crashes (machine overloaded?)" % (len(lost_all), len(hists)))
    # report: at most 2 shrunk replays per kind of mismatch (kind = what differs + the op it shows at), 6 in total
    per_kind = Stats()
    reported = 0
    for hid, h, mm in bad_all:
        if reported >= 6:
            break
        kind = (mm["what"], mm.get("op", "").split()[0] if mm.get("op") else "")
        if per_kind[kind] >= 2:
            continue
        per_kind[kind] += 1
        report(run, harness, h, mm)
        reported += 1
    run.cov["mismatch_kinds"] = {"%s@%s" % k: v for k, v in sorted(
        Stats_count((mm["what"], mm.get("op", "").split()[0] if mm.get("op") else "") for _, _, mm in bad_all).items())}
    run.cov["mismatching_histories"] = len(bad_all)
    if broken is not None and not bad_all:
        run.violation({"kind": "proof-broken", "obligation": "C14/Props_C14.v", "detail": broken,
                       "search": "%d histories x 3 subject kinds: no failing input" % len(hists)}, found_input=False)
    elif broken is not None:
        run.notes.append({"proof_broken": broken})
    run.assumptions = TRUSTED
    return run.finish()


def replay(obj):
    ok, paths, _ = vlib.harness_build(["arrops"])
    build_model()
    h = obj["input"]
    text = history_text("z", h)
    for name, b in (("harness", paths["arrops"]), ("model", MODEL_BIN)):
        lines, rc, err = run_bin(b, text)
        print("== " + name)
        print("\n".join(l for l in lines if l))
    mm = check_one(paths["arrops"], h)
    print("== verdict")
    print(json.dumps(mm, indent=1) if mm else "no mismatch")
    return 1 if mm else 0
