"""C19 — parsing is total; printing an AST and re-parsing it is the identity.

Proof (token level, fragment of coq/C19/Model_C19.v): coq/C19/Props_C19.v — the model printer mirrors boa's
ToInternedString/ToIndentedString token for token, the model parser transliterates boa's recursive-descent parser;
`parse_print*`: parsing the printed tokens of a parser-shaped AST gives the AST back (unbounded, by induction on the AST).
Tie, re-checked on every run (harness `parseops`, extracted model `ocaml/C19`):
  * boa's parser vs the model parser: the AST boa returns for a generated text (dumped in the model's vocabulary) equals
    the generator's parser-shaped AST and the model's parse of the text's tokens; on token-level mutants the two
    parsers must agree whenever both accept;
  * boa's printer vs the model printer: the tokens of print(parse s) equal the model's print_tokens of the AST.
Search / property oracle on the implementation alone, for generated programs (model fragment and the shared wide
generator `progen`), their token-level mutants, hand-written probes and every JS snippet embedded in /repo's tests:
  parse(s) is Ok or Err with a position inside the text, without panic, within a time bound; for accepted s with
  p = print(parse s): p parses, print(parse p) = p, parse p = parse(print(parse p)) (boa's PartialEq), the interner
  does not grow on re-parsing, and trace(p) = trace(s) with the `js` runner.
Text-level claims (lexing, ASI, layout) are by correspondence only.
"""
import collections
import json
import os
import re
import subprocess
import sys
import time

import vlib
from vlib import Run, log

import c19_gen as G
from jsast import escape_line

PROP = "C19"
TRUSTED = [
    "Coq 8.16.1 kernel (no native_compute); theorems are about the Gallina model coq/C19/Model_C19.v (token-level printer/parser) and coq/C19/Deep_Lex_C19.v (lexer + renderer: text level for the token classes the printer emits)",
    "model = hand transliteration of boa's printer (core/ast/src/**: ToInternedString/ToIndentedString) and parser "
    "(core/parser/src/parser/{expression,statement}/**) for the fragment: tied to the code only by the correspondence below",
    "not in any theorem: lexing outside the modelled token classes (comments, regex, templates, non-integer numerals, other escapes, non-ASCII), boa's layout (checked per run to be a good_layout), ASI / line terminators, templates, regex re-lexing, strict mode, early errors; "
    "boa's own parser termination (exercised, not proved)",
    "extraction (ExtrOcamlBasic only) + ocaml/C19/c19_driver.ml (S-expression reader/printer, token words)",
    "gen/c19_gen.py (generator, independent JS tokenizer used to compare printed text layout-insensitively), gen/progen.py",
    "harness/src/bin/parseops.rs (catch_unwind, watchdog, AST dump, feature visitor), harness/src/bin/js.rs (traces)",
]

# priority order of the syntactic features that label a failing round trip (computed by the harness from the failing
# top-level item of the case itself)
FEATURES = ["str-escape", "key-quote", "template-escape", "num-dot", "num-nonfinite", "for-await", "await-using",
            "directive-escape", "stmt-start"]
MODEL_BIN = os.path.join(vlib.OCAML, "C19", "_build", "c19_model")


# ------------------------------------------------------------------------------------------------ tools

class Tools:
    def __init__(self, parseops, js):
        self.parseops = parseops
        self.js = js
        self.timeouts = []

    def rt(self, texts, dump=False, cmd="rt", timeout_ms=10000):
        """run the harness on a list of texts; survives a watchdog exit (timeout) by restarting after the case"""
        out = {}
        todo = list(enumerate(texts))
        while todo:
            inp = "cfg timeout=%d dump=%d\n" % (timeout_ms, 1 if dump else 0) + "".join(
                "%s %d %s\n" % (cmd, i, escape_line(t)) for i, t in todo)
            p = subprocess.run([self.parseops], input=inp, stdout=subprocess.PIPE, stderr=subprocess.PIPE, text=True,
                               errors="replace", env=dict(os.environ, C19_STACK_MB="256"))
            done = set()
            for line in p.stdout.split("\n"):
                if not line.strip():
                    continue
                try:
                    d = json.loads(line)
                except ValueError:
                    continue
                out[int(d["id"])] = d
                done.add(int(d["id"]))
            rest = [(i, t) for i, t in todo if i not in done]
            if not rest:
                break
            if p.returncode == 3:      # watchdog: the timed-out case was reported, continue after it
                todo = rest
                continue
            # crash (stack overflow / abort): the first unanswered case killed the process
            i, t = rest[0]
            out[i] = {"id": str(i), "st": "crash", "rc": p.returncode, "stderr": p.stderr[-300:]}
            todo = rest[1:]
        return [out.get(i, {"st": "missing"}) for i in range(len(texts))]

    def model(self, lines):
        p = subprocess.run([MODEL_BIN], input="\n".join(lines) + "\n", stdout=subprocess.PIPE, stderr=subprocess.PIPE, text=True)
        res = {}
        for l in p.stdout.split("\n"):
            f = l.split("\t")
            if len(f) >= 2:
                res[f[0]] = f
        return res

    def traces(self, texts, prelude=""):
        """(status, trace, completion) of every text under runtime limits, fresh context each"""
        cfg = "cfg loop=20000 rec=150 fresh=1 jobs=1"
        if prelude:
            cfg += " prelude=" + escape_line(prelude).replace(" ", "\\u0020")
        inp = cfg + "\n" + "".join("run %d %s\n" % (i, escape_line(t)) for i, t in enumerate(texts))
        p = subprocess.run([self.js], input=inp, stdout=subprocess.PIPE, stderr=subprocess.PIPE, text=True, errors="replace")
        res = {}
        for l in p.stdout.split("\n"):
            f = l.split("\t")
            if len(f) >= 4:
                res[int(f[0])] = (f[1], f[2], f[3])
        return [res.get(i) for i in range(len(texts))]


def unwire(w):
    """wire-escaped text (model driver output) -> str"""
    out = []
    i = 0
    while i < len(w):
        if w[i] == "\\" and i + 1 < len(w):
            e = w[i + 1]
            if e == "u" and i + 6 <= len(w):
                out.append(chr(int(w[i + 2:i + 6], 16)))
                i += 6
                continue
            out.append({"n": "\n", "r": "\r", "t": "\t"}.get(e, e))
            i += 2
        else:
            out.append(w[i])
            i += 1
    return "".join(out)


def label_of(feats):
    for f in FEATURES:
        if f in feats:
            return f
    return None


class Checker:
    """applies the property oracle to harness results and files violations under class labels"""

    def __init__(self, run, tools):
        self.run = run
        self.tools = tools
        self.stats = collections.Counter()
        self.classes = collections.Counter()
        self.reported = collections.Counter()
        self.feature_hist = collections.Counter()

    def violation(self, cls, obj, found_input=True):
        self.classes[cls] += 1
        if self.reported[cls] >= 2:
            return
        self.reported[cls] += 1
        obj = dict(obj)
        obj["class"] = cls
        obj.setdefault("kind", "counterexample")
        obj.setdefault("how_to_rerun", "./check replay <this file>   (re-runs harness/target/debug/parseops on `input`)")
        self.run.violation(obj, found_input=found_input)

    def classify(self, text, what):
        """labels of the top-level items of `text` that do not survive print -> parse (computed by the harness from
        the case itself), or from the whole script when no single item is to blame"""
        d = self.tools.rt([text], cmd="it")[0]
        labels = []
        focus = []
        if d.get("st") == "ok":
            for it in d.get("items", []):
                bad = it["re"] != "ok" or not it["stable"] or not it["same"]
                if what == "trace" and not bad and not it["same_whole"]:
                    bad = True
                if bad:
                    labels.append(label_of(it["feats"]) or "unclassified")
                    focus.append(it["text"][:300])
            if not labels:
                l = label_of(d.get("feats", []))
                if l in ("directive-escape",) and not d.get("strict_same", True):
                    labels.append(l)
                elif l is not None and what == "trace":
                    labels.append(l)
        if not labels:
            labels = ["unclassified"]
        return sorted(set(labels)), focus

    def totality(self, text, d, origin):
        st = d.get("st")
        if st == "ok":
            return True
        if st == "err":
            self.stats["rejected"] += 1
            self.stats["reject:" + d.get("kind", "?")] += 1
            if not d.get("inside", True):
                self.violation("C19-error-position-outside-text", {"input": text, "origin": origin, "impl_output": d,
                               "obligation": "a syntax error is positioned inside the text"})
            return False
        if st in ("panic", "timeout", "crash", "missing"):
            if st == "crash" and "overflowed its stack" in str(d.get("stderr", "")):
                st = "stack-overflow"       # deep nesting: the recursive-descent parser exhausts the (256 MB) stack
            self.violation("C19-parser-" + st, {"input": text, "origin": origin, "impl_output": d,
                           "obligation": "the parser terminates with an AST or a syntax error"})
            return False
        return False

    def roundtrip(self, text, d, origin):
        """the print/parse part of the property on one accepted text; returns True when p1 can be executed"""
        for f in d.get("feats", []):
            self.feature_hist[f] += 1
        if d.get("re") != "ok":
            labels, focus = self.classify(text, "reparse")
            for l in labels:
                self.violation("C19-print-" + l, {"input": text, "origin": origin, "printed": d.get("p1"), "focus": focus,
                               "impl_output": {"reparse": d.get("re"), "message": d.get("re_msg")},
                               "obligation": "print(parse s) parses again"})
            return False
        ok = True
        if not d.get("p2eq") or not d.get("eq23"):
            labels, focus = self.classify(text, "unstable")
            for l in labels:
                self.violation("C19-print-" + l, {"input": text, "origin": origin, "printed": d.get("p1"), "printed_again": d.get("p2"),
                               "focus": focus, "impl_output": {"p2eq": d.get("p2eq"), "eq23": d.get("eq23")},
                               "obligation": "from the first printed form on, parse-then-print is the identity"})
            ok = False
        elif d.get("grow1", 0) != 0 or d.get("grow2", 0) != 0:
            labels, focus = self.classify(text, "interner")
            for l in labels:
                self.violation("C19-print-" + l if l != "unclassified" else "C19-interner-growth", {"input": text, "origin": origin, "printed": d.get("p1"),
                               "impl_output": {"grow1": d.get("grow1"), "grow2": d.get("grow2")},
                               "obligation": "re-parsing the printed text interns no new string"})
            ok = False
        return ok

    def traces(self, pairs, origin, prelude=""):
        """pairs: list of (text, printed); trace(printed) must equal trace(text)"""
        if not pairs:
            return
        flat = []
        for s, p in pairs:
            flat += [s, p]
        res = self.tools.traces(flat, prelude)
        for k, (s, p) in enumerate(pairs):
            a, b = res[2 * k], res[2 * k + 1]
            self.run.count(("trace", s))
            self.stats["traces"] += 1
            if a is None or b is None:
                self.stats["trace-missing"] += 1
                continue
            if a[2].startswith("L:") or b[2].startswith("L:"):
                # a runtime limit was hit: the point where it hits depends on the code shape, not compared
                self.stats["trace-limit"] += 1
                if a[1] != b[1] and not (a[2].startswith("L:") and b[2].startswith("L:")):
                    pass
                continue
            if a != b:
                labels, focus = self.classify(s, "trace")
                for l in labels:
                    self.violation("C19-print-" + l, {"input": s, "origin": origin, "printed": p, "focus": focus, "prelude": prelude,
                                   "impl_output": {"original": a, "printed": b},
                                   "obligation": "the printed program evaluates to the same trace as the original"})
            else:
                self.stats["trace-equal"] += 1
                if a[1] != "[]":
                    self.stats["trace-nonempty"] += 1


# ------------------------------------------------------------------------------------------------ streams

def model_stream(run, ck, n):
    """programs of the model fragment: four-way comparison generator AST / boa AST / model parse / printers"""
    rng = run.rng
    cases = []
    for i in range(n):
        prog, feats = G.gen_model_program(rng, size=rng.choice([8, 20, 40, 80]), depth=rng.choice([2, 3, 5, 7]),
                                          parens=rng.choice([0, 0, 0.15, 0.4]))
        observed = rng.random() < 0.5
        if observed:
            prog = G.observe(prog, rng)
        variant = rng.choice(["canon", "layout", "style", "both"])
        text = G.to_js(prog, rng if variant in ("layout", "both") else None, wild=0.5 if variant in ("layout", "both") else 0.0,
                       style=rng if variant in ("style", "both") else None)
        cases.append({"prog": prog, "text": text, "sexp": G.sx_prog(prog), "feats": feats, "variant": variant, "observed": observed})
        for f in feats:
            ck.feature_hist["gen:" + f] += 1
    hs = ck.tools.rt([c["text"] for c in cases], dump=True)
    lines = ["P %d %s" % (i, c["sexp"]) for i, c in enumerate(cases)]
    lines += ["T t%d %s" % (i, " ".join(G.js_tokens(c["text"]))) for i, c in enumerate(cases)]
    # text level (deepening round): boa's printed text and the generator's own text through the extracted lexer
    for i, c in enumerate(cases):
        d = hs[i]
        if d.get("st") == "ok" and d.get("p1") is not None and d["p1"].isascii():
            lines.append("X x%d %s\t%s" % (i, c["sexp"], escape_line(d["p1"])))
        if c["variant"] in ("canon", "style") and c["text"].isascii():
            lines.append("X g%d %s\t%s" % (i, c["sexp"], escape_line(c["text"])))
    ms = ck.tools.model(lines)
    pairs = []
    for i, c in enumerate(cases):
        d = hs[i]
        run.count(("model", c["sexp"]))
        ck.stats["model-cases"] += 1
        ck.stats["variant:" + c["variant"]] += 1
        mp = ms.get(str(i))
        mt = ms.get("t%d" % i)
        if i < 2:
            run.sample({"stream": "model", "text": c["text"][:400], "ast": c["sexp"][:400], "boa_printed": (d.get("p1") or "")[:300]})
        # the model on its own: parser-shaped, and parse (print ast) = ast (an instance of the theorem)
        if mp is None or mp[1] != "1" or mp[3] != "ok":
            ck.violation("C19-model-self-check", {"kind": "correspondence-broken", "input": c["text"], "ast": c["sexp"], "model_output": mp,
                         "obligation": "generator ASTs are parser-shaped and the extracted parser inverts the extracted printer"}, found_input=False)
            continue
        if mt is not None and mt[1] == "ok" and mt[2] == "0":
            ck.violation("C19-model-parse-unshaped", {"kind": "correspondence-broken", "input": c["text"], "model_output": mt,
                         "obligation": "every AST the extracted model parser returns satisfies shaped_core (theorem parse_shaped_core, re-checked on the extracted code)"}, found_input=False)
            continue
        if mt is None or mt[1] != "ok" or mt[3] != c["sexp"]:
            ck.violation("C19-model-parse", {"kind": "correspondence-broken", "input": c["text"], "ast": c["sexp"], "model_output": mt,
                         "obligation": "the model parser returns the generator's AST for the generator's text"}, found_input=False)
            continue
        if not ck.totality(c["text"], d, "model-stream"):
            if d.get("st") == "err":
                words = " ".join(G.js_tokens(c["text"]))
                cls = "C19-valid-program-rejected"
                if d.get("kind") == "Lex" and "regular expression" in d.get("msg", "") and "=> { } ) /" in words:
                    # `(() => {}) / 2`: the `/` after a parenthesised arrow function with an empty block body is lexed as
                    # the start of a regular expression (class computed from the rejected text and the error)
                    cls = "C19-parse-div-after-empty-arrow"
                ck.violation(cls, {"kind": "correspondence-broken", "input": c["text"], "impl_output": d,
                             "model_output": "accepted: " + c["sexp"][:300],
                             "obligation": "boa's parser accepts what the model parser accepts (generated valid program)"}, found_input=False)
            continue
        if d.get("sexp") is None:
            ck.stats["dump-unsupported:" + str(d.get("unsup"))] += 1
        elif d["sexp"] != c["sexp"]:
            ck.violation("C19-parser-ast-differs", {"kind": "correspondence-broken", "input": c["text"], "model_output": c["sexp"],
                         "impl_output": d["sexp"], "obligation": "boa's AST = generator's parser-shaped AST = model parse"}, found_input=False)
            continue
        else:
            ck.stats["parser-ast-equal"] += 1
        boa_words = " ".join(G.js_tokens(d["p1"]))
        if boa_words != mp[2]:
            if "num-dot" in d.get("feats", []):
                ck.stats["printer-tokens-differ(num-dot)"] += 1
            else:
                ck.violation("C19-printer-tokens-differ", {"kind": "correspondence-broken", "input": c["text"], "model_output": mp[2],
                             "impl_output": boa_words, "obligation": "tokens of boa's print(parse s) = model print_tokens(ast)"}, found_input=False)
                continue
        else:
            ck.stats["printer-tokens-equal"] += 1
        # text-level tie: the extracted lexer on boa's printed text gives the model's printed tokens, boa's white space is a
        # layout in the sense of theorem lex_layout (token texts byte for byte, white space wherever needs_sep demands),
        # parse_text of it is the AST; the same for the model's own rendering (instance of lex_render / parse_print_text)
        mx = ms.get("x%d" % i)
        if mx is not None and len(mx) >= 6:
            ck.stats["text-cases"] += 1
            if i < 1:
                run.sample({"stream": "text", "boa_printed": d["p1"][:200], "model_render": mx[6][:200] if len(mx) > 6 else None,
                            "lex(boa)=tokens": mx[2], "parse_text(boa)=ast": mx[3], "layout": mx[4]})
            if mx[1] != "1":
                ck.stats["text-unprintable"] += 1
            elif "num-dot" in d.get("feats", []) and (mx[2], mx[3], mx[4]) != ("eq", "eq", "ok"):
                ck.stats["text-differs(num-dot)"] += 1
            elif (mx[2], mx[3], mx[4], mx[5]) != ("eq", "eq", "ok", "ok"):
                ck.violation("C19-text-level-differs", {"kind": "correspondence-broken", "input": c["text"], "printed": d["p1"],
                             "model_output": {"printable": mx[1], "lex(printed)=print_tokens": mx[2], "parse_text(printed)=ast": mx[3],
                                              "layout": mx[4], "self": mx[5], "render": mx[6] if len(mx) > 6 else None},
                             "obligation": "boa's printed text is a layout of the model's printed tokens and lexes/parses back in the model"},
                             found_input=False)
            else:
                ck.stats["text-equal"] += 1
        mg = ms.get("g%d" % i)
        if mg is not None and len(mg) >= 6 and mg[1] == "1":
            ck.stats["gentext-cases"] += 1
            if (mg[3], mg[5]) != ("eq", "ok"):
                ck.violation("C19-text-level-differs", {"kind": "correspondence-broken", "input": c["text"],
                             "model_output": {"parse_text(text)=ast": mg[3], "self": mg[5]},
                             "obligation": "parse_text (model lexer + model parser) of the generator's text is the generator's AST"},
                             found_input=False)
            else:
                ck.stats["gentext-equal"] += 1
        if ck.roundtrip(c["text"], d, "model-stream"):
            pairs.append((c["text"], d["p1"]))
    render_stream(run, ck, cases, hs)
    ck.traces(pairs, "model-stream", G.PRELUDE)
    return cases, hs


def render_stream(run, ck, cases, hs):
    """the model's minimal rendering (one blank exactly where needs_sep demands: `a- -b`, `1 .x`) against boa's real lexer and
    parser: boa's parser returns the AST for render(print_tokens ast); boa's lexer and the model lexer give the same token
    words on the rendered and on boa's printed text (texts containing `/` are not sent to the bare lexer, whose default goal
    symbol reads `/` as a regular expression)"""
    rs = ck.tools.model(["R %d %s" % (i, c["sexp"]) for i, c in enumerate(cases)])
    texts, idx = [], []
    for i, c in enumerate(cases):
        r = rs.get(str(i))
        if r is not None and r[1] == "ok":
            texts.append(unwire(r[2]))
            idx.append(i)
    hr = ck.tools.rt(texts, dump=True)
    lex_in = []
    for k, i in enumerate(idx):
        d = hr[k]
        ck.stats["render-cases"] += 1
        run.count(("render", texts[k]))
        if d.get("st") != "ok":
            # the known lexer-goal defect (an empty arrow body `=>{}` closed by `)` and followed by `/` is lexed as a regular
            # expression) shows in the minimal rendering too: same class as in the parser comparison, computed from the text:
            # the defect is the cause iff the same text with a non-empty body (`=>{0}`) parses.
            cls, found = "C19-render-rejected", False
            if re.search(r"=>\{\}\)*/", texts[k]):
                alt = re.sub(r"=>\{\}(\)*/)", r"=>{0}\1", texts[k])
                if ck.tools.rt([alt], dump=False)[0].get("st") == "ok":
                    cls, found = "C19-parse-div-after-empty-arrow", True
            ck.violation(cls, {"kind": "counterexample" if found else "correspondence-broken", "input": texts[k], "impl_output": d, "model_output": cases[i]["sexp"][:400],
                         "obligation": "boa parses the model's minimal rendering of a parser-shaped program (parse_print_text on the implementation)"},
                         found_input=found)
        elif d.get("sexp") is not None and d["sexp"] != cases[i]["sexp"]:
            ck.violation("C19-render-ast-differs", {"kind": "correspondence-broken", "input": texts[k], "impl_output": d["sexp"], "model_output": cases[i]["sexp"],
                         "obligation": "boa's AST of the model's minimal rendering = the AST (parse_print_text on the implementation)"}, found_input=False)
        else:
            ck.stats["render-ast-equal"] += 1
        if "/" not in texts[k]:
            lex_in.append(texts[k])
        p1 = hs[i].get("p1")
        if hs[i].get("st") == "ok" and p1 and "/" not in p1 and p1.isascii():
            lex_in.append(p1)
    if lex_in:
        hb = ck.tools.rt(lex_in, cmd="lx")
        ml = ck.tools.model(["L %d %s" % (k, escape_line(t)) for k, t in enumerate(lex_in)])
        for k, t in enumerate(lex_in):
            m = ml.get(str(k))
            b = hb[k]
            ck.stats["lexer-cases"] += 1
            if m is None or m[1] != "ok" or b.get("st") != "ok" or b.get("words") != m[2]:
                ck.violation("C19-lexer-differs", {"kind": "correspondence-broken", "input": t, "impl_output": b, "model_output": m,
                             "obligation": "the model lexer and boa's lexer give the same token stream"}, found_input=False)
            else:
                ck.stats["lexer-equal"] += 1
        run.sample({"stream": "lexer", "text": lex_in[0][:200], "boa_words": (hb[0].get("words") or "")[:200]})


def wide_stream(run, ck, n):
    """programs of the shared generator (classes, generators, destructuring, templates, ...): round trip + traces"""
    import progen
    import jsast
    texts = []
    presets = ["C01", "C04", "C05", "C10", "C20"]
    for i in range(n):
        try:
            p = progen.gen_program(run.rng, preset=run.rng.choice(presets), size=run.rng.choice([15, 30, 60]))
            texts.append(jsast.to_js(p))
        except Exception as e:       # a generator problem is not a property verdict
            ck.stats["progen-error:" + type(e).__name__] += 1
    hs = ck.tools.rt(texts)
    pairs = []
    for t, d in zip(texts, hs):
        run.count(("wide", t))
        ck.stats["wide-cases"] += 1
        if not ck.totality(t, d, "wide-stream"):
            continue
        if ck.roundtrip(t, d, "wide-stream"):
            pairs.append((t, d["p1"]))
    if texts:
        run.sample({"stream": "wide", "text": texts[0][:400]})
    ck.traces(pairs, "wide-stream")
    return texts


def mutant_stream(run, ck, model_bases, wide_bases, n):
    """token-level mutants: totality, and agreement of the two parsers whenever both accept"""
    rng = run.rng
    texts = []
    for _ in range(n):
        if model_bases and (not wide_bases or rng.random() < 0.8):
            texts.append(G.mutate(rng.choice(model_bases), rng))
        else:
            texts.append(G.mutate(rng.choice(wide_bases), rng))
    hs = ck.tools.rt(texts, dump=True)
    ms = ck.tools.model(["T %d %s" % (i, " ".join(G.js_tokens(t))) for i, t in enumerate(texts)])
    pairs = []
    for i, (t, d) in enumerate(zip(texts, hs)):
        run.count(("mutant", t))
        ck.stats["mutants"] += 1
        m = ms.get(str(i))
        model_ok = m is not None and m[1] == "ok"
        if model_ok:
            ck.stats["model-parse-shape:" + {"1": "parser_shaped", "2": "shaped_core_only", "0": "UNSHAPED"}.get(m[2], "?")] += 1
            if m[2] == "0":
                ck.violation("C19-model-parse-unshaped", {"kind": "correspondence-broken", "input": t, "model_output": m,
                             "obligation": "every AST the extracted model parser returns satisfies shaped_core (theorem parse_shaped_core, re-checked on the extracted code)"}, found_input=False)
        accepted = ck.totality(t, d, "mutant")
        key = ("model-ok" if model_ok else "model-err") + "/" + ("boa-ok" if accepted else "boa-err")
        ck.stats["mutant:" + key] += 1
        if accepted:
            if model_ok and d.get("sexp") is not None:
                if d["sexp"] != m[3]:
                    ck.violation("C19-parser-ast-differs", {"kind": "correspondence-broken", "input": t, "model_output": m[3],
                                 "impl_output": d["sexp"], "obligation": "both parsers accept the mutant: same AST"}, found_input=False)
                else:
                    ck.stats["mutant-ast-equal"] += 1
            if ck.roundtrip(t, d, "mutant") and len(pairs) < n // 4:
                pairs.append((t, d["p1"]))
    if texts:
        run.sample({"stream": "mutant", "text": texts[0][:300], "result": {k: hs[0].get(k) for k in ("st", "kind", "line", "col", "re")}})
    ck.traces(pairs, "mutant", G.PRELUDE)


DETERMINISM_BLOCKLIST = re.compile(r"Date|random|performance|setTimeout|setInterval|Temporal|Intl|hrtime|timeZone|toLocale")


def text_stream(run, ck, items, origin, with_traces):
    texts = [t for _, t in items]
    hs = ck.tools.rt(texts)
    pairs = []
    for (name, t), d in zip(items, hs):
        run.count((origin, t))
        ck.stats[origin + "-cases"] += 1
        if not ck.totality(t, d, origin + ":" + name):
            continue
        ck.stats[origin + "-accepted"] += 1
        if ck.roundtrip(t, d, origin + ":" + name) and with_traces and not DETERMINISM_BLOCKLIST.search(t) and len(t) < 20000:
            pairs.append((t, d["p1"]))
    if with_traces:
        # a snippet whose own trace is not reproducible is not compared
        first = ck.tools.traces([s for s, _ in pairs])
        second = ck.tools.traces([s for s, _ in pairs])
        stable = [pr for pr, a, b in zip(pairs, first, second) if a is not None and a == b]
        ck.stats[origin + "-nondeterministic"] += len(pairs) - len(stable)
        ck.traces(stable, origin)


# ------------------------------------------------------------------------------------------------ main

def build_model():
    rc, out, err = vlib.sh(["sh", os.path.join(vlib.OCAML, "C19", "build.sh")], timeout=900)
    return rc == 0, (out + err)[-2000:]


def main():
    run = Run(PROP, "proof")
    run.cov["rule"] = (
        "cases: (a) seeded programs of the model fragment (random AST -> parenthesised where the grammar needs it, optional redundant "
        "parentheses, layout and surface-syntax variants), compared four ways (generator AST / boa's AST dump / model parse of the "
        "token words / printers); (b) programs of the shared wide generator progen; (c) token-level mutants of (a),(b); (d) hand-written "
        "probes corpus/C19/probes.json; (e) every JS file and string literal of /repo's test sources.  Every case goes through the "
        "property oracle (totality, print/parse fixpoint, interner, traces).  distinct = distinct (stream, text); all cases are "
        "non-trivial (each is parsed by boa); syntax errors among (c),(e) exercise totality only (counted as `rejected`)")
    broken = None
    # 1-2. proofs + gates (+ extraction)
    pr = vlib.proof_stage(PROP, ["C19"], "C19/Props_C19.v", extra_targets=["C19/Extract_C19.vo"])
    run.set_proof(pr, TRUSTED)
    if not pr["ok"]:
        broken = pr["broken"]
    okm, mlog = build_model()
    if not okm and broken is None:
        broken = {"kind": "extraction", "detail": {"error": mlog}}
    # 3. harness
    ok, paths, blog = vlib.harness_build(["parseops", "js"])
    if not ok:
        if re.search(r"^error", blog, re.M):
            run.violation({"kind": "correspondence-broken", "obligation": "harness `parseops` no longer compiles against /repo",
                           "log": blog[-3000:]}, found_input=False)
            return run.finish()
        vlib.infra_error(PROP, "harness build failed: " + blog[-400:])
    tools = Tools(paths["parseops"], paths["js"])
    ck = Checker(run, tools)
    quick = run.quick and broken is None
    t0 = time.time()
    # 4. corpus first
    corpus_dir = os.path.join(vlib.CORPUS, PROP)
    probes = json.load(open(os.path.join(corpus_dir, "probes.json")))
    text_stream(run, ck, [(p["name"], p["src"]) for p in probes], "probe", True)
    extra = []
    for f in sorted(os.listdir(corpus_dir)):
        if f.endswith(".js"):
            extra.append((f, open(os.path.join(corpus_dir, f), encoding="utf8").read()))
    if extra:
        text_stream(run, ck, extra, "corpus", True)
    # 5. generated streams
    model_bases = []
    if okm:
        cases, _ = model_stream(run, ck, 400 if quick else 8000)
        model_bases = [c["text"] for c in cases if len(c["text"]) < 600]
    wide = wide_stream(run, ck, 80 if quick else 1500)
    if okm and (model_bases or wide):
        mutant_stream(run, ck, model_bases, wide, 600 if quick else 12000)
    # 6. repository snippets
    snippets = G.repo_snippets(vlib.REPO)
    ck.stats["repo-snippets-total"] = len(snippets)
    if quick:
        run.rng.shuffle(snippets)
        snippets = snippets[:900]
    text_stream(run, ck, snippets, "repo", not quick)
    # depth probe: nesting does not crash the parser (stack 256 MB in the harness worker)
    deep = [("paren-depth", "(" * k + "1" + ")" * k) for k in ((50, 200) if quick else (50, 200, 1000, 3000))]
    deep += [("array-depth", "[" * k + "]" * k) for k in ((200,) if quick else (200, 2000))]
    deep += [("unary-depth", "!" * k + "1") for k in ((500,) if quick else (500, 5000))]
    text_stream(run, ck, deep, "depth", False)
    run.cov["programs"] = ck.stats["model-cases"] + ck.stats["wide-cases"] + ck.stats["probe-cases"]
    run.cov["streams"] = {k: v for k, v in sorted(ck.stats.items())}
    run.cov["feature_distribution"] = {k: v for k, v in sorted(ck.feature_hist.items())}
    run.cov["violation_classes_seen"] = dict(ck.classes)
    run.cov["search_wall_s"] = round(time.time() - t0, 1)
    if broken is not None:
        if not run.violations and not ck.classes:
            run.violation({"kind": "proof-broken", "obligation": "coq/C19/Props_C19.v (parse_print / parse_shaped over Model_C19.v)",
                           "detail": broken, "search": "enlarged generated + mutant + repo-snippet search found no failing input"},
                          found_input=False)
        else:
            run.notes.append({"proof_broken": broken})
    run.assumptions = TRUSTED
    return run.finish()


def replay(obj):
    ok, paths, _ = vlib.harness_build(["parseops", "js"])
    tools = Tools(paths["parseops"], paths["js"])
    text = obj.get("input", "")
    d = tools.rt([text], dump=True)[0]
    print(json.dumps(d, indent=1)[:4000])
    it = tools.rt([text], cmd="it")[0]
    print(json.dumps(it, indent=1)[:4000])
    if d.get("st") == "ok" and d.get("re") == "ok":
        tr = tools.traces([text, d["p1"]], obj.get("prelude", ""))
        print("trace(original) =", tr[0])
        print("trace(printed)  =", tr[1])
    return 0
