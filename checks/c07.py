"""C07 — every host entry leaves the VM balanced and the context reusable.

Proof:  coq/C07/Props_C07.v over coq/C07/Model_C07.v (VmStack): host_entry_balanced, host_history_balanced,
        no_engine_panic, failed_entries_invisible for the repaired transitions (fx_new), for *all* behaviour
        trees; balanced_refuted / each_fix_needed / invisible_refuted for the transitions of the unrepaired tree.
Tie:    generated histories of host entries (eval / call / construct / generator next,return,throw / run_jobs,
        nested re-entry through Reflect.apply / Reflect.construct, each completing normally, throwing, or hitting
        each runtime limit) are run by harness `vmops` on the real engine (vm_depths before/after every entry and
        at every `probe()` inside the running JavaScript) and by the extracted model (ocaml/C07) on the behaviour
        tree derived from the same plan; register counts come from CodeBlock::verif_dump.  All depths and
        completion classes are diffed.  The four repair flags of the model are calibrated against the
        implementation on every run, so the comparison is exact on the unrepaired and on the repaired tree.
Search: the property's own oracle on the implementation alone: long histories mixing completion kinds on one
        context under a small stack_size_limit (a) must leave frames/stack/host depth unchanged after every entry
        and (b) must answer the planned-successful entries exactly like a second context that ran only those.
"""
import json
import os
import random
import re
import subprocess
import sys
from concurrent.futures import ThreadPoolExecutor

import vlib
from vlib import Run, log

import c07_gen

PROP = "C07"
TRUSTED = [
    "Coq 8.16.1 kernel + vm_compute (no native_compute); theorems Closed under the global context",
    "hand-written model coq/C07/Model_C07.v transliterated from vm/mod.rs, object/operations.rs, builtins/function, native_function, script.rs, builtins/generator (tied by the depth correspondence only on the histories run)",
    "abstraction: value stack = its length, instructions of a frame = arbitrary push/pop above the register file (never below it: C03), handler tables as data, Yield only in generator frames, Generator opcode only in fresh frames",
    "extraction (ExtrOcamlBasic only) + OCaml 4.13 + ocaml/C07/driver.ml (S-expression reader, printer)",
    "gen/c07_gen.py (plan -> JavaScript and plan -> behaviour tree; control flow of catchable throws decided in Python)",
    "harness/src/bin/vmops.rs + cfg(boa_verif) hooks boa_engine::verif::vm_depths, CodeBlock::verif_dump (register counts are read from the implementation)",
]

FIX_NAMES = ["handle-throw-exit-early-caller", "uncatchable-error-unwind", "call-error-before-frame", "declaration-instantiation-error",
             "module-link-frame", "pending-exception"]
NFIX = len(FIX_NAMES)
FIX_WHAT = {
    "handle-throw-exit-early-caller": "Context::handle_throw returns Break at an EXIT_EARLY caller without truncate_to_frame: an uncaught throw from a callee of the entry frame leaves this/func/args/registers of both frames on the value stack",
    "uncatchable-error-unwind": "the uncatchable branch of Context::handle_error truncates only to the last popped frame (or not at all): every runtime-limit hit leaves the entry frame's this/func/args/registers on the value stack",
    "call-error-before-frame": "JsObject::call/construct return the Err of [[Call]]/[[Construct]] (limit in function_call, class constructor without new, ...) without popping the pushed this/func/args",
    "declaration-instantiation-error": "Script::prepare_run / perform_eval pop the frame on a declaration-instantiation error without truncating the value stack",
    "module-link-frame": "SourceTextModule::initialize_environment pushes this/func/registers with push_frame_with_stack and only pops the frame: every linked source-text module leaves 2 + register_count values on the value stack",
    "pending-exception": "the uncatchable branch of Context::handle_error leaves vm.pending_exception set (engine error inside a finally block that still has an exception to rethrow); a later generator.return() through try/finally rethrows the stale exception",
}

def load_corpus():
    """minimized past failures (one isolated scenario per repair site); they double as the calibration"""
    with open(os.path.join(vlib.CORPUS, "C07", "leaks.json")) as f:
        return [(c["fix"], c["setup"], c["op"]) for c in json.load(f)]


CALIB = load_corpus()
CLASS_OF = {k: ("stale-pending-exception" if k == 5 else "leak-" + FIX_NAMES[k]) for k in range(NFIX)}


# ------------------------------------------------------------------------------------------------
# running the two sides

def run_vmops(binpath, ops, timeout=600):
    try:
        p = subprocess.run(["nice", "-n", "10", binpath], input="\n".join(ops) + "\n", stdout=subprocess.PIPE,
                           stderr=subprocess.PIPE, text=True, timeout=timeout)
    except subprocess.TimeoutExpired:
        return None
    rows = []
    for line in p.stdout.split("\n"):
        if not line:
            continue
        f = line.split("\t")
        if len(f) < 7:
            continue
        def d(x):
            return None if x == "-" else tuple(int(t) for t in x.split(","))
        probes = [] if f[5] == "-" else [tuple(int(t) for t in q.split(":")) for q in f[5].split(";")]
        blocks = {} if f[6] == "-" else {b.rsplit(":", 2)[0]: int(b.rsplit(":", 2)[1]) for b in f[6].split(";")}
        # anonymous blocks following a named block are its class-field initialiser functions: <name>__f<k>
        if f[6] != "-":
            owner, k = None, 0
            for b in f[6].split(";"):
                name, regs = b.rsplit(":", 2)[0], int(b.rsplit(":", 2)[1])
                if name:
                    owner, k = name, 0
                elif owner is not None:
                    blocks["%s__f%d" % (owner, k)] = regs
                    k += 1
        rows.append({"op": f[1], "before": d(f[2]), "after": d(f[3]), "compl": f[4], "probes": probes, "blocks": blocks})
    return rows


def model_build():
    rc, out, err = vlib.sh([os.path.join(vlib.OCAML, "C07", "build.sh")], timeout=1200)
    if rc != 0:
        return None, (out + err)[-2000:]
    return out.strip().split("\n")[-1], ""


def run_model(driver, cases, timeout=900):
    """cases: list of (id, fxbits, rlimit, slimit, tree) -> {id: [obs strings] | 'ERROR ...'}"""
    inp = "\n".join("%s %s %d %d %s" % c for c in cases) + "\n"
    try:
        p = subprocess.run(["nice", "-n", "10", driver], input=inp, stdout=subprocess.PIPE, stderr=subprocess.PIPE, text=True, timeout=timeout)
    except subprocess.TimeoutExpired:
        return None
    res = {}
    for line in p.stdout.split("\n"):
        if "\t" not in line:
            continue
        i, o = line.split("\t", 1)
        res[i] = o if o.startswith("ERROR") else o.split(";")
    return res


MARK = 4000   # ids of the top-level markers (probe ids of a history stay far below)


def resolve_tree(entries, rows, modlink_fixed=True):
    """fill the symbolic register counts from the dumps; returns (tree, unresolved names).  The code block of a module
    cannot be dumped: its register count is derived from the first probe of the module body."""
    regs = {}
    for e, r in zip(entries, rows):
        for name, n in r["blocks"].items():
            if name == "<main>":
                if e.main:
                    regs[e.main] = n
            else:
                regs[name] = n
        mod = getattr(e, "module", None)
        if mod and r["probes"] and r["probes"][0][0] == e.first_probe and r["before"]:
            d = r["probes"][0][2] - r["before"][1]
            regs[mod] = (d - 2 if modlink_fixed else d // 2 - 2)
    missing = set()

    def sub(m):
        n = m.group(1)
        if n in regs:
            return str(regs[n])
        missing.add(n)
        return "0"
    parts = [re.sub(r"R:(\w+)", sub, e.ract) for e in entries]
    return "(" + " ".join(parts) + ")", missing, regs


def split_model_obs(obs, entries):
    """model observations per planned entry (a module entry is two top-level racts): list of dicts"""
    out = []
    cur = {"probes": [], "limit": None, "done": None, "untidy": False}
    groups = []
    for o in obs:
        f = o.split(":")
        if f[0] == "P":
            cur["probes"].append((int(f[1]), int(f[2]), int(f[3]), int(f[4])))
        elif f[0] == "L":
            if cur["limit"] is None:
                cur["limit"] = f[1]
        elif f[0] == "D":
            cur["done"] = f[1]
        elif f[0] == "U":
            cur["untidy"] = True
        elif f[0] == "E":
            cur["after"] = (int(f[1]), int(f[2]), int(f[3]), int(f[4]))
            groups.append(cur)
            cur = {"probes": [], "limit": None, "done": None, "untidy": False}
    k = 0
    for e in entries:
        n = getattr(e, "nracts", 2) if getattr(e, "module", None) else 1
        g = groups[k:k + n]
        k += n
        if len(g) != n:
            return None
        m = g[-1]
        if n >= 2:
            # module op = link + evaluate (+ the op's own run_jobs): completion of the evaluation unless run_jobs failed
            m = dict(g[1])
            if n == 3 and g[2]["done"] == "U":
                m["done"], m["limit"] = "U", g[2]["limit"]
            m["after"] = g[-1]["after"]
            m["probes"] = [p for x in g for p in x["probes"]]
            m["untidy"] = any(x["untidy"] for x in g)
        out.append(m)
    return out if k == len(groups) else None


def compl_class(c):
    """harness completion -> V | T | L:<kind> | other"""
    if c == "V":
        return "V"
    if c.startswith("T:"):
        return "T"
    return c


def model_compl(m, entry):
    d = m["done"]
    if d == "V":
        return "V"
    if d == "T":
        return "T"
    if d == "U":
        return "L:" + (m["limit"] if m["limit"] else "LoopIteration")
    return "X"


def compare_history(entries, rows, mobs):
    """first disagreement between implementation rows (rows[0] is the ctx line) and model observations, or None"""
    ms = split_model_obs(mobs, entries)
    if ms is None:
        return {"what": "model output does not have one group per planned entry"}
    for i, (e, r, m) in enumerate(zip(entries, rows[1:], ms)):
        ic = compl_class(r["compl"])
        mc = model_compl(m, e)
        ip = [(p[0], p[1], p[2], p[4]) for p in r["probes"]]
        ia = (r["after"][0], r["after"][1], r["after"][3], r["after"][2]) if r["after"] else None
        if ic != mc or ip != m["probes"] or ia != m["after"] or (m["untidy"] and r["before"][2] == 0):
            return {"entry": i, "op": e.op, "cat": e.cat, "impl": {"compl": r["compl"], "probes": ip, "after": ia},
                    "model": {"compl": mc, "probes": m["probes"], "after": m["after"]}}
    return None


# ------------------------------------------------------------------------------------------------

def calibrate(binpath):
    """which of the four repairs does /repo contain?  One isolated scenario per repair site."""
    ops = ["ctx 0 64 20000 200"]
    idx = []
    for k, setup, probe in CALIB:
        ops += setup
        idx.append(len(ops))
        ops.append(probe)
    rows = run_vmops(binpath, ops, timeout=120)
    if rows is None or len(rows) != len(ops):
        return None, None
    flags, leaks = [], []
    for (k, setup, probe), i in zip(CALIB, idx):
        r = rows[i]
        leak = r["after"][1] - r["before"][1]
        if k == 5:
            leak = r["after"][2]
        flags.append(leak == 0)
        leaks.append({"class": CLASS_OF[k], "ops": ["ctx 0 64 20000 200"] + setup + [probe], "before": r["before"], "after": r["after"],
                      "completion": r["compl"], "leak": leak})
    return flags, leaks


def classify(driver, entry_tree, rlimit, slimit, fxbits):
    """class label of an imbalanced entry, computed from the case itself: the smallest set of repairs (on top of the
    calibrated state of /repo, smallest first, then in the fixed order of FIX_NAMES) under which the model runs this
    entry from a clean state without leaving anything on the value stack"""
    import itertools
    missing = [k for k in range(NFIX) if fxbits[k] == "0"]
    subsets = []
    for n in range(1, len(missing) + 1):
        subsets += list(itertools.combinations(missing, n))
    cases = []
    for sub in subsets:
        b = "".join("1" if (k in sub or fxbits[k] == "1") else "0" for k in range(NFIX))
        cases.append(("s" + "".join(str(k) for k in sub), b, rlimit, slimit, "(%s)" % entry_tree))
    res = run_model(driver, cases, timeout=120) if cases else {}
    for sub in subsets:
        o = (res or {}).get("s" + "".join(str(k) for k in sub))
        if o and not isinstance(o, str) and int(o[-1].split(":")[2]) == 0 and not any(x.startswith("E:") and x.endswith(":1") for x in o):
            return CLASS_OF[sub[0]] if len(sub) == 1 else "leak-" + "+".join(FIX_NAMES[k] for k in sub)
    return "leak-unclassified"


def single_entry_tree(entries, rows, i):
    """the ract of entry i alone, register counts resolved"""
    regs = {}
    for e, r in zip(entries, rows):
        for name, n in r["blocks"].items():
            if name == "<main>":
                if e.main:
                    regs[e.main] = n
            else:
                regs[name] = n
    _, _, regs = resolve_tree(entries, rows)
    return re.sub(r"R:(\w+)", lambda m: str(regs.get(m.group(1), 0)), entries[i].ract)


def main():
    run = Run(PROP, "proof")
    rng = run.rng
    run.cov["rule"] = ("a case is one host entry of a generated history (eval / call / construct / generator method / run_jobs) run on the real "
                       "engine and on the extracted model: completion class, depths after the entry and at every probe() inside it are compared; "
                       "distinct = distinct (entry text, depths before); non-trivial = the entry pushes at least one frame or fails; "
                       "search cases = entries of long small-stack-limit histories checked for balance and against a context that ran only the successful ones")
    import time as _t
    T = {}
    t0 = _t.time()
    # 1-2. proofs + gates
    pr = vlib.proof_stage(PROP, ["Common", "C07"], "C07/Props_C07.v")
    run.set_proof(pr, TRUSTED)
    broken = None if pr["ok"] else pr["broken"]
    T['proof'] = round(_t.time() - t0, 1); t0 = _t.time()
    # 3. harness + model driver
    ok, paths, blog = vlib.harness_build(["vmops"])
    if not ok:
        if re.search(r"^error", blog, re.M):
            run.violation({"kind": "correspondence-broken", "obligation": "harness `vmops` no longer compiles against /repo (vm_depths / verif_dump hooks)",
                           "log": blog[-3000:]}, found_input=False)
            return run.finish()
        vlib.infra_error(PROP, "harness build failed: " + blog[-400:])
    vm = paths["vmops"]
    driver, derr = model_build()
    if driver is None:
        if broken is None:
            vlib.infra_error(PROP, "model driver build failed: " + derr[-400:])
        run.violation({"kind": "proof-broken", "obligation": "coq/C07 no longer compiles; the model could not be extracted", "detail": broken}, found_input=False)
        return run.finish()

    T['build'] = round(_t.time() - t0, 1); t0 = _t.time()
    # 4a. calibration = the four isolated leak scenarios (each an on-tree finding when it leaks)
    flags, leaks = calibrate(vm)
    if flags is None:
        vlib.infra_error(PROP, "calibration run of vmops failed")
    fxbits = "".join("1" if f else "0" for f in flags)
    if os.environ.get("VERIF_C07_FXBITS"):      # development only: sensitivity experiments with a mis-calibrated model
        fxbits = os.environ["VERIF_C07_FXBITS"]
        run.notes.append({"forced_fxbits": fxbits})
    run.cov["repairs_present_in_repo"] = dict(zip(FIX_NAMES, flags))
    findings = []
    for lk, f in zip(leaks, flags):
        run.count(("calib", lk["class"]))
        if not f:
            findings.append({"kind": "counterexample", "class": lk["class"], "input": lk["ops"], "impl_output": {k: lk[k] for k in ("before", "after", "completion", "leak")},
                             "obligation": "value-stack length after a host entry = length before (Props_C07.host_entry_balanced; model witness: Props_C07.each_fix_needed)",
                             "what": FIX_WHAT[FIX_NAMES[[c for c in CLASS_OF if CLASS_OF[c] == lk["class"]][0]]],
                             "how_to_rerun": "printf '%s\\n' " + " ".join("'%s'" % o for o in lk["ops"]) + " | harness/target/debug/vmops"})

    T['calibration'] = round(_t.time() - t0, 1); t0 = _t.time()
    # 4b. corpus histories (past disagreements, kept as raw ops): the balance oracle on every entry
    for fn in sorted(os.listdir(os.path.join(vlib.CORPUS, "C07"))):
        if fn == "leaks.json" or not fn.endswith(".json"):
            continue
        ch = json.load(open(os.path.join(vlib.CORPUS, "C07", fn)))
        crow = run_vmops(vm, ch["ops"], timeout=300) or []
        for o, r in zip(ch["ops"], crow):
            if r["op"] in ("ctx", "use", "limits") or not r["before"] or not r["after"]:
                continue
            run.count(("corpus", fn, o[:80], r["before"]))
            b_, a_ = r["before"], r["after"]
            if (a_[0], a_[1], a_[3]) != (b_[0], b_[1], b_[3]) or a_[2] != 0 or r["compl"].startswith("P:"):
                findings.append({"kind": "counterexample", "class": "corpus-" + fn[:-5] + "-unbalanced", "input": ch["ops"][:ch["ops"].index(o) + 1],
                                 "impl_output": {"before": b_, "after": a_, "completion": r["compl"]},
                                 "obligation": "depths after a host entry = depths before", "how_to_rerun": "./check replay <this file>"})
                break
    # 4c. correspondence on generated histories
    corr_bad = []
    dist = {}
    samples = 0
    profiles = []
    nh = 10 if run.quick else 120
    for k in range(nh):
        rich = (k % 3 != 2)
        if rich:
            profiles.append((rng.randrange(8, 40), 20000, 150, True, rng.randrange(25, 60)))
        else:
            profiles.append((rng.choice([rng.randrange(8, 40), 400]), rng.randrange(60, 700), 150, False, rng.randrange(40, 120)))
    cases = []
    hist = {}
    plans = []
    for k, (rl, sl, ll, rich, n) in enumerate(profiles):
        sub = random.Random(rng.getrandbits(64))
        ops, entries = c07_gen.history(sub, n, rl, sl, ll, rich=rich, burst=(30 if k == 2 else 0))
        plans.append((k, ops, entries, (rl, sl, ll)))
    with ThreadPoolExecutor(max_workers=4) as ex:
        results = list(ex.map(lambda pl: run_vmops(vm, pl[1], timeout=600), plans))
    for (k, ops, entries, lim), rows in zip(plans, results):
        rl, sl, ll = lim
        if rows is None or len(rows) != len(ops):
            run.notes.append({"discarded_history": k, "reason": "harness timeout or short output"})
            continue
        if any(r["compl"].startswith("P:") for r in rows):
            bad = next(r for r in rows if r["compl"].startswith("P:"))
            corr_bad.append({"history": k, "ops": ops, "first": {"what": "rust panic in the engine", "op": bad["op"], "compl": bad["compl"]}, "limits": (rl, sl, ll)})
            continue
        tree, missing, _ = resolve_tree(entries, rows[1:], flags[4])
        hist[str(k)] = (ops, entries, rows, (rl, sl, ll), missing)
        cases.append((str(k), fxbits, rl, sl, tree))
    T['harness_histories'] = round(_t.time() - t0, 1); t0 = _t.time()
    mres = run_model(driver, cases) or {}
    T['model'] = round(_t.time() - t0, 1); t0 = _t.time()
    for key, (ops, entries, rows, lim, missing) in hist.items():
        mo = mres.get(key)
        for e, r in zip(entries, rows[1:]):
            nontrivial = bool(r["probes"]) or r["compl"] != "V" or r["op"] != "eval"
            run.count((e.op, r["before"]), nontrivial=nontrivial)
            dist[e.cat] = dist.get(e.cat, 0) + 1
            lk = compl_class(r["compl"])
            dist["completion " + lk] = dist.get("completion " + lk, 0) + 1
        if mo is None or isinstance(mo, str):
            corr_bad.append({"history": key, "ops": ops, "first": {"what": "model driver failed: %s" % mo}, "limits": lim})
            continue
        first = compare_history(entries, rows, mo)
        if first is not None:
            if missing:
                first["unresolved_register_counts"] = sorted(missing)
            corr_bad.append({"history": key, "ops": ops, "first": first, "limits": lim})
        elif samples < 4:
            i = max(range(len(entries)), key=lambda j: len(rows[1 + j]["probes"]))
            run.sample({"op": entries[i].op[:400], "category": entries[i].cat, "before": rows[1 + i]["before"], "after": rows[1 + i]["after"],
                        "completion": rows[1 + i]["compl"], "probes(id,frames,stack,pending,hostdepth)": rows[1 + i]["probes"][:8], "model": "identical"})
            samples += 1
    run.cov["distribution"] = dist
    run.cov["histories"] = len(hist)

    # 5. search: the property's own oracle on the implementation (enlarged when a proof / correspondence broke)
    enlarged = (not run.quick) or broken is not None or bool(corr_bad)
    ns = 3 if not enlarged else 24
    nlen = 150 if not enlarged else 400
    search_found = []
    splans = []
    for k in range(ns):
        sub = random.Random(rng.getrandbits(64))
        rl, sl, ll = sub.choice([sub.randrange(10, 40), 400]), sub.randrange(80, 400), 120
        # the first search history survives 600 failed host constructions (field initialiser throws) in a row
        ops, entries = c07_gen.history(sub, nlen, rl, sl, ll, rich=False, fail_rate=0.6, burst=(600 if k == 0 else 0))
        good = [i for i, e in enumerate(entries) if e.outcome == c07_gen.NORMAL]
        ops_b = ["ctx 1 %d %d %d" % (rl, sl, ll)] + [entries[i].op for i in good]
        splans.append((k, ops, entries, good, ops_b, (rl, sl, ll)))
    with ThreadPoolExecutor(max_workers=4) as ex:
        sresults = list(ex.map(lambda pl: run_vmops(vm, pl[1] + pl[4], timeout=900), splans))
    for (k, ops, entries, good, ops_b, (rl, sl, ll)), both in zip(splans, sresults):
        if both is None or len(both) != len(ops) + len(ops_b):
            run.notes.append({"discarded_search_history": k})
            continue
        rows, rows_b = both[:len(ops)], both[len(ops):]
        first = None
        for i, (e, r) in enumerate(zip(entries, rows[1:])):
            run.count(("search", e.op, r["before"]), nontrivial=True)
            b, a = r["before"], r["after"]
            if r["compl"].startswith("P:") or r["compl"].startswith("E:"):
                first = (i, "engine-panic", r)
                break
            if (a[0], a[1], a[3]) != (b[0], b[1], b[3]) or a[2] != 0:
                first = (i, "imbalance", r)
                break
        bpos = {i: j for j, i in enumerate(good)}
        firstb = None
        for i in good:
            ra, rb = rows[1 + i], rows_b[1 + bpos[i]]
            if firstb is None and compl_class(ra["compl"]) != compl_class(rb["compl"]):
                firstb = (i, ra["compl"], rb["compl"])
        if first is not None:
            i, what, r = first
            if what == "imbalance":
                cls = classify(driver, single_entry_tree(entries, rows[1:], i), rl, sl, fxbits)
            else:
                cls = "engine-panic-in-host-entry"
            # shrink: the failing entry alone (plus the evals defining what it needs) is enough when it leaks by itself
            search_found.append({"kind": "counterexample", "class": cls, "input": ops[:i + 2], "failing_entry": entries[i].op, "category": entries[i].cat,
                                 "impl_output": {"before": r["before"], "after": r["after"], "completion": r["compl"]},
                                 "later_effect": (None if firstb is None else {"entry": entries[firstb[0]].op[:300], "on_this_context": firstb[1], "on_context_with_only_successful_entries": firstb[2]}),
                                 "obligation": "depths after a host entry = depths before; later answers independent of failed entries",
                                 "how_to_rerun": "./check replay <this file>"})
        elif firstb is not None:
            search_found.append({"kind": "counterexample", "class": "failed-entries-visible", "input": ops, "impl_output": {"entry": entries[firstb[0]].op[:300], "full_history": firstb[1], "successes_only": firstb[2]},
                                 "obligation": "answers of successful entries independent of failed entries", "how_to_rerun": "./check replay <this file>"})
    run.cov["search_histories"] = ns
    sf = {}
    for f in search_found:
        sf[f["class"]] = sf.get(f["class"], 0) + 1
    run.cov["search_found_by_class"] = sf
    run.cov["search_found_with_later_effect"] = sum(1 for f in search_found if f.get("later_effect"))
    run.cov["search_entries_per_history"] = nlen

    T['search'] = round(_t.time() - t0, 1)
    run.cov['timing_s'] = T
    # verdicts
    seen = set()
    for f in findings + search_found:
        if f["class"] in seen:
            continue
        seen.add(f["class"])
        if f["class"] == "stale-pending-exception":
            f.setdefault("what", FIX_WHAT["pending-exception"])
        elif f["class"].startswith("leak-") and f["class"] != "leak-unclassified":
            parts = f["class"][5:].split("+")
            f.setdefault("what", "; ".join(FIX_WHAT.get(p, p) for p in parts))
        run.violation(f)
    for cb in corr_bad[:3]:
        run.violation({"kind": "correspondence-broken", "input": cb["ops"], "limits(rec,stack,loop)": cb["limits"], "first_disagreement": cb["first"],
                       "repairs_calibrated": fxbits, "obligation": "coq/C07/Model_C07.v (extracted) vs vm_depths of the implementation on a generated history",
                       "how_to_rerun": "./check replay <this file>"}, found_input=bool(findings or search_found))
    if broken is not None and not corr_bad and not findings and not search_found:
        run.violation({"kind": "proof-broken", "obligation": "coq/C07/Props_C07.v", "detail": broken,
                       "search": "%d histories of %d entries found no imbalanced entry" % (ns, nlen)}, found_input=False)
    elif broken is not None:
        run.notes.append({"proof_broken": broken})
    run.assumptions = TRUSTED
    return run.finish()


def replay(obj):
    ok, paths, _ = vlib.harness_build(["vmops"])
    ops = obj.get("input") or []
    rows = run_vmops(paths["vmops"], ops, timeout=300)
    bad = 0
    for o, r in zip(ops, rows or []):
        b, a = r["before"], r["after"]
        unbalanced = bool(b and a and r["op"] not in ("ctx", "use", "limits") and (a[0], a[1], a[3]) != (b[0], b[1], b[3]))
        bad += unbalanced
        print("%-60s before=%s after=%s %s%s" % (o[:60], b, a, r["compl"], "   <-- unbalanced" if unbalanced else ""))
    return 1 if bad else 0
