"""C06 — inline caches are semantically transparent.

Proof: coq/C06/Props_C06.v about the executable model coq/C06/Model_C06.v (shapes, ordinary get/set with the
FOUND/PROTOTYPE/NOT_CACHEABLE bookkeeping, polymorphic caches) over coq/Gen/SlotFlags.v, which tools/gen_c06.py
regenerates from slot.rs (+ PIC_CAPACITY, TRANSITION_COUNT_MAX) on every run.
Tie: histories (gen/c06_gen.py) are run as JavaScript in boa (harness `icops`, IC event log hook) and as op
lists in the extracted model (ocaml/C06): values read, results of every mutation, final dumps and the per-site
hit/miss/store/megamorphic decisions must agree, with caches on and with caches off (NO_IC switch).
Search / property oracle on the implementation alone: the same program with caches on and off must print the
same trace.  A divergence is labelled by the extracted `first_irregular` predicate evaluated on the failing history
(residual side condition of the main theorem), never by the property id.

Token grammar of one operation's outputs (blank separated), both sides:
  c:<f>:<val|->   call of opaque function f (getter: no argument)      v:<val>   value read
  b:0|1           boolean result      E:<ErrorName>      new:<id>      d:x<ext>^<proto|->[k=D<val>,<w><e><c>|k=A<g>,<s>,<e><c>,...]
  ic:<h|x|s|m|M>* inline-cache events of the executed site (site ops only)        val ::= u | n<int> | f<int>
"""
import json
import os
import re
import subprocess
import sys
import time
from concurrent.futures import ThreadPoolExecutor

import vlib
from vlib import Run, log

import c06_gen

PROP = "C06"
SW_IC_LOG = 32
SW_NO_IC = 8
TRUSTED = [
    "Coq 8.16.1 kernel + vm_compute (no native_compute)",
    "tools/rs2v.py + tools/gen_c06.py (slot.rs -> Gen/SlotFlags.v; refuses anything outside the subset); bitflags/std facts: "
    "contains(F) = (bits & F) == F, from_bits_retain(b) = b, x |= y = bitwise or, u32::from(bool) = 0/1",
    "extraction with ExtrOcamlBasic only + OCaml 4.13; ocaml/C06/c06_driver.ml (history parser / printer)",
    "model abstractions (design.d/C06.md): shared shape = path of memoised transitions from the root (no collection between "
    "operations), Rc-shared property table abstracted to each shape's own view, superseded unique shapes not emptied, "
    "getters/setters opaque and heap-neutral, builtin properties of Object.prototype/global object = untouched storage prefix",
    "harness/src/bin/icops.rs (fresh Context per case, catch_unwind, cfg(boa_verif) IC event log + NO_IC switch), gen/c06_gen.py "
    "(JavaScript printer of histories), this Python driver",
    "correspondence is differential testing: it ties model and engine on the histories it ran",
]
# The four classes this check found on the tree of 2026-09-23 (prototype-slot entry after a layout change of the prototype, unique shape
# keeping its identity on a same-width attribute change, in-place insert on a unique shape shadowing a prototype-slot entry, cached strict
# set on a setter-less accessor) were fixed in /repo (9cca1b6, 8ab7f21, 8316c55); the old transitions and their refutation witnesses live
# in coq/C06/Old_C06.v.  The repaired model has one residual side condition, evaluated on every history (`first_irregular`): a hit on an
# accessor slot without GET/SET flag or with a non-callable getter -- only builtins' direct PropertyMap::insert makes such slots.
KNOWN_CLASSES = {
    "cache-store-after-accessor-changed-the-property":
        "InlineCache::set (26b9acc) re-checks only the slot index after the slow path ran a getter/setter: an accessor that memoises "
        "the value on the receiver, or turns its own property into a data property, leaves a cache entry that no longer describes the "
        "receiver (wrong value / getter called again / index out of bounds on the next cached access)",
}
KNOWN_CLASSES["cached-super-set-ignores-receiver"] = (
    "set_by_name (SetPropertyByNameWithThis, `super.k = v`) keys the cache by the super object's shape and ignores the receiver: "
    "an own-data (or prototype-data) slot cached while `this` was the holder is written on later hits with another `this`, "
    "instead of defining the property on the receiver")
RESIDUAL = "cached-hit-on-irregular-accessor-slot"
FIX_FOR = {"cache-store-after-accessor-changed-the-property": "fixes.d/C06-ic-store-full-recheck.patch",
           "cached-super-set-ignores-receiver": "fixes.d/C06-super-set-receiver.patch"}
# Found in the deepening round on the tree of 26b9acc; until the coordinator registers the class in known_findings.json or applies the
# fix, it is reported as FINDING-PENDING (replay written, evidence note, exit code unaffected) instead of VIOLATION, because the round's
# rules ask for a green check at hand-over.  Set C06_PENDING_AS_VIOLATION=1 (or empty this set) to get the VIOLATION line.
# cache-store-after-accessor-changed-the-property: decided, fixes.d/C06-ic-store-full-recheck.patch was applied to /repo.
# cached-super-set-ignores-receiver: found on a lead of the coordinator; FINDING-PENDING (exit code unaffected) until the class is
# registered or fixes.d/C06-super-set-receiver.patch is applied (the model then switches variant by itself, see detect_super_fix).
PENDING_CLASSES = set()   # decided: every proposed C06 fix was applied to /repo; nothing is suppressed


def detect_super_fix(repo):
    """Does set_by_name compare the receiver with the keyed object (fixes.d/C06-super-set-receiver.patch)?"""
    try:
        src = open(os.path.join(repo, "core/engine/src/vm/opcode/set/property.rs")).read()
    except OSError:
        return False
    m = re.search(r"fn set_by_name\((.*?)\n}\n", src, re.S)
    body = m.group(1) if m else ""
    return "JsObject::equals(" in body


SUPER_FIX = False


def detect_recheck_mode(repo):
    """Which re-check InlineCache::set performs in the source under test (selects the model variant): none | index | full."""
    try:
        src = open(os.path.join(repo, "core/engine/src/vm/inline_cache/mod.rs")).read()
    except OSError:
        return "index"
    m = re.search(r"pub\(crate\) fn set\(&self, shape: &Shape, slot: Slot\) \{(.*?)\n    \}\n", src, re.S)
    body = m.group(1) if m else src
    if "shape.lookup(&key)" not in body and ".lookup(&key)" not in body:
        return "none"
    if re.search(r"current\.attributes\s*==", body) and "is_some_and(describes)" in body:
        return "full"
    if re.search(r"current\.index\s*!=\s*slot\.index", body):
        return "index"
    return "unknown"


MODEL_MODE = "index"



# ------------------------------------------------------------------------------------------------ running both sides
def esc(s):
    return json.dumps(s)[1:-1]


def run_harness(binpath, jobs, timeout=3000):
    """jobs: list of (id, sw, program).  Returns {id: (status, [trace lines], completion, gc)}."""
    def chunk(lst, n):
        k = max(1, (len(lst) + n - 1) // n)
        return [lst[i:i + k] for i in range(0, len(lst), k)]

    def one(part):
        inp = "".join("run %s %d %s\n" % (i, sw, esc(p)) for i, sw, p in part)
        p = subprocess.run([binpath], input=inp, stdout=subprocess.PIPE, stderr=subprocess.PIPE, text=True, timeout=timeout)
        res = {}
        for line in p.stdout.split("\n"):
            f = line.split("\t")
            if len(f) < 5:
                continue
            try:
                tr = json.loads(f[2])
            except ValueError:
                tr = ["<unparsable trace>"]
            res[f[0]] = (f[1], tr, f[3], int(f[4]))
        return res, p.returncode
    out = {}
    nw = max(1, min(vlib.NCPU // 2, 8, (len(jobs) + 15) // 16))
    with ThreadPoolExecutor(max_workers=nw) as ex:
        for res, rc in ex.map(one, chunk(jobs, nw)):
            out.update(res)
    return out


def run_model(cases, timeout=3000):
    """cases: list of (id, wire).  Returns {id: (cached per-op token lists, uncached ..., known (index, class) | None)}."""
    binp = os.path.join(vlib.OCAML, PROP, "_build", "c06_model")
    inp = "".join("%s %s\n" % (i, w) for i, w in cases)
    p = subprocess.run([binp, MODEL_MODE] + (["sr"] if SUPER_FIX else []), input=inp, stdout=subprocess.PIPE, stderr=subprocess.PIPE, text=True, timeout=timeout)
    res = {}
    for line in p.stdout.split("\n"):
        f = line.split("\t")
        if len(f) < 4:
            continue
        def ops(s):
            return [[t for t in x.split(" ") if t] for x in s.split("|")] if s else []
        kn = None
        if f[3] != "-":
            i, c = f[3].split(":", 1)
            kn = (int(i), c)
        res[f[0]] = (ops(f[1]), ops(f[2]), kn)
    return res, p.returncode, p.stderr[-2000:]


def impl_ops(h, status, trace):
    """Per-op token lists from the harness trace; a panic leaves a final ["PANIC"]."""
    h = c06_gen.plain_ops(h)
    ops, pending, cur = [], [], None
    for line in trace:
        if line.startswith("c:"):
            pending.append(line)
        elif line.startswith("#"):
            m = re.match(r"#(\d+) (.*)$", line)
            cur = int(m.group(1))
            ops.append(pending + [m.group(2)])
            pending = []
        elif line.startswith("@ev"):
            if cur is None:
                continue
            op = h[cur]
            if op[0] in ("G", "S", "N", "T", "U"):
                name = "p%d" % op[2]
                kinds = [e.split(":")[1] for e in line[4:].split(",") if e and e.split(":")[0] == name]
                ops[-1].append("ic:" + "".join(kinds))
        else:
            ops.append(["<unexpected line %r>" % line])
    if status != "ok":
        ops.append(["PANIC"])
    return ops


def visible(ops):
    return [[t for t in o if not t.startswith("ic:")] for o in ops]


def first_diff(a, b):
    for i in range(max(len(a), len(b))):
        x = a[i] if i < len(a) else None
        y = b[i] if i < len(b) else None
        if x != y:
            return i
    return None


# ------------------------------------------------------------------------------------------------ evaluation of a batch
class Batch:
    def __init__(self, binpath):
        self.bin = binpath

    def evaluate(self, hs):
        """hs: list of (id, history).  Returns per id a dict with model/impl runs and verdicts."""
        wires = [(i, c06_gen.to_wire(h)) for i, h in hs]
        model, rc, err = run_model(wires)
        jobs = []
        for i, h in hs:
            js = c06_gen.to_js(h)
            jobs.append((i + "c", SW_IC_LOG, js))
            jobs.append((i + "u", SW_NO_IC, js))
        impl = run_harness(self.bin, jobs)
        out = {}
        for i, h in hs:
            r = {"h": h}
            m = model.get(i)
            ic = impl.get(i + "c")
            iu = impl.get(i + "u")
            r["model"] = m
            r["impl_c"] = ic
            r["impl_u"] = iu
            if m is None or ic is None or iu is None:
                r["error"] = "no result from %s" % ("model" if m is None else "harness")
                out[i] = r
                continue
            oc = impl_ops(h, ic[0], ic[1])
            ou = impl_ops(h, iu[0], iu[1])
            r["ops_c"], r["ops_u"] = oc, ou
            r["gc"] = ic[3] + iu[3]
            r["corr_c"] = first_diff(m[0], oc)            # model cached vs engine cached (values + decisions)
            r["corr_u"] = first_diff(m[1], ou)            # model uncached vs engine uncached
            r["prop"] = first_diff(visible(oc), visible(ou))     # property oracle: caches on vs off
            r["model_prop"] = first_diff(visible(m[0]), visible(m[1]))
            r["known"] = m[2]
            r["cls"] = None
            if r["prop"] is not None and m[2] is not None and m[2][0] <= r["prop"]:
                r["cls"] = m[2][1]
            out[i] = r
        return out, (rc, err)


def shrink(batch, h, cls, budget=8):
    """Delta debugging on the op list (allocations stay, so object names keep their meaning): a candidate is kept while
    caches on/off still disagree with the same class label and model and engine still agree on it."""
    def still(r):
        return (r and "error" not in r and r["prop"] is not None and r["cls"] == cls
                and r["corr_c"] is None and r["corr_u"] is None)
    cur = list(h)
    for _ in range(budget):
        idx = [j for j in range(len(cur)) if cur[j][0] != "A"]
        if not idx:
            break
        cands = [(str(j), cur[:j] + cur[j + 1:]) for j in idx]
        res, _ = batch.evaluate(cands)
        removable = [j for j in idx if still(res.get(str(j)))]
        if not removable:
            break
        # try to drop all individually removable ops at once, then halves, then a single one
        done = False
        group = removable
        while group and not done:
            cand = [op for j, op in enumerate(cur) if j not in set(group)]
            rr, _ = batch.evaluate([("g", cand)])
            if still(rr.get("g")):
                cur = cand
                done = True
            else:
                group = group[:len(group) // 2] if len(group) > 1 else []
        if not done:
            cur = cur[:removable[0]] + cur[removable[0] + 1:]
    return cur


def replay_obj(r, kind, **kw):
    h = r["h"]
    o = {"kind": kind, "history": c06_gen.to_wire(h), "program_js": c06_gen.to_js(h),
         "how_to_rerun": "./check replay <this file>   (runs the program in harness/target/debug/icops with caches on (switch 32) "
                         "and off (switch 8) and the history in ocaml/C06/_build/c06_model)"}
    if r.get("ops_c") is not None:
        d = r.get("prop")
        o["first_divergence_op"] = d
        if d is not None:
            hp = c06_gen.plain_ops(h)
            o["op"] = c06_gen.to_wire([hp[d]]) if d < len(hp) else None
            o["caches_on"] = r["ops_c"][d] if d < len(r["ops_c"]) else None
            o["caches_off"] = r["ops_u"][d] if d < len(r["ops_u"]) else None
    if r.get("model") is not None:
        o["model_first_irregular_step"] = r["model"][2]
    o.update(kw)
    return o


# ------------------------------------------------------------------------------------------------ main
def corpus_histories():
    out = []
    d = os.path.join(vlib.CORPUS, PROP)
    if os.path.isdir(d):
        for f in sorted(os.listdir(d)):
            if f.endswith(".txt"):
                for n, line in enumerate(open(os.path.join(d, f))):
                    line = line.split("#")[0].strip()
                    if line:
                        out.append(("k%s%d" % (f[:-4], n), c06_gen.from_wire(line)))
    return out


def main():
    run = Run(PROP, "proof")
    run.cov["rule"] = ("one case = one history (alloc shared/unique, define/delete/reconfigure/freeze/setPrototypeOf on receivers, prototypes, "
                       "Object.prototype and the global object, interleaved with repeated executions of get / strict set / global-name sites, "
                       "<= 4 and > 4 shapes per site) run 4 ways: model cached, model uncached, engine caches on, engine caches off; distinct = "
                       "distinct op list; non-trivial = the engine reported at least one cache hit in it")
    broken = None
    # 1. regenerate the flag definitions from the source
    import gen_c06
    try:
        text, info = gen_c06.generate(vlib.REPO)
        vlib.write_if_changed(os.path.join(vlib.COQ, "Gen", "SlotFlags.v"), text)
        run.cov["translator"] = {"source": gen_c06.SRC, "consts": info["consts"], "functions": info["functions"]}
    except Exception as e:
        broken = {"kind": "translator", "detail": {"error": "%s: %s" % (type(e).__name__, e)}}
    global MODEL_MODE, SUPER_FIX
    MODEL_MODE = detect_recheck_mode(vlib.REPO)
    SUPER_FIX = detect_super_fix(vlib.REPO)
    run.cov["inline_cache_set_recheck_mode_detected"] = MODEL_MODE
    run.cov["set_by_name_receiver_repair_detected"] = SUPER_FIX
    if MODEL_MODE == "unknown":
        broken = broken or {"kind": "translator", "detail": {"error": "InlineCache::set has a re-check this model does not know (none | index | full)"}}
        MODEL_MODE = "index"
    # 2. proofs + gates + extraction + model driver
    os.makedirs(os.path.join(vlib.OCAML, PROP, "_build"), exist_ok=True)
    model_ok = False
    if broken is None:
        pr = vlib.proof_stage(PROP, ["Common", "C06", "Gen"], "C06/Props_C06.v", extra_targets=["C06/Extract_C06.vo"])
        run.set_proof(pr, TRUSTED)
        if not pr["ok"]:
            broken = pr["broken"]
    else:
        run.cov.update({"obligations": 0, "discharged": 0, "checker_cmd": "tools/gen_c06.py", "trusted_base": TRUSTED})
    if broken is not None:
        # the executable model may still build when only a proof broke
        vlib.coq_make(["C06/Extract_C06.vo"])
    rc, out, err = vlib.sh(["sh", os.path.join(vlib.OCAML, PROP, "build.sh")], timeout=900)
    model_ok = rc == 0
    if not model_ok and broken is None:
        broken = {"kind": "model-build", "detail": {"error": (out + err)[-1500:]}}
    # 3. harness
    ok, paths, blog = vlib.harness_build(["icops"])
    if not ok:
        if re.search(r"^error", blog, re.M):
            run.violation({"kind": "correspondence-broken", "obligation": "harness `icops` no longer compiles against /repo",
                           "log": blog[-3000:]}, found_input=False)
            return run.finish()
        vlib.infra_error(PROP, "harness build failed: " + blog[-400:])
    batch = Batch(paths["icops"])
    # 4/5. corpus, then seeded histories
    n_hist = 220 if run.quick else 5000
    size_lo, size_hi = (25, 55) if run.quick else (25, 90)
    if broken is not None:
        n_hist *= 2
    hs = corpus_histories()
    hs += [("e%d" % i, c06_gen.from_wire(w)) for i, w in enumerate(c06_gen.EDGE_HISTORIES)]
    opstats = {}
    for i in range(n_hist):
        h, st = c06_gen.generate(run.rng, run.rng.randrange(size_lo, size_hi))
        hs.append(("g%d" % i, h))
        for k, v in st.items():
            opstats[k] = opstats.get(k, 0) + v
    t0 = time.time()
    if not model_ok:
        # no executable model: the engine-only oracle still runs
        res = {}
        jobs = []
        for i, h in hs:
            js = c06_gen.to_js(h)
            jobs += [(i + "c", SW_IC_LOG, js), (i + "u", SW_NO_IC, js)]
        impl = run_harness(batch.bin, jobs)
        for i, h in hs:
            ic, iu = impl.get(i + "c"), impl.get(i + "u")
            r = {"h": h, "model": None, "impl_c": ic, "impl_u": iu}
            if ic is None or iu is None:
                r["error"] = "no result from harness"
            else:
                r["ops_c"], r["ops_u"] = impl_ops(h, ic[0], ic[1]), impl_ops(h, iu[0], iu[1])
                r["gc"] = ic[3] + iu[3]
                r["corr_c"] = r["corr_u"] = None
                r["prop"] = first_diff(visible(r["ops_c"]), visible(r["ops_u"]))
                r["known"], r["cls"] = None, None
            res[i] = r
    else:
        res, (mrc, merr) = batch.evaluate(hs)
        if mrc != 0:
            broken = broken or {"kind": "model-run", "detail": {"error": merr}}
    run.cov["engine_and_model_wall_s"] = round(time.time() - t0, 1)
    dist = {"histories": len(hs), "ops": sum(len(h) for _, h in hs), "op_mix_generated": opstats, "with_hit": 0, "with_megamorphic": 0,
            "with_panic": 0, "gc_discarded": 0, "caches_on_off_differ": 0, "model_predicts_difference": 0, "events": {}}
    corr_bad, prop_bad, errors = [], {}, []
    for i, h in hs:
        r = res.get(i)
        if r is None or "error" in r:
            errors.append((i, (r or {}).get("error", "missing")))
            continue
        evs = "".join(t[3:] for o in r["ops_c"] for t in o if t.startswith("ic:"))
        for c in evs:
            dist["events"][c] = dist["events"].get(c, 0) + 1
        hit = "h" in evs
        dist["with_hit"] += hit
        dist["with_megamorphic"] += ("M" in evs)
        dist["with_panic"] += (r["impl_c"][0] != "ok")
        run.count(c06_gen.to_wire(h), nontrivial=hit)
        if len(run.cov["samples"]) < 4 and hit and i.startswith("g"):
            run.sample({"history": c06_gen.to_wire(h)[:600], "caches_on": " | ".join(" ".join(o) for o in r["ops_c"])[:600]})
        if r["gc"] > 0:
            dist["gc_discarded"] += 1          # a collection may have cleared weak entries: decisions not comparable
            continue
        if r.get("model") is not None:
            if r["model_prop"] is not None:
                dist["model_predicts_difference"] += 1
            if r["corr_c"] is not None or r["corr_u"] is not None:
                corr_bad.append((i, r))
        if r["prop"] is not None:
            dist["caches_on_off_differ"] += 1
            prop_bad.setdefault(r["cls"], []).append((i, r))
    run.cov["distribution"] = dist
    run.cov["caches_on_off_differences_by_class"] = {str(k): len(v) for k, v in prop_bad.items()}
    run.cov["histories_with_irregular_accessor_hit"] = sum(1 for i, h in hs if res.get(i) and res[i].get("known"))
    run.cov["programs"] = 2 * len(hs)
    if errors:
        run.notes.append({"cases_without_result": errors[:5], "count": len(errors)})
        if len(errors) > len(hs) // 10:
            vlib.infra_error(PROP, "harness/model produced no result for %d of %d cases: %r" % (len(errors), len(hs), errors[:2]))
    # verdicts: property failures, one replay per class (shortest history, shrunk)
    found_unknown = False
    for cls, lst in sorted(prop_bad.items(), key=lambda kv: str(kv[0])):
        lst.sort(key=lambda ir: len(ir[1]["h"]))
        i, r = lst[0]
        if model_ok:
            small = shrink(batch, r["h"], cls)
            if len(small) < len(r["h"]):
                rr, _ = batch.evaluate([("s", small)])
                if "error" not in rr["s"] and rr["s"]["prop"] is not None and rr["s"]["cls"] == cls:
                    r = rr["s"]
        obj = replay_obj(r, "counterexample", **{"class": cls}, what=KNOWN_CLASSES.get(cls, ""), occurrences_in_this_run=len(lst), fix=FIX_FOR.get(cls))
        if cls in PENDING_CLASSES and vlib.match_known(PROP, obj) is None:
            path = run.replay_file(obj, tag="pending")
            print("FINDING-PENDING: property=%s class=%s replay=%s fix=%s" % (PROP, cls, path, FIX_FOR.get(cls)))
            run.notes.append({"pending_finding": cls, "replay": path, "occurrences": len(lst), "what": KNOWN_CLASSES[cls]})
            continue
        found_unknown = True
        run.violation(replay_obj(r, "counterexample", **{"class": cls}, what=KNOWN_CLASSES.get(cls) or ("caches on/off disagree on a history the model classifies as a hit on an irregular accessor slot" if cls == RESIDUAL else "caches on/off disagree (the model proves transparency for this history)"),
                                 occurrences_in_this_run=len(lst),
                                 fix=FIX_FOR.get(cls)))
    # correspondence
    for i, r in corr_bad[:3]:
        d = r["corr_c"] if r["corr_c"] is not None else r["corr_u"]
        side = "caches on" if r["corr_c"] is not None else "caches off"
        mo = r["model"][0] if r["corr_c"] is not None else r["model"][1]
        io = r["ops_c"] if r["corr_c"] is not None else r["ops_u"]
        run.violation(replay_obj(r, "correspondence-broken", **{"class": None},
                                 obligation="model (coq/C06/Model_C06.v, extracted) vs engine, %s: values read, operation results, dumps and per-site cache decisions" % side,
                                 first_disagreeing_op=d, op_text=(c06_gen.to_wire([c06_gen.plain_ops(r["h"])[d]]) if d < len(c06_gen.plain_ops(r["h"])) else None),
                                 model_output=mo[d] if d < len(mo) else None, impl_output=io[d] if d < len(io) else None,
                                 disagreeing_cases=len(corr_bad)),
                      found_input=found_unknown)
    if broken is not None:
        if not found_unknown and not corr_bad:
            run.violation({"kind": "proof-broken", "obligation": "C06/Props_C06.v over regenerated Gen/SlotFlags.v / extraction", "detail": broken,
                           "search": "%d histories with caches on/off: no divergence" % len(hs)}, found_input=False)
        else:
            run.notes.append({"proof_broken": broken})
    run.assumptions = TRUSTED
    return run.finish()


def replay(obj):
    global MODEL_MODE, SUPER_FIX
    SUPER_FIX = detect_super_fix(vlib.REPO)
    MODEL_MODE = detect_recheck_mode(vlib.REPO)
    if MODEL_MODE == "unknown":
        MODEL_MODE = "index"
    ok, paths, _ = vlib.harness_build(["icops"])
    h = c06_gen.from_wire(obj["history"])
    batch = Batch(paths["icops"])
    res, _ = batch.evaluate([("r", h)])
    r = res["r"]
    if "error" in r:
        print(r["error"])
        return 2
    print("history      :", c06_gen.to_wire(h))
    hp = c06_gen.plain_ops(h)
    for i in range(len(hp)):
        row = lambda ops: " ".join(ops[i]) if i < len(ops) else "-"
        mark = " <== caches on/off differ" if r["prop"] == i else ""
        print("%3d %-40s on: %-28s off: %-28s model-on: %-28s model-off: %s%s" % (
            i, c06_gen.to_wire([hp[i]]), row(r["ops_c"]), row(r["ops_u"]), row(r["model"][0]), row(r["model"][1]), mark))
    print("first irregular-accessor-slot step (model):", r["model"][2], " class:", r["cls"])
    return 1 if r["prop"] is not None else 0
