"""C17 — module graphs evaluate each module once, in dependency order.

Proof: coq/C17/Props_C17.v (18 theorems: Evaluate() on synchronous graphs of any size and shape; Link() without link errors;
the load phase on any graph) about the executable model
coq/C17/Modules.v (a transliteration of core/engine/src/module/source.rs + mod.rs).  Tie: correspondence — the extracted
model (ocaml/C17/_build/model) and the harness `modops` (real engine, public module API, logging ModuleLoader) run on
the same graph descriptions and every result line (print trace, promise state, loader log per op) is diffed.  Search: the
property's own oracle (gen/c17_oracle.py, independent of model and engine) is evaluated on every implementation result.

The model carries the current and the repaired behaviour of three asynchronous deviations (Modules.cfg; repairs in
fixes.d/C17-*.patch); which one the working tree has is determined by probe cases before the correspondence runs.
"""
import itertools
import os
import re
import subprocess
import time
from concurrent.futures import ThreadPoolExecutor

import vlib
from vlib import Run, log

import c17_graphs as G
import c17_oracle as O

PROP = "C17"
TRUSTED = [
    "Coq 8.16.1 kernel (no native_compute; vm_compute only in one Example); extraction with ExtrOcamlBasic only, OCaml 4.13",
    "hand-written model coq/C17/Modules.v (transliteration of module/source.rs, module/mod.rs); tied to the code only by the correspondence runs",
    "ocaml/C17/driver.ml (case parser, printer), harness/src/bin/modops.rs (source generation, logging loader, catch_unwind), gen/c17_*.py",
    "modelled, not verified: SimpleJobExecutor FIFO promise-job order, futures-concurrency 7.7.1 FutureGroup slot order (loader call order; compared exactly, "
    "downgraded to a multiset comparison when only the order differs), one job per `await`, debug-build assertions",
    "theorems cover Evaluate() on graphs without top-level await, from a state `Ready` (what linking establishes; shown re-established by every "
    "evaluation, established by Link() on graphs without link errors) and the load phase (loaded_once); link errors, the composition load+link+"
    "evaluate and graphs with top-level await are correspondence-checked only",
    "which variant of Modules.cfg (current / repaired async deviations) the tree has is decided by 5 probe cases, not proved",
]
FLAG_CHOICES = ["", "t", "a", "at", "aT", "aa"]
MODEL_BIN = os.path.join(vlib.OCAML, "C17", "_build", "model")
# probe cases that tell the variants of Modules.cfg apart (model flag -> cases)
PROBES = ["a:;t:n0 | L1,L0,L1", "a:;t:s0;-:i1 | L2,L1", "a:;-:e0,s2;-:s0,s1 | L2,L1,L0,L2",
          "aa:x1,s2,i4;aa:n4;-:s3,n4;a:n0;a: | L3,L2,L0", "a:;-:n0,n2;-:n1 | L1,L2"]
FLAGS = ["--reject-m", "--own-pending", "--gather-keeps"]
VARIANTS = [[f for k, f in enumerate(FLAGS) if mask >> k & 1] for mask in range(8)]


def run_lines(binpath, lines, per_case_s=0.05, floor_s=120, args=()):
    """Run a line-oriented binary over the lines in parallel chunks.  Returns (outputs, n_timeouts)."""
    if not lines:
        return [], 0
    binpath = [binpath] + list(args)
    nchunks = min(len(lines), max(1, vlib.NCPU) * 2)
    size = (len(lines) + nchunks - 1) // nchunks
    chunks = [lines[i:i + size] for i in range(0, len(lines), size)]

    def one(chunk):
        try:
            p = subprocess.run(binpath, input="\n".join(chunk) + "\n", stdout=subprocess.PIPE, stderr=subprocess.PIPE,
                               text=True, timeout=floor_s + per_case_s * len(chunk) * 20)
            out = p.stdout.split("\n")
            if out and out[-1] == "":
                out.pop()
            if len(out) == len(chunk):
                return out, 0
        except subprocess.TimeoutExpired:
            pass
        # fall back to one process per line (a crash or hang is attributed to its line)
        outs, to = [], 0
        for l in chunk:
            try:
                p = subprocess.run(binpath, input=l + "\n", stdout=subprocess.PIPE, stderr=subprocess.PIPE, text=True, timeout=60)
                o = p.stdout.strip().split("\n")[0] if p.stdout.strip() else "X-outer:exit %d" % p.returncode
            except subprocess.TimeoutExpired:
                o, to = "TIMEOUT", to + 1
            outs.append(o)
        return outs, to

    outs, tos = [], 0
    with ThreadPoolExecutor(max_workers=max(1, vlib.NCPU)) as ex:
        for o, t in ex.map(one, chunks):
            outs += o
            tos += t
    return outs, tos


def exhaustive_cases(run):
    """(family, case) for every shape up to the tier's size."""
    rng = run.rng
    out = []
    nmax = 3 if run.quick else 4
    for n in range(1, nmax + 1):
        if n <= 3:
            shapes = list(G.shapes(n))
            fam = "exh%d-orders" % n
        else:
            shapes = list(G.edge_shapes(n))
            fam = "exh%d-edges" % n
        for sh in shapes:
            # the shape sets are closed under renaming of modules, so entry 0 over all shapes covers every entry up to
            # renaming; the thorough tier also runs the other entries of the 3-module shapes explicitly
            entries = range(n) if (n <= 2 or (n == 3 and not run.quick)) else [0]
            for e in entries:
                ops = G.default_ops(rng, n, entry=e)
                # all reads, no flags: the synchronous skeleton of the shape
                c = G.decorate(rng, sh, {"let": 0.0}, ops)
                out.append((fam + "-sync", c))
            if n <= 2:
                for fl in itertools.product(FLAG_CHOICES, repeat=n):
                    for e in range(n):
                        c = G.decorate(rng, sh, {"let": 0.1}, G.default_ops(rng, n, entry=e))
                        for m in range(n):
                            c["mods"][m]["flags"] = fl[m] + c["mods"][m]["flags"]
                        out.append((fam + "-allflags", c))
            else:
                nrand = (1 if n == 3 else 0) if run.quick else (4 if n == 3 else (1 if len(out) % 4 == 0 else 0))
                for i in range(nrand):
                    prof = [G.PROFILES["sync-throw"], G.PROFILES["tla"], G.PROFILES["tla-throw"], G.PROFILES["reexport"]][i % 4]
                    c = G.decorate(rng, sh, prof, G.default_ops(rng, n, entry=0 if n == 4 else rng.randrange(n)))
                    out.append((fam + "-randflags", c))
        if n == 3 and not run.quick:
            for sh in G.edge_shapes(3):
                for fl in itertools.product(FLAG_CHOICES[:4], repeat=3):
                    e = rng.randrange(3)
                    c = G.decorate(rng, sh, {"let": 0.1}, G.default_ops(rng, 3, entry=e))
                    for m in range(3):
                        c["mods"][m]["flags"] = fl[m] + c["mods"][m]["flags"]
                    out.append(("exh3-edges-allflags", c))
        if n == 4 and not run.quick:
            for _ in range(10000):
                sh = tuple(tuple(rng.sample(range(4), rng.randrange(5))) for _ in range(4))
                c = G.decorate(rng, sh, rng.choice(list(G.PROFILES.values())), G.default_ops(rng, 4))
                out.append(("rand4-orders", c))
    return out


def random_cases(run, count):
    out = []
    for _ in range(count):
        c, pname = G.random_case(run.rng, 8)
        out.append(("rand-" + pname, c))
    return out


def pending_cases(run, count):
    return [("split-pending", G.pending_case(run.rng)) for _ in range(count)]


def corpus_cases():
    d = os.path.join(vlib.CORPUS, PROP)
    out = []
    if os.path.isdir(d):
        for fn in sorted(os.listdir(d)):
            if fn.endswith(".txt"):
                for l in open(os.path.join(d, fn)):
                    l = l.split("#")[0].strip()
                    if l:
                        out.append(("corpus", G.parse_line(l)))
    return out


def build_model():
    rc, out, err = vlib.sh(["sh", os.path.join(vlib.OCAML, "C17", "build.sh")], timeout=600)
    return rc == 0 and os.path.exists(MODEL_BIN), (out + err)[-1500:]


def distribution(cases):
    d = {"modules": {}, "family": {}, "cyclic": 0, "tla": 0, "throws": 0, "linkerr": 0, "missing": 0, "ops": 0}
    for fam, c in cases:
        f = G.facts(c)
        d["modules"][f["n"]] = d["modules"].get(f["n"], 0) + 1
        d["family"][fam] = d["family"].get(fam, 0) + 1
        d["cyclic"] += any(f["cyclic"])
        d["tla"] += any(f["tla"])
        d["throws"] += any(f["throws"])
        d["linkerr"] += any(f["linkerr"])
        d["missing"] += any(f["missing"])
        d["ops"] += len(c["ops"])
    return d


def wild_eq(impl_line, model_line):
    """Equality of canonical result lines; a '?' printed by the model (read of a `var` export whose module has not started,
    see ocaml/C17/driver.ml) stands for '!' or 'u'."""
    if impl_line == model_line:
        return True
    if "?" not in model_line or len(impl_line) != len(model_line):
        return False
    return all(a == b or (b == "?" and a in "!u") for a, b in zip(impl_line, model_line))


def detect_variant(hbin, run):
    """Which of the behaviours of Modules.cfg does the working tree have?  Decided by probe cases; the answer and the
    probe outputs go into the evidence.  Undetermined -> cfg0 (the correspondence will then report the differences)."""
    impl, _ = run_lines(hbin, PROBES)
    ci = [O.canon_result(x) for x in impl]
    found = None
    table = {}
    for v in VARIANTS:
        mo, _ = run_lines(MODEL_BIN, PROBES, args=v)
        ok = [wild_eq(a, O.canon_model(b)) for a, b in zip(ci, mo)]
        table[" ".join(v) or "cfg0"] = sum(ok)
        if all(ok) and found is None:
            found = v
    run.cov["model_variant"] = {"chosen": (" ".join(found) or "cfg0") if found is not None else "undetermined -> cfg0",
                                "probe_matches": table, "probes": PROBES}
    return found if found is not None else []


def main():
    run = Run(PROP, "proof")
    run.cov["rule"] = ("a case = module graph (<= 8 modules; request lists in source order, per-module flags throw / top-level await / let, "
                       "import kinds named / namespace / side-effect / re-export / export-star / read through a re-export, unresolvable or "
                       "missing imports in the malformed stream) + a sequence of load_link_evaluate ops (entry, every other module, entry again); "
                       "exhaustive: every assignment of ordered request lists for <= 3 modules (both tiers) and every edge set for 4 modules (thorough), "
                       "every entry; random structured graphs beyond.  distinct = distinct case line; non-trivial = at least one edge")
    run.cov["exhaustive"] = False
    broken = None
    # 1-2. proofs, gates, extraction
    pr = vlib.proof_stage(PROP, ["C17"], "C17/Props_C17.v", extra_targets=["C17/Extract_C17.vo"])
    run.set_proof(pr, TRUSTED)
    if not pr["ok"]:
        broken = pr["broken"]
    have_model, mlog = build_model()
    if not have_model and broken is None:
        broken = {"kind": "extraction", "detail": {"error": "model driver does not build: " + mlog}}
    # 3. harness
    ok, paths, blog = vlib.harness_build(["modops"])
    if not ok:
        if re.search(r"^error", blog, re.M):
            run.violation({"kind": "correspondence-broken", "obligation": "harness `modops` no longer compiles against /repo",
                           "log": blog[-3000:]}, found_input=False)
            return run.finish()
        vlib.infra_error(PROP, "harness build failed: " + blog[-400:])
    hbin = paths["modops"]
    variant = detect_variant(hbin, run) if have_model else []
    # 4. cases
    t0 = time.time()
    cases = corpus_cases() + exhaustive_cases(run) + random_cases(run, 3000 if run.quick else 25000) \
        + pending_cases(run, 800 if run.quick else 8000)
    if broken is not None:
        cases += random_cases(run, 30000)         # enlarged search
    lines = [G.case_line(c) for _, c in cases]
    run.cov["generation_s"] = round(time.time() - t0, 1)
    run.cov["distribution"] = distribution(cases)
    t0 = time.time()
    impl, tos = run_lines(hbin, lines)
    run.cov["impl_s"] = round(time.time() - t0, 1)
    model = None
    if have_model:
        t0 = time.time()
        model, _ = run_lines(MODEL_BIN, lines, per_case_s=0.01, args=variant)
        run.cov["model_s"] = round(time.time() - t0, 1)
    # the harness reuses one engine Context for many cases: a sample is re-run with a fresh Context per case
    t0 = time.time()
    step = max(1, len(lines) // (400 if run.quick else 4000))
    sample_idx = list(range(0, len(lines), step))
    os.environ["MODOPS_FRESH_CONTEXT"] = "1"
    try:
        fresh, _ = run_lines(hbin, [lines[k] for k in sample_idx])
    finally:
        del os.environ["MODOPS_FRESH_CONTEXT"]
    isolation_diffs = [(lines[k], impl[k], f) for k, f in zip(sample_idx, fresh) if k < len(impl) and impl[k] != f and f != "TIMEOUT" and impl[k] != "TIMEOUT"]
    run.cov["context_reuse_check"] = {"cases_rerun_fresh": len(sample_idx), "different": len(isolation_diffs), "s": round(time.time() - t0, 1)}
    if isolation_diffs:
        # The same case gives different results on a Context that evaluated other graphs before and on a fresh Context:
        # on the engine as it is this never happens (0 differences on every run so far), so it is not a harness artefact
        # to be hidden behind an infrastructure error — it means module evaluation depends on what the thread/context
        # evaluated earlier (e.g. the thread-local async-evaluation counter).  Report it with the case as replay; the
        # comparison with the model below still decides which of the two results is the specified one.
        case, reused, fresh1 = isolation_diffs[0]
        run.violation({"kind": "counterexample", "class": "result-depends-on-context-history", "input": case,
                       "impl_output": {"reused_context": reused, "fresh_context": fresh1},
                       "obligation": "a module graph evaluates the same way on a fresh Context and on a Context that evaluated other graphs before",
                       "how_to_rerun": "MODOPS_FRESH_CONTEXT=1 harness/target/debug/modops < case   vs   without the variable, after other cases"})
    stats = {"match": 0, "match_loads_unordered": 0, "mismatch": 0, "timeouts": tos, "model_fuel": 0,
             "impl_states": {}, "oracle_failures": {}}
    reported = set()
    corr_reported = 0
    nsync = 0
    for k, ((fam, c), line) in enumerate(zip(cases, lines)):
        il = impl[k] if k < len(impl) else "<missing>"
        edges = sum(len(m["decls"]) for m in c["mods"])
        run.count(line, nontrivial=edges > 0)
        if il == "TIMEOUT":
            continue
        for st in re.findall(r"[LPE]\d+=([FPRX])", il):
            stats["impl_states"][st] = stats["impl_states"].get(st, 0) + 1
        # property oracle on the implementation (search)
        fails = O.check(c, il)
        cls, primary = O.classify(c, fails)
        if cls is not None:
            stats["oracle_failures"][cls] = stats["oracle_failures"].get(cls, 0) + 1
            if cls not in reported:
                reported.add(cls)
                run.violation({"kind": "counterexample", "class": cls, "input": line, "family": fam, "impl_output": il,
                               "failure": list(primary), "all_failures": [list(x) for x in fails[:8]],
                               "model_output": (model[k] if model and k < len(model) else None),
                               "how_to_rerun": "echo '%s' | harness/target/debug/modops   (sources: prefix the line with `src `)" % line})
        # correspondence
        if model is not None:
            ml = O.canon_model(model[k]) if k < len(model) else "<missing>"
            if "FUEL" in ml:
                stats["model_fuel"] += 1
                continue
            ci = O.canon_result(il)
            if wild_eq(ci, ml):
                stats["match"] += 1
            elif wild_eq(O.sorted_loads_result(il), O.sorted_loads_result(ml)):
                stats["match_loads_unordered"] += 1
            else:
                stats["mismatch"] += 1
                if corr_reported < 3:
                    corr_reported += 1
                    run.violation({"kind": "correspondence-broken", "class": None, "input": line, "family": fam, "impl_output": ci, "model_output": ml,
                                   "model_variant": " ".join(variant) or "cfg0",
                                   "obligation": "coq/C17/Modules.v (extracted) vs the engine on the same graph: trace / promise state / loader log",
                                   "property_oracle_on_impl": [list(x) for x in fails[:5]],
                                   "how_to_rerun": "echo '%s' | harness/target/debug/modops ; echo '%s' | ocaml/C17/_build/model %s" % (line, line, " ".join(variant))},
                                  found_input=bool(fails))
        if k % 997 == 0:
            run.sample({"case": line, "impl": il, "model": (model[k] if model and k < len(model) else None)})
    run.cov["correspondence"] = stats
    run.cov["traces_validated_against_impl"] = stats["match"] + stats["match_loads_unordered"]
    if broken is not None:
        if not run.violations:
            run.violation({"kind": "proof-broken", "obligation": "C17/Props_C17.v", "detail": broken,
                           "search": "property oracle on %d cases (enlarged) found no failing input" % len(cases)}, found_input=False)
        else:
            run.notes.append({"proof_broken": broken})
    run.assumptions = TRUSTED
    return run.finish()


def replay(obj):
    ok, paths, _ = vlib.harness_build(["modops"])
    line = obj.get("input", "")
    out, _ = run_lines(paths["modops"], [line])
    print("input :", line)
    print("impl  :", out[0] if out else "")
    if build_model()[0]:
        for v in VARIANTS:
            m, _ = run_lines(MODEL_BIN, [line], args=v)
            print("model [%s]:" % (" ".join(v) or "cfg0"), m[0] if m else "")
    c = G.parse_line(line)
    fails = O.check(c, out[0] if out else "")
    print("oracle:", O.classify(c, fails)[0], fails[:5])
    src, _ = run_lines(paths["modops"], ["src " + line])
    print("sources:", src[0] if src else "")
    return 0
