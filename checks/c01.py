"""C01 — core-language evaluation agrees with ECMAScript reference semantics.

Oracle: the Gallina reference interpreter JSRef (coq/JSRef), extracted to OCaml (ocaml/_build/jsref).
Meta-theorems about the oracle (coq/C01/Props_C01.v): determinism and fuel monotonicity — a terminating program has
exactly one outcome, whatever fuel the driver passes.
Tie = search (the property is "implementation = spec"): seeded programs from gen/progen.py are run by the harness
`js` (boa, entry modes eval/script/call x origins bytes/reader x fresh/reused context) and by JSRef; print traces and
completions must be equal.  boa != JSRef is escalated only if V8 (node) agrees with JSRef, disagrees with both, or is
unavailable (DESIGN 1.2); boa = V8 != JSRef is counted as model_defect.  Every escalated program is shrunk
(gen/shrink.py) and given a class label computed from the shrunk program and the diff (classify()).
"""
import glob
import hashlib
import json
import os
import random
import re
import subprocess
import sys
import time
from concurrent.futures import ThreadPoolExecutor

import vlib
from vlib import Run, log

sys.path.insert(0, os.path.join(vlib.VERIF, "gen"))
sys.path.insert(0, os.path.join(vlib.VERIF, "tools"))
import jsast      # noqa: E402
import progen     # noqa: E402
import shrink     # noqa: E402

PROP = "C01"
JSREF = os.path.join(vlib.OCAML, "_build", "jsref")
NODE_RUN = os.path.join(vlib.VERIF, "tools", "node_run.js")
FUEL = 300000
WORKERS = max(2, min(8, vlib.NCPU // 2))
TRUSTED = [
    "Coq 8.16.1 kernel; extraction with ExtrOcamlBasic only; OCaml 4.13 native compiler",
    "JSRef (coq/JSRef/*.v) is hand-written from ECMA-262; validated against V8 on the same generator during development",
    "ocaml/jsref/driver.ml (S-expression reader, printers), tools/gen_wire.py (wire table; the Coq decoder is generated and type-checked)",
    "gen/jsast.py: the two printers (JavaScript text / wire term) of one AST agree",
    "harness/src/bin/js.rs (print capture, completion rendering, catch_unwind), python driver, gen/shrink.py",
    "V8 (node 20) only inside the false-alarm filter: it can withhold an alarm, never raise one",
]


# ------------------------------------------------------------------------------------------------ runners

def _parse_lines(out):
    res = {}
    for l in out.split("\n"):
        if not l:
            continue
        f = l.split("\t")
        if len(f) >= 4:
            res[f[0]] = (f[1], f[2], f[3])
    return res


import select
import threading


class Server:
    """a long-lived line-oriented runner process (JSRef driver, harness `js`, node): one request line -> one result line whose
    first field is the request id.  Spawning a process per batch dominated the cost of shrinking; a dead process (native
    stack overflow in the extracted interpreter, engine abort) is restarted and the unanswered ids are reported missing."""
    def __init__(self, argv):
        self.argv = argv
        self.p = None
        self.buf = b""

    def _start(self):
        self.p = subprocess.Popen(self.argv, stdin=subprocess.PIPE, stdout=subprocess.PIPE, stderr=subprocess.DEVNULL, bufsize=0)
        self.buf = b""

    def close(self):
        if self.p is not None:
            try:
                self.p.stdin.close()
                self.p.kill()
                self.p.wait(timeout=5)
            except Exception:
                pass
            self.p = None

    def ask(self, pre_lines, requests, timeout):
        """requests: [(id, line)]; returns {id: (status, trace, completion)} for the answered ones"""
        res = {}
        if not requests:
            return res
        if self.p is None or self.p.poll() is not None:
            self._start()
        want = [str(i) for i, _ in requests]
        data = ("".join(l + "\n" for l in pre_lines) + "".join(l + "\n" for _, l in requests)).encode("utf8")
        fd_in, fd_out = self.p.stdin.fileno(), self.p.stdout.fileno()
        os.set_blocking(fd_in, False)
        deadline = time.time() + min(timeout, 30 + 3 * len(requests))
        if HARD_DEADLINE[0] is not None:
            deadline = min(deadline, max(time.time() + 5, HARD_DEADLINE[0] + 8))
        off = 0
        eof = False
        while len(res) < len(want) and not eof:
            now = time.time()
            if now > deadline:
                break
            rl, wl, _ = select.select([fd_out], [fd_in] if off < len(data) else [], [], min(2.0, deadline - now))
            if wl:
                try:
                    off += os.write(fd_in, data[off:off + 65536])
                except BlockingIOError:
                    pass
                except (BrokenPipeError, OSError):
                    eof = True
            if rl:
                chunk = os.read(fd_out, 1 << 16)
                if not chunk:
                    eof = True
                else:
                    self.buf += chunk
                    while b"\n" in self.buf:
                        line, self.buf = self.buf.split(b"\n", 1)
                        f = line.decode("utf8", "replace").split("\t")
                        if len(f) >= 4:
                            res[f[0]] = (f[1], f[2], f[3])
        if eof or len(res) < len(want):
            self.close()       # dead or stuck: restart on the next request
        return res


HARD_DEADLINE = [None]      # set by main(): no runner request outlives the differential's wall-clock budget by more than a few seconds
_TLS = threading.local()
_SERVERS = []
_SERVERS_LOCK = threading.Lock()


def _server(kind, argv):
    d = getattr(_TLS, "servers", None)
    if d is None:
        d = _TLS.servers = {}
    if kind not in d:
        d[kind] = Server(argv)
        with _SERVERS_LOCK:
            _SERVERS.append(d[kind])
    return d[kind]


def close_servers():
    with _SERVERS_LOCK:
        for sv in _SERVERS:
            sv.close()
        del _SERVERS[:]


def run_jsref(progs, fuel=FUEL, timeout=600):
    """progs: {id: prog}; -> {id: (status, trace_json, completion)}"""
    reqs = []
    res = {}
    for k, p in progs.items():
        try:
            reqs.append((str(k), "run %s %d %s" % (k, fuel, jsast.encode_prog(p))))
        except Exception:      # not encodable: a shrink variant that left the grammar
            res[str(k)] = ("badinput", "[]", "-")
    sv = _server("jsref", ["nice", "-n", "5", JSREF])
    todo = reqs
    # a crash (native stack overflow) loses the rest of the batch: re-submit what was not answered, skipping the culprit
    for _ in range(6):
        if not todo:
            break
        got = sv.ask([], todo, timeout)
        res.update(got)
        rest = [(i, l) for i, l in todo if i not in got]
        if not rest:
            break
        res[rest[0][0]] = ("crash", "[]", "-")       # the first unanswered request is the one that killed / stalled the driver
        todo = rest[1:]
    for i, _ in todo:
        res.setdefault(i, ("crash", "[]", "-"))
    return res


def _texts_input(cfg, texts):
    return "cfg " + cfg + "\n" + "".join("run %s %s\n" % (k, jsast.escape_line(t)) for k, t in texts.items())


def run_boa(binpath, cfg, texts, timeout=600):
    """texts: {id: javascript}; cfg: harness cfg line"""
    if not texts:
        return {}
    reqs = [(str(k), "run %s %s" % (k, jsast.escape_line(t))) for k, t in texts.items()]
    if "fresh=0" in cfg:
        # the reused-context run needs its own process (the context is the state under test)
        sv = Server(["nice", "-n", "5", binpath])
        res = sv.ask(["cfg " + cfg], reqs, timeout)
        sv.close()
    else:
        sv = _server("boa", ["nice", "-n", "5", binpath])
        res = {}
        todo = reqs
        for _ in range(4):
            if not todo:
                break
            got = sv.ask(["cfg " + cfg], todo, timeout)
            res.update(got)
            rest = [(i, l) for i, l in todo if i not in got]
            if not rest:
                break
            res[rest[0][0]] = ("timeout", "[]", "-")
            todo = rest[1:]
    for k in texts:
        if str(k) not in res:
            res[str(k)] = ("timeout", "[]", "-")
    return res


_NODE_OK = None


def node_available():
    global _NODE_OK
    if _NODE_OK is None:
        try:
            p = subprocess.run(["node", NODE_RUN], input="cfg entry=eval\nrun t print(1+1); 3\n", stdout=subprocess.PIPE, stderr=subprocess.PIPE, text=True, timeout=120)
            _NODE_OK = p.stdout.strip() == 't\tok\t["2"]\tV:number:"3"'
        except Exception:
            _NODE_OK = False
    return _NODE_OK


def run_node(texts, entry="eval", timeout=600):
    if not texts or not node_available():
        return {}
    reqs = [(str(k), "run %s %s" % (k, jsast.escape_line(t))) for k, t in texts.items()]
    sv = _server("node", ["nice", "-n", "5", "node", NODE_RUN])
    return sv.ask(["cfg entry=" + entry], reqs, timeout)


def obs(r):
    """canonical observable of a result triple: trace + completion"""
    return None if r is None else (r[1], r[2])


DISCARD_REF = ("fuel", "unsupported", "crash", "stackoverflow")


def ref_discard(r):
    st = r[0]
    return st != "ok" and any(st.startswith(d) for d in DISCARD_REF)


def boa_discard(r):
    return r[0] == "timeout" or r[2].startswith("L:")


# ------------------------------------------------------------------------------------------------ classification

def _walk(v, f):
    """pre-order walk over a jsast term (tuples / lists / dicts)"""
    if isinstance(v, dict):
        f(v)
        for x in v.values():
            _walk(x, f)
    elif isinstance(v, (tuple, list)):
        if v and isinstance(v[0], str):
            f(v)
        for x in v:
            _walk(x, f)


def nodes(p, tag):
    out = []

    def f(v):
        if isinstance(v, (tuple, list)) and v and v[0] == tag:
            out.append(v)
    _walk({k: p[k] for k in ("p_funcs", "p_classes", "p_body")}, f)
    return out


def has(p, *tags):
    return any(nodes(p, t) for t in tags)


def _assigned_ids(e):
    out = set()

    def f(v):
        if isinstance(v, (tuple, list)) and v:
            if v[0] == "EAssign" and v[1][0] == "PId":
                out.add(tuple(v[1][1]))
            if v[0] in ("EOpAssign", "ELogAssign") and v[2][0] == "EId":
                out.add(tuple(v[2][1]))
            if v[0] == "EUpdate" and v[3][0] == "EId":
                out.add(tuple(v[3][1]))
    _walk(e, f)
    return out


def _pat_names(pats):
    out = set()

    def f(v):
        if isinstance(v, (tuple, list)) and v and v[0] == "PId":
            out.add(tuple(v[1]))
    _walk(list(pats), f)
    return out


def _var_names(body):
    """names declared by `var` or by function declarations anywhere in a statement list (not descending into functions: they
    are table indices)"""
    out = set()

    def f(v):
        if isinstance(v, (tuple, list)) and v:
            if v[0] == "SDecl" and v[1] == "KVar":
                out.update(_pat_names([q for q, _ in v[2]]))
            if v[0] == "SFunDecl":
                out.add(tuple(v[1]))
            if v[0] in ("FIDecl", "FHDecl") and v[1] == "KVar":
                out.update(_pat_names([v[2]]))
    _walk(list(body), f)
    return out


def _const_names(p):
    out = set()
    for d in nodes(p, "SDecl"):
        if d[1] == "KConst":
            out |= _pat_names([q for q, _ in d[2]])
    for h in nodes(p, "FHDecl"):
        if h[1] == "KConst":
            out |= _pat_names([h[2]])
    for h in nodes(p, "FIDecl"):
        if h[1] == "KConst":
            out |= _pat_names([q for q, _ in h[2]])
    for c in nodes(p, "SClassDecl"):
        out.add(tuple(c[1]))
    for c in p["p_classes"]:
        if c["c_name"]:
            out.add(tuple(c["c_name"]))
    for e in nodes(p, "EFunc"):
        if e[1] < len(p["p_funcs"]) and p["p_funcs"][e[1]]["f_name"] and p["p_funcs"][e[1]]["f_kind"] in ("FNormal", "FGenerator", "FAsync"):
            out.add(tuple(p["p_funcs"][e[1]]["f_name"]))
    return out


def _with_assigns_const_name(p):
    consts = _const_names(p)
    if not consts:
        return False
    for w in nodes(p, "SWith"):
        if _assigned_ids(w[2]) & consts:
            return True
    return False


def classify(p, ref, boa, probe=None):
    """Stable class label of a failing case: a predicate over the (shrunk) program and the two observations,
    never over the seed.  Order matters: most specific first."""
    rt, rc = ref[1], ref[2]
    bt, bc = boa[1], boa[2]
    if boa[0] == "panic" or bc.startswith("P:"):
        msg = bc.lower()
        if "remainder" in msg and has(p, "EBinary", "EOpAssign"):
            return "panic-int-rem-overflow"
        if "overflow" in msg:
            return "panic-arith-overflow"
        return "panic-other"
    if rc == "E:SyntaxError" and bc != "E:SyntaxError":
        # where is the early error?  ask the oracle about the program with every function body emptied
        if probe is not None:
            q = dict(p, p_funcs=[dict(f, f_body=[], f_params=[], f_rest=None) for f in p["p_funcs"]])
            try:
                r2 = probe(q)
                return "early-error-missing-script-level" if r2[2] == "E:SyntaxError" else "early-error-missing-function-body"
            except Exception:
                pass
        return "early-error-missing"
    if bc == "E:SyntaxError" and rc != "E:SyntaxError":
        return "early-error-spurious"
    # a store to a const in its TDZ raises the "assignment to constant" TypeError instead of the TDZ ReferenceError
    if ("ReferenceError" in rt + rc) and (bt + bc).replace("TypeError", "ReferenceError") == rt + rc:
        consts = set()
        for d in nodes(p, "SDecl"):
            if d[1] == "KConst":
                consts |= _pat_names([q for q, _ in d[2]])
        if consts & _assigned_ids({k: p[k] for k in ("p_funcs", "p_body")}):
            return "tdz-const-assign-typeerror"
    # TDZ not enforced / wrong binding through switch
    nref_r, nref_b = (rt + rc).count("ReferenceError"), (bt + bc).count("ReferenceError")
    try:
        ra, ba = json.loads(rt), json.loads(bt)
    except Exception:
        ra, ba = [], []
    def subseq(x, y):
        it = iter(y)
        return all(any(a == b for b in it) for a in x)
    if rc == "T:ReferenceError" and len(ra) < len(ba) and subseq(ra, ba):
        nref_r = max(nref_r, nref_b + 1)        # boa ran on (printed more) where the oracle threw a ReferenceError
    if bc == "T:ReferenceError" and rc != bc and len(ba) < len(ra) and subseq(ba, ra):
        nref_b = max(nref_b, nref_r + 1)
    d1 = first_diff(ref, boa)
    if d1 and d1[0] == "t":
        # the first differing line decides which side raised the ReferenceError (later lines are consequences)
        in_r, in_b = "ReferenceError" in (d1[2] or ""), "ReferenceError" in (d1[3] or "")
        if in_r and not in_b:
            nref_r, nref_b = 1, 0
        elif in_b and not in_r:
            nref_r, nref_b = 0, 1
    same_shape = bool(d1 and d1[0] == "t" and d1[2] is not None and d1[3] is not None and len(d1[2].split(" ")) == len(d1[3].split(" ")))
    if has(p, "SSwitch") and nref_r > nref_b:
        return "switch-tdz-missing"
    if nref_b > nref_r:
        for f in p["p_funcs"]:
            if any(d is not None for _, d in f["f_params"]) and f["f_body"]:
                pn = _pat_names([q for q, _ in f["f_params"]])
                if pn & _var_names(f["f_body"]):
                    return "param-expressions-body-var-same-name"
        return "reference-error-spurious"
    if nref_r > nref_b:
        # a store to a lexical binding that is declared later in the same statement list
        lex = set()
        for d in nodes(p, "SDecl"):
            if d[1] in ("KLet", "KConst"):
                lex |= _pat_names([q for q, _ in d[2]])
        if lex & _assigned_ids({k: p[k] for k in ("p_funcs", "p_body")}):
            return "tdz-assign-before-init"
        return "tdz-missing"
    # a labelled break / continue leaving an inner for-of / for-in also leaves an enclosing iterator loop: boa prints less
    if any(b[1] is not None for b in nodes(p, "SBreak") + nodes(p, "SContinue")) and len(nodes(p, "SForOf") + nodes(p, "SForIn")) >= 2 \
            and len(ba) < len(ra) and subseq(ba, ra) and rc == bc:
        return "label-jump-through-nested-iterator-loops"
    # an exception crossing a for-in nested in a for-of does not close the outer iterator: the iterator's cleanup output is missing
    if nodes(p, "SForIn") and nodes(p, "SForOf") and len(ba) < len(ra) and subseq(ba, ra) and rc == bc:
        return "iterator-not-closed-on-throw-through-for-in"
    # integer division fast path loses the sign of zero: tokens differ only by a leading minus (-Infinity / Infinity, -0 / 0)
    if any(b[1] == "BDiv" for b in nodes(p, "EBinary") + nodes(p, "EOpAssign")) and same_shape:
        pairs = [(x, y) for x, y in zip(d1[2].split(" "), d1[3].split(" ")) if x != y]
        if pairs and all(x == "-" + y for x, y in pairs):
            return "int-div-negative-zero"
    # NaN exponent: the oracle's differing tokens are all NaN
    if any(b[1] == "BExp" for b in nodes(p, "EBinary") + nodes(p, "EOpAssign")) and same_shape:
        pairs = [(x, y) for x, y in zip(d1[2].split(" "), d1[3].split(" ")) if x != y]
        if pairs and all(x == "NaN" for x, _ in pairs):
            return "exponent-nan"
    # an assignment / compound assignment / update inside a `with` body to a name that an enclosing scope binds immutably (const
    # declaration, for / for-in / for-of const head, class name, named function expression) is rejected statically with TypeError
    if (bt + bc).count("TypeError") > (rt + rc).count("TypeError") and _with_assigns_const_name(p):
        return "with-assignment-to-outer-const-name"
    # operand read after the right operand's side effect:  x OP (x = ..)
    for b in (nodes(p, "EBinary") + nodes(p, "EOpAssign")) if same_shape else []:
        if b[0] == "EBinary" and b[2][0] == "EId" and tuple(b[2][1]) in _assigned_ids(b[3]):
            return "operand-read-after-rhs-effect"
        if b[0] == "EOpAssign" and b[2][0] == "EId" and tuple(b[2][1]) in _assigned_ids(b[3]):
            return "operand-read-after-rhs-effect"
    # object rest keeps a key consumed by a nested pattern
    for po in nodes(p, "PObj"):
        if po[2] is not None and any(q[1][0] in ("PObj", "PArr") for q in po[1]):
            return "object-rest-nested-pattern"
    if any(not u[1] for u in nodes(p, "EUpdate")):
        # the value of a postfix update is the unconverted operand: the differing tokens are number-ish in the oracle's line and
        # a non-number (or its type name) in boa's
        d = first_diff(ref, boa)
        if d and d[0] == "t" and d[2] is not None and d[3] is not None:
            a, b = d[2].split(" "), d[3].split(" ")

            def numberish(x):
                return x in ("number", "NaN", "Infinity", "-Infinity") or re.fullmatch(r"-?[0-9.]+(e[+-]?[0-9]+)?", x) is not None
            pairs = [(x, y) for x, y in zip(a, b) if x != y]
            if len(a) == len(b) and pairs and all(numberish(x) for x, _ in pairs) and any(y in ("string", "undefined", "object", "boolean", "null", "true", "false", "bigint") or not numberish(y) for _, y in pairs):
                return "postfix-update-value-not-numeric"
    if has(p, "ELogAssign"):
        return "logical-assign-operand"
    if bt == rt and bc != rc:
        if rc.startswith("V:") and bc == 'V:undefined:"undefined"':
            # the completion value of an earlier expression statement is lost: which statement kinds follow it?
            body = p["p_body"]
            for ev in nodes(p, "SDirectEval"):
                body = ev[2]
            tail = []
            for st_ in reversed(body):
                if st_[0] == "SExpr":
                    break
                tail.append(st_[0])
            if tail and all(t in ("SDecl", "SFunDecl", "SClassDecl", "SEmpty") for t in tail):
                return "completion-value-lost-after-declaration"
        if rc == 'V:undefined:"undefined"' and bc.startswith("V:"):
            # a stale value is KEPT: the statement that determines the completion value (if / loop / switch / try / with, whose empty
            # result must become undefined) does not overwrite what an earlier nested statement stored
            return "completion-value-stale-kept"
        if has(p, "SDirectEval") or p.get("meta", {}).get("form") == "script":
            return "completion-value"
        return "completion"
    if bc.startswith("T:") and not rc.startswith("T:"):
        return "spurious-throw"
    if rc.startswith("T:") and not bc.startswith("T:"):
        return "missing-throw"
    return "trace-diff"


# ------------------------------------------------------------------------------------------------ program forms

def texts_of(p):
    """the JavaScript texts of a program: 'main' text for eval/script entries and (func form) the call-entry text"""
    js = jsast.to_js(p)
    out = {"main": js}
    if p.get("meta", {}).get("main_call") is not None:
        out["call"] = jsast.to_js(progen.call_form(p))
    return out


CONFIGS = [("eval", "bytes"), ("eval", "reader"), ("script", "bytes"), ("script", "reader")]


class Engine:
    """runs batches of programs under all configurations"""
    def __init__(self, binpath):
        self.bin = binpath

    def boa_primary(self, progs):
        return run_boa(self.bin, "entry=eval origin=bytes fresh=1 loop=2000000", {k: jsast.to_js(p) for k, p in progs.items()})

    def boa_all(self, progs):
        """{cfgname: {id: result}}"""
        texts = {k: texts_of(p) for k, p in progs.items()}
        out = {}
        for (entry, origin) in CONFIGS:
            out["%s/%s" % (entry, origin)] = run_boa(self.bin, "entry=%s origin=%s fresh=1 loop=2000000" % (entry, origin), {k: t["main"] for k, t in texts.items()})
        callt = {k: t["call"] for k, t in texts.items() if "call" in t}
        if callt:
            out["call/bytes"] = run_boa(self.bin, "entry=call origin=bytes fresh=1 loop=2000000", callt)
        herm = {k: texts[k]["call"] for k, p in progs.items() if p.get("meta", {}).get("hermetic") and "call" in texts[k]}
        if herm:
            out["call/reused"] = run_boa(self.bin, "entry=call origin=bytes fresh=0 loop=2000000", herm)
        return out


# ------------------------------------------------------------------------------------------------ well-formedness of (shrunk) programs

def wf(p):
    """the AST is printable and internally consistent (class constructor kinds match the heritage, function kinds match
    their use) — shrinking may break this, and the two printers would then describe different programs"""
    try:
        for c in p["p_classes"]:
            if c["c_ctor"] is None or c["c_ctor"] >= len(p["p_funcs"]):
                return False
            k = p["p_funcs"][c["c_ctor"]]["f_kind"]
            if (c["c_heritage"] is None) != (k == "FCtorBase"):
                return False
            for m in c["c_members"]:
                if m["cm_kind"] == "MField" and m["cm_fidx"] is not None and p["p_funcs"][m["cm_fidx"]]["f_expr_body"] is None:
                    return False
        for f in p["p_funcs"]:
            if f["f_kind"] in ("FArrow",) and f["f_expr_body"] is None and f["f_body"] is None:
                return False
            if f["f_kind"] == "FSetter" and len(f["f_params"]) != 1:
                return False
            if f["f_kind"] == "FGetter" and f["f_params"]:
                return False
        jsast.to_js(p)
        jsast.encode_prog(p)
        return True
    except Exception:
        return False


def first_diff(ref, other):
    """signature of the first difference between two observations: ('t', i, ref_line, other_line) for the first differing
    trace entry (a missing entry is None), else ('c', ref_completion, other_completion); None when equal"""
    if other[0] == "panic" or other[2].startswith("P:"):
        return ("p", re.sub(r"[0-9]+", "N", other[2])[:120])
    if ref[2] == "E:SyntaxError" and other[2] != "E:SyntaxError":
        return ("e", "missing")
    if other[2] == "E:SyntaxError" and ref[2] != "E:SyntaxError":
        return ("e", "spurious")
    if ref[1] != other[1]:
        try:
            a, b = json.loads(ref[1]), json.loads(other[1])
        except Exception:
            return ("t", -1, ref[1], other[1])
        for i in range(max(len(a), len(b))):
            x = a[i] if i < len(a) else None
            y = b[i] if i < len(b) else None
            if x != y:
                return ("t", i, x, y)
    if ref[2] != other[2]:
        return ("c", ref[2], other[2])
    return None


def same_diff(d0, d1):
    """the shrunk program still shows the same difference: same pair of lines (the index may move)"""
    if d0 is None or d1 is None or d0[0] != d1[0]:
        return False
    if d0[0] == "t":
        return d0[2:] == d1[2:]
    return d0[1:] == d1[1:]


def make_pred(engine, d0, deadline=None, use_node=True):
    """batch predicate for shrink(): the variant is well formed, JSRef decides it (status ok), boa differs from JSRef with
    the same first difference, and (when available) V8 still agrees with JSRef"""
    def pred(qs):
        if deadline is not None and time.time() > deadline:
            return [False] * len(qs)
        d = {str(i): q for i, q in enumerate(qs) if wf(q)}
        rr = run_jsref(d)
        live = {i: q for i, q in d.items() if rr[i][0] == "ok"}
        bb = engine.boa_primary(live)
        cand = [i for i in live if i in bb and not boa_discard(bb[i]) and same_diff(d0, first_diff(rr[i], bb[i]))]
        good = set(cand)
        if use_node and cand and node_available():
            nn = run_node({i: jsast.to_js(live[i]) for i in cand})
            good = {i for i in cand if i in nn and obs(nn[i]) == obs(rr[i])}
        return [str(i) in good for i in range(len(qs))]
    return pred


# ------------------------------------------------------------------------------------------------ the check

CORPUS_DIR = os.path.join(vlib.CORPUS, PROP)


def build_jsref():
    """compile ocaml/gen/jsref.ml (extracted by the Coq build) + ocaml/jsref/driver.ml -> ocaml/_build/jsref (only this driver)"""
    gen = os.path.join(vlib.OCAML, "gen")
    srcs = [os.path.join(gen, "jsref.ml"), os.path.join(gen, "jsref.mli"), os.path.join(vlib.OCAML, "jsref", "driver.ml")]
    if not all(os.path.exists(x) for x in srcs):
        return False, "extracted sources missing: " + ", ".join(x for x in srcs if not os.path.exists(x))
    with vlib.Lock("ocaml-jsref"):
        if os.path.exists(JSREF) and all(os.path.getmtime(JSREF) >= os.path.getmtime(x) for x in srcs):
            return True, "up to date"
        d = os.path.join(vlib.OCAML, "_build", "jsref.d")
        os.makedirs(d, exist_ok=True)
        import shutil
        for x in srcs:
            shutil.copy(x, d)
        rc, out, err = vlib.sh(["nice", "-n", "5", "ocamlfind", "ocamlopt", "-w", "-a", "-o", JSREF + ".new", "jsref.mli", "jsref.ml", "driver.ml"], cwd=d, timeout=3000)
        if rc == 0 and os.path.exists(JSREF + ".new"):
            os.replace(JSREF + ".new", JSREF)
            return True, "built"
        return False, (out + err)[-2000:]


def load_corpus():
    out = []
    for path in sorted(glob.glob(os.path.join(CORPUS_DIR, "*.json"))):
        try:
            o = json.load(open(path))
            o["_path"] = path
            out.append(o)
        except Exception as ex:
            log("corpus file unreadable: %s (%s)" % (path, ex))
    return out


def replay_obj(p, ref, boa, node, cls, kind, cfg="entry=eval origin=bytes fresh=1", extra=None):
    o = {"kind": kind, "class": cls, "input": jsast.to_js(p), "program": p, "wire": jsast.encode_prog(p),
         "model_output": {"status": ref[0], "trace": ref[1], "completion": ref[2]} if ref else None,
         "impl_output": {"status": boa[0], "trace": boa[1], "completion": boa[2]} if boa else None,
         "v8_output": {"trace": node[1], "completion": node[2]} if node else None,
         "config": cfg, "obligation": "trace_boa(P) = trace_JSRef(P)",
         "how_to_rerun": "./check replay <this file>   (or: printf 'cfg %s\\nrun 1 <escaped input>\\n' | harness/target/debug/js)" % cfg}
    if extra:
        o.update(extra)
    return o


class Stats:
    def __init__(self):
        self.c = {}

    def add(self, k, n=1):
        self.c[k] = self.c.get(k, 0) + n


class Abandoned(Exception):
    pass


def process_chunk(quick, eng, progs, deadline, tag, shrink_limit):
    """Differential of one chunk of programs, completely: every mismatch is filtered through V8, shrunk and classified.
    Returns (stats, findings, counted_cases, model_defects) or raises Abandoned when the wall-clock budget ran out in the
    middle (nothing of an abandoned chunk is counted, so no unclassified mismatch is ever left behind)."""
    st = Stats()
    findings = []
    counted = []
    defects = []

    def check_time():
        if time.time() > deadline:
            raise Abandoned()
    ref = run_jsref(progs)
    check_time()
    live = {}
    for k, p in progs.items():
        r = ref[k]
        if r[0] == "ok":
            live[k] = p
        elif ref_discard(r):
            st.add("discard_ref_" + r[0].split(":")[0])
            if r[0].startswith("unsupported"):
                st.add("unsupported_code_" + r[0].split(":")[1])
        else:
            st.add("ref_" + r[0])
            findings.append({"class": "infrastructure-jsref-" + r[0].split(":")[0], "infra": True,
                             "replay": {"kind": "infrastructure", "detail": "JSRef driver status %s" % r[0], "input": jsast.to_js(p)}})
    allres = eng.boa_all(live)
    check_time()
    prim = allres["eval/bytes"]
    mism = {}
    for k, p in live.items():
        b = prim.get(k)
        if b is None or boa_discard(b):
            st.add("discard_boa_limit_or_timeout")
            continue
        st.add("compared")
        counted.append((("prog", tag, k, hashlib.sha1((ref[k][1] + ref[k][2]).encode()).hexdigest()[:10]),
                        ref[k][1] != "[]" or ref[k][2] != 'V:undefined:"undefined"'))
        for f in p["meta"]["features"]:
            st.add("feat:" + f)
        st.add("form:" + p["meta"]["form"])
        st.add("completion:" + ref[k][2].split(":")[0] + (":" + ref[k][2].split(":")[1] if ref[k][2].startswith("T:") else ""))
        if obs(b) != obs(ref[k]):
            mism[k] = first_diff(ref[k], b)
        # entry independence on boa alone
        for cfg, res in allres.items():
            if cfg == "eval/bytes" or k not in res:
                continue
            st.add("entry_runs")
            o = res[k]
            if boa_discard(o):
                continue
            if obs(o) != obs(b):
                st.add("entry_mismatch")
                cls = "entry-dependence-" + cfg.replace("/", "-")
                findings.append({"class": cls, "size": shrink.size(p),
                                 "replay": replay_obj(p, ref[k], o, None, cls, "counterexample", cfg="entry=%s ..." % cfg,
                                                      extra={"impl_output_primary": {"trace": b[1], "completion": b[2]},
                                                             "obligation": "trace under %s = trace under eval/bytes" % cfg})})
    if mism:
        # false-alarm filter
        nn = run_node({k: jsast.to_js(live[k]) for k in mism})
        check_time()
        for k, d0 in mism.items():
            n = nn.get(k)
            if n is not None and obs(n) == obs(prim[k]):
                st.add("model_defect")
                defects.append({"input": jsast.to_js(live[k])[:3000], "jsref": ref[k][1:], "boa_and_v8": prim[k][1:]})
                continue
            st.add("escalated")
            st.add("escalated_v8_agrees_jsref" if (n is not None and obs(n) == obs(ref[k])) else ("escalated_v8_unavailable" if n is None else "escalated_v8_third"))
            check_time()
            p = live[k]
            q, shrunk = p, False
            if shrink_limit > 0:        # corpus programs are minimized already
                if deadline - time.time() < 0.7 * shrink_limit:
                    raise Abandoned()       # not enough budget left to minimise (and hence classify) this case properly
                try:
                    q = shrink.shrink(p, make_pred(eng, d0, deadline), max_rounds=30 if quick else 60,
                                      time_limit=min(shrink_limit, max(1.0, deadline - time.time())))
                    shrunk = True
                except Abandoned:
                    raise
                except Exception as ex:
                    log("shrink failed: %r" % ex)
            check_time()
            r2 = run_jsref({"x": q})["x"]
            b2 = eng.boa_primary({"x": q}).get("x")
            n2 = run_node({"x": jsast.to_js(q)}).get("x")
            if r2[0] != "ok" or b2 is None or obs(r2) == obs(b2):
                q, r2, b2, n2, shrunk = p, ref[k], prim[k], n, False
            cls = classify(q, r2, b2, probe=lambda z: run_jsref({"z": z})["z"])
            if n2 is not None and obs(n2) == obs(b2):
                # the shrunk program left the region where V8 confirms JSRef: keep the unshrunk case
                q, r2, b2, n2, shrunk = p, ref[k], prim[k], n, False
                cls = classify(q, r2, b2, probe=lambda z: run_jsref({"z": z})["z"])
            st.add("shrunk" if shrunk else "not_shrunk")
            st.add("class:" + cls)
            findings.append({"class": cls, "size": shrink.size(q),
                             "replay": replay_obj(q, r2, b2, n2, cls, "counterexample", extra={"shrunk": shrunk, "origin": tag + ":" + str(k)})})
    return st, findings, counted, defects


def gen_chunk(seed, ci, chunk, quick, max_depth):
    rng = random.Random((seed << 20) ^ (ci * 7919 + 13))
    progs = {}
    for j in range(chunk):
        size = rng.choice([8, 12, 20, 30, 45] if quick else [8, 12, 20, 30, 45, 70, 110])
        try:
            progs["%d.%d" % (ci, j)] = progen.gen_program(rng, "C01", size, max_depth=max_depth)
        except Exception as ex:      # a generator bug must not look like a property violation
            log("generator exception (chunk %d item %d): %r" % (ci, j, ex))
    return progs


def chunk_worker(args):
    """one chunk in a worker PROCESS (the shrinker is CPU-bound Python: threads would serialise on the GIL)"""
    seed, ci, chunk, quick, max_depth, deadline, binpath = args
    if time.time() > deadline - (30 if quick else 120):
        return ("late", ci)         # a chunk started now could not be completed (and classified) within the budget
    HARD_DEADLINE[0] = deadline
    progs = gen_chunk(seed, ci, chunk, quick, max_depth)
    t0 = time.time()
    try:
        st, findings, counted, defects = process_chunk(quick, Engine(binpath), progs, deadline, "g%d" % ci, 30 if quick else 150)
        return ("ok", ci, len(progs), st.c, findings, counted, defects, round(time.time() - t0, 1))
    except Abandoned:
        return ("abandoned", ci)


def main():
    run = Run(PROP, "translation_validation")
    run.cov["rule"] = ("cases: seeded programs from gen/progen.py (preset C01: weighted recursive descent + feature-interaction idioms), each run by "
                       "extracted JSRef and by boa under eval|script x bytes|reader (+ host call entry and a reused context for function-form programs); "
                       "a case counts as evaluated when JSRef terminated within fuel and boa hit no runtime limit; non-trivial = prints something or "
                       "completes with something other than undefined; distinct by (seed index, trace hash)")
    findings = []
    broken = None
    # 1-3 proofs about the oracle + extraction
    pr = vlib.proof_stage(PROP, ["JSRef", "C01"], "C01/Props_C01.v", extra_targets=["JSRef/Extract.vo"])
    run.set_proof(pr, TRUSTED)
    if not pr["ok"]:
        broken = pr["broken"]
    ok, blog = build_jsref()
    if not ok:
        if broken is None:
            vlib.infra_error(PROP, "extracted JSRef driver does not build: " + blog[-400:])
        run.violation({"kind": "proof-broken", "obligation": "coq/JSRef + coq/C01/Props_C01.v", "detail": broken}, found_input=False)
        return run.finish()
    ok, paths, hlog = vlib.harness_build(["js"])
    if not ok:
        if re.search(r"^error", hlog, re.M):
            run.violation({"kind": "correspondence-broken", "obligation": "harness `js` no longer compiles against /repo", "log": hlog[-3000:]}, found_input=False)
            return run.finish()
        vlib.infra_error(PROP, "harness build failed: " + hlog[-400:])
    eng = Engine(paths["js"])
    run.cov["v8_filter_available"] = node_available()
    budget = (120 if run.quick else 900)
    if os.environ.get("C01_BUDGET"):
        budget = int(os.environ["C01_BUDGET"])
    target = int(os.environ.get("C01_PROGRAMS", 3000 if run.quick else 60000))
    max_depth = 5 if run.quick else 7
    st = Stats()
    abandoned = [0]

    def merge(res):
        cst, cf, counted, defects = res
        for k, v in cst.c.items():
            st.add(k, v)
        findings.extend(cf)
        for key, nt in counted:
            run.count(key, nontrivial=nt)
        for d in defects:
            if len(run.cov.setdefault("model_defects", [])) < 8:
                run.cov["model_defects"].append(d)
    # 4a corpus (always completely)
    corpus = load_corpus()
    cprogs = {"c%d" % i: c["prog"] for i, c in enumerate(corpus)}
    for p in cprogs.values():
        p.setdefault("meta", {"form": "script", "features": [], "hermetic": False, "main_call": None})
    if cprogs:
        merge(process_chunk(run.quick, eng, cprogs, time.time() + 3000, "corpus", 0))
        st.add("corpus_programs", len(cprogs))
    t_start = time.time()
    deadline = t_start + budget
    # 4b generated programs: chunks in parallel, each processed completely or not at all
    chunk = 30 if run.quick else 100
    n_done = 0

    nchunks = (target + chunk - 1) // chunk
    from concurrent.futures import ProcessPoolExecutor
    jobs = [(run.seed, ci, chunk, run.quick, max_depth, deadline, paths["js"]) for ci in range(nchunks)]
    close_servers()                 # fork the workers without live runner pipes
    with ProcessPoolExecutor(max_workers=WORKERS) as ex:
        for r in ex.map(chunk_worker, jobs, chunksize=1):
            if r[0] == "ok":
                _, ci, n, stc, cf, counted, defects, secs = r
                n_done += n
                cst = Stats()
                cst.c = stc
                merge((cst, cf, counted, defects))
            elif r[0] == "abandoned":
                abandoned[0] += 1
            if r[0] != "late":
                log("chunk %d: %s %s" % (r[1], r[0], ("%d programs, %d escalated, %.1fs" % (r[2], r[3].get("escalated", 0), r[7])) if r[0] == "ok" else ""))
    HARD_DEADLINE[0] = None
    run.cov["chunks_abandoned_at_deadline"] = abandoned[0]
    run.cov["programs_generated"] = n_done
    run.cov["programs_target"] = target
    run.cov["stopped_by_time_budget"] = n_done < target
    run.cov["differential_wall_s"] = round(time.time() - t_start, 1)
    run.cov["distribution"] = {k: v for k, v in sorted(st.c.items())}
    run.cov["programs"] = st.c.get("compared", 0)
    run.cov["disagreements_checked"] = st.c.get("escalated", 0) + st.c.get("model_defect", 0) + st.c.get("entry_mismatch", 0)
    run.cov["explanation"] = ("programs = programs decided by the oracle and compared under eval/bytes; each is additionally run under 3-5 further boa "
                              "configurations (entry_runs); disagreements_checked = boa/JSRef mismatches put through the V8 filter (escalated + model_defect) "
                              "plus entry-independence mismatches; every escalated one was shrunk and classified (classes)")
    if findings and len(run.cov["samples"]) < 2:
        pass
    # samples of actual cases
    rng = random.Random(run.seed)
    sp = progen.gen_program(random.Random((run.seed << 20) ^ 13), "C01", 12)
    run.sample({"program": jsast.to_js(sp)[:1500], "jsref": run_jsref({"s": sp})["s"][1:], "boa": eng.boa_primary({"s": sp}).get("s", ("", "", ""))[1:]})
    for f in findings[:2]:
        if not f.get("infra"):
            run.sample({"disagreement_class": f["class"], "program": f["replay"].get("input", "")[:800],
                        "jsref": f["replay"].get("model_output"), "boa": f["replay"].get("impl_output")})
    close_servers()
    # dry run of the proposed known findings (development aid, off by default): C01_ASSUME_KNOWN=1
    if os.environ.get("C01_ASSUME_KNOWN"):
        try:
            prop = json.load(open(os.path.join(vlib.VERIF, "fixes.d", "C01-known-findings.proposed.json")))
            kf = vlib.known_findings()
            kf.setdefault("findings", []).extend(prop["findings"])
            run.notes.append("C01_ASSUME_KNOWN: proposed known findings were treated as accepted in this run")
        except Exception as ex:
            log("cannot load proposed known findings: %r" % ex)
    # verdicts: at most 2 replays per class, the rest counted
    per_class = {}
    for f in sorted(findings, key=lambda f: f.get("size", 0)):
        per_class.setdefault(f["class"], []).append(f)
    run.cov["classes"] = {c: len(l) for c, l in per_class.items()}
    run.cov["class_examples"] = {c: {"input": l[0]["replay"].get("input", "")[:1200], "jsref": l[0]["replay"].get("model_output"),
                                     "boa": l[0]["replay"].get("impl_output")} for c, l in per_class.items()}
    for c, l in sorted(per_class.items()):
        for f in l[:2]:
            o = dict(f["replay"])
            o["class"] = c
            o["occurrences_in_this_run"] = len(l)
            if f.get("infra"):
                run.notes.append(o)
                continue
            run.violation(o)
    if broken is not None:
        if not run.violations:
            run.violation({"kind": "proof-broken", "obligation": "coq/C01/Props_C01.v (meta-theorems about JSRef)", "detail": broken,
                           "search": "differential of %d programs found no failing input" % st.c.get("compared", 0)}, found_input=False)
        else:
            run.notes.append({"proof_broken": broken})
    run.assumptions = TRUSTED
    return run.finish()


def replay(obj):
    ok, paths, _ = vlib.harness_build(["js"])
    p = obj.get("program")
    text = obj.get("input", "")
    cfg = obj.get("config", "entry=eval origin=bytes fresh=1")
    if "..." in cfg:
        cfg = cfg.replace(" ...", " origin=bytes fresh=1")
    b = run_boa(paths["js"], cfg, {"1": text})["1"]
    print("boa  :", b)
    if p is not None:
        build_jsref()
        print("JSRef:", run_jsref({"1": p})["1"])
    n = run_node({"1": text}).get("1")
    print("V8   :", n)
    return 0
