"""C02 — no input makes the engine fail internally (no panic, abort or EnginePanic).

PROOF (kernels only): coq/C02/Props_C02.v over coq/Gen/FastPaths.v, which tools/gen_c02.py regenerates from
value/operations.rs and vm/opcode/unary_ops/{increment,decrement}.rs on every run: for ALL i32 operand pairs, in the
overflow-checked and the release profile, no i32 fast path reaches a panicking primitive (except the decided gaps),
and the guards select the Integer32 result exactly when it is exact.
TIE: translator + boundary-grid correspondence (model by vm_compute vs. the real opcode handlers through JS functions
called with Integer32 arguments, the public JsValue API, and source-text programs; debug AND release harness).
SEARCH (labelled search, never proof): raw bytes / token-level mutants of every JS snippet in /repo's tests /
grammar-generated programs, under catch_unwind in a big-stack worker thread inside a child process, on fresh and
reused contexts, limits lowered; oracle = outcome in {value, JS exception, RuntimeLimit}.
"""
import json
import math
import os
import re
import resource
import select
import signal
import struct
import subprocess
import sys
import time
from concurrent.futures import ThreadPoolExecutor

import vlib
from vlib import Run, log

PROP = "C02"
TRUSTED = [
    "Coq 8.16.1 kernel + vm_compute (no native_compute)",
    "tools/gen_c02.py (own typed translator for the i32 arms: method chains, closures, match guards; reuses rs2v's tokenizer; refuses anything else)",
    "coq/C02/Model_C02.v as the semantics of Rust's integer primitives: `+ - * unary-` panic on overflow iff overflow-checks, `/ %` panic on 0 and MIN/-1 always, checked_* never panic, wrapping_sh* mask the count; i32::checked_pow transliterated from core::num",
    "modelled, not verified: rustc/LLVM, core::num, f64 arithmetic (kept symbolic in the model, evaluated with IEEE doubles by the check)",
    "kernels only: a panic outside the modelled fast paths is reachable by the search streams only (labelled search)",
    "harness/src/bin/c02.rs (catch_unwind + panic hook location, worker thread, variant printing), Python driver, child-process exit status",
]

I32_MIN, I32_MAX = -2 ** 31, 2 ** 31 - 1
EDGES = [0, 1, -1, 2, -2, 3, -3, 5, 7, -7, 10, 16, 31, 32, 33, 63, 64, -31, -32, -33, 255, 256, -256, 65535, 65536, -65536,
         46340, 46341, -46340, -46341, 1073741823, 1073741824, -1073741824, -1073741825, I32_MAX, I32_MAX - 1, I32_MIN, I32_MIN + 1,
         715827882, -715827883]
BINOPS = ["Add", "Sub", "Mul", "Div", "Rem", "Pow", "BitAnd", "BitOr", "BitXor", "Shl", "Shr", "UShr", "Lt", "Le", "Gt", "Ge", "Eq", "Ne"]
JSOP = {"Add": "+", "Sub": "-", "Mul": "*", "Div": "/", "Rem": "%", "Pow": "**", "BitAnd": "&", "BitOr": "|", "BitXor": "^", "Shl": "<<",
        "Shr": ">>", "UShr": ">>>", "Lt": "<", "Le": "<=", "Gt": ">", "Ge": ">=", "Eq": "==", "Ne": "!="}
APIOP = {"Add": "add", "Sub": "sub", "Mul": "mul", "Div": "div", "Rem": "rem", "Pow": "pow", "BitAnd": "bitand", "BitOr": "bitor",
         "BitXor": "bitxor", "Shl": "shl", "Shr": "shr", "UShr": "ushr", "Lt": "lt", "Le": "le", "Gt": "gt", "Ge": "ge", "Eq": "eq"}
PANIC_MSG = {1: "attempt to add with overflow", 2: "attempt to subtract with overflow", 3: "attempt to multiply with overflow",
             4: "attempt to negate with overflow", 5: "attempt to divide by zero", 6: "attempt to divide with overflow",
             7: "attempt to calculate the remainder with a divisor of zero", 8: "attempt to calculate the remainder with overflow"}


# ----------------------------------------------------------------------------------------------------------
# model evaluation (vm_compute) and decoding

def parse_nested(txt):
    """Parse Coq's printing of nested lists / tuples of Z into Python lists."""
    toks = re.findall(r"[\[\]()]|-?\d+", txt)
    stack, cur = [], None
    for t in toks:
        if t in "[(":
            new = []
            if cur is not None:
                cur.append(new)
                stack.append(cur)
            cur = new
        elif t in "])":
            if stack:
                cur = stack.pop()
        else:
            cur.append(int(t))
    return cur


def zlist(vs):
    return "[" + "; ".join("(%d)" % v if v < 0 else "%d" % v for v in vs) + "]"


def model_grid(avs, bvs):
    """Evaluate the extracted kernels (coq/C02/Extract_C02.v -> ocaml/gen/c02_model.ml, ExtrOcamlBasic only) on the grid."""
    rc, out, err = vlib.sh(["sh", "build.sh"], cwd=os.path.join(vlib.OCAML, PROP), timeout=900)
    if rc != 0:
        return None, "ocaml/C02/build.sh failed: " + (out + err)[-1500:]
    exe = os.path.join(vlib.OCAML, PROP, "_build", "c02_model")
    inp = " ".join(map(str, avs)) + "\n" + " ".join(map(str, bvs)) + "\n"
    rc, out, err = vlib.sh([exe], input=inp, timeout=900)
    if rc != 0:
        return None, "model driver failed: " + err[-1500:]
    res = {p: {"fast": {}, "ops": {}} for p in ("debug", "release")}
    for line in out.split("\n"):
        f = line.split(" ")
        if len(f) < 3:
            continue
        prof, route, name = f[0], f[1], f[2]
        encs = [[int(x) for x in c.split(",")] for c in f[3:]]
        if route == "unary":
            res[prof][name] = encs
        else:
            res[prof][route][BINOPS[int(name)]] = encs
    for p in res:
        if len(res[p]["fast"]) != len(BINOPS) or "neg" not in res[p]:
            return None, "model driver output incomplete"
    return res, ""


def powi(a, b):
    """compiler-rt / compiler_builtins __powidf2: repeated squaring on the absolute exponent, reciprocal at the end."""
    recip = b < 0
    n = abs(b)
    r = 1.0
    while True:
        if n & 1:
            r = fmul(r, a)
        n >>= 1
        if n == 0:
            break
        a = fmul(a, a)
    return fdiv(1.0, r) if recip else r


def fmul(a, b):
    try:
        return a * b
    except OverflowError:
        return math.copysign(math.inf, a) * math.copysign(1.0, b)


def fdiv(a, b):
    if b == 0.0:
        if a == 0.0 or a != a:
            return math.nan
        return math.copysign(math.inf, a) * math.copysign(1.0, b)
    return a / b


def feval(enc, i):
    t = enc[i]
    if t in (10, 11):
        return float(enc[i + 1]), i + 2
    if t in (12, 13, 14, 15):
        a, i = feval(enc, i + 1)
        b, i = feval(enc, i)
        if t == 12:
            return a + b, i
        if t == 13:
            return a - b, i
        if t == 14:
            return fmul(a, b), i
        return fdiv(a, b), i
    if t == 16:
        a, i = feval(enc, i + 1)
        return powi(a, enc[i]), i + 1
    if t == 17:
        return -0.0, i + 1
    if t == 18:
        return 0.0, i + 1
    if t == 19:
        return math.nan, i + 1
    if t == 20:
        a, i = feval(enc, i + 1)
        return -a, i
    raise ValueError("bad float encoding %r" % (enc,))


def fbits(x):
    if x != x:
        return 0x7ff8000000000000
    return struct.unpack("<Q", struct.pack("<d", x))[0]


def js_expect(enc):
    """Expected harness variant for an encoded jsval / panic: ('P', msg) | ('V', 'I5' / 'F...' / 'B1')."""
    if enc[0] == 0:
        return ("P", PANIC_MSG[enc[1]])
    if enc[0] == 1:
        return ("V", "I%d" % enc[1])
    if enc[0] == 2:
        return ("V", "B%d" % enc[1])
    if enc[0] == 3:
        x, _ = feval(enc, 1)
        return ("V", "F%016x" % fbits(x))
    return ("?", repr(enc))


def matches(exp, got):
    if exp[0] == "P":
        return got.startswith("P:") and exp[1].replace(" ", "_") in got
    return exp[1] == got


def as_number(variant):
    """Numeric value of a variant irrespective of the Integer32/Float64 representation (source-text route)."""
    if variant.startswith("I"):
        return "N%016x" % fbits(float(int(variant[1:])))
    if variant.startswith("F"):
        return "N" + variant[1:]
    return variant


# ----------------------------------------------------------------------------------------------------------
# harness processes

def esc(text):
    out = []
    for ch in text:
        o = ord(ch)
        if ch == "\\":
            out.append("\\\\")
        elif ch == "\n":
            out.append("\\n")
        elif ch == "\r":
            out.append("\\r")
        elif ch == "\t":
            out.append("\\t")
        elif 0x20 <= o < 0x7f:
            out.append(ch)
        elif o < 0x10000:
            out.append("\\u%04x" % o)
        else:
            o -= 0x10000
            out.append("\\u%04x\\u%04x" % (0xD800 + (o >> 10), 0xDC00 + (o & 0x3ff)))
    return "".join(out)


def _limits():
    try:
        resource.setrlimit(resource.RLIMIT_AS, (6 << 30, 6 << 30))
        resource.setrlimit(resource.RLIMIT_CORE, (0, 0))
    except (ValueError, OSError):
        pass


def run_simple(binpath, lines, stack_mb=256, timeout=1200):
    p = subprocess.run([binpath, str(stack_mb)], input="\n".join(lines) + "\n", stdout=subprocess.PIPE, stderr=subprocess.PIPE,
                       text=True, timeout=timeout, errors="replace", preexec_fn=_limits)
    return p.stdout.split("\n"), p.returncode, p.stderr[-600:]


def run_watch(binpath, stack_mb, cfg_line, cases, idle_timeout):
    """Run `cases` [(id, line)] in ONE child after `cfg_line`.  Returns (results {id: fields}, end) where end is
    None (clean exit) or {'kind': 'death'|'hang', 'signal': .., 'stderr': .., 'culprit': id-or-None}."""
    payload = (cfg_line + "\n" + "\n".join(l for _, l in cases) + "\n").encode("utf8", "replace")
    p = subprocess.Popen([binpath, str(stack_mb)], stdin=subprocess.PIPE, stdout=subprocess.PIPE, stderr=subprocess.PIPE,
                         preexec_fn=_limits, env=dict(os.environ, RUST_BACKTRACE="0"))
    results, buf = {}, b""
    order = [i for i, _ in cases]
    fd_out, fd_in = p.stdout.fileno(), p.stdin.fileno()
    os.set_blocking(fd_in, False)
    sent, last, hang = 0, time.time(), False
    while True:
        wl = [fd_in] if sent < len(payload) else []
        r, w, _ = select.select([fd_out], wl, [], 1.0)
        if w:
            try:
                sent += os.write(fd_in, payload[sent:sent + 65536])
                if sent >= len(payload):
                    p.stdin.close()
            except BlockingIOError:
                pass
            except (BrokenPipeError, OSError):
                sent = len(payload)
        if r:
            chunk = os.read(fd_out, 1 << 16)
            if not chunk:
                break
            last = time.time()
            buf += chunk
            while b"\n" in buf:
                line, buf = buf.split(b"\n", 1)
                f = line.decode("utf8", "replace").split("\t")
                if f and f[0]:
                    results[f[0]] = f[1:]
        elif time.time() - last > idle_timeout:
            hang = True
            p.kill()
            break
    try:
        if sent < len(payload):
            p.stdin.close()
    except OSError:
        pass
    try:
        err = p.stderr.read().decode("utf8", "replace")
        err = err if len(err) <= 1400 else err[:600] + " ... " + err[-800:]
    except OSError:
        err = ""
    rc = p.wait()
    missing = [i for i in order if i not in results]
    if hang:
        return results, {"kind": "hang", "culprit": missing[0] if missing else None, "stderr": err, "signal": None}
    if rc != 0 or missing:
        return results, {"kind": "death", "culprit": missing[0] if missing else None, "stderr": err,
                         "signal": (signal.Signals(-rc).name if rc < 0 else "exit%d" % rc)}
    return results, None


def run_resilient(binpath, stack_mb, cfg_line, cases, idle_timeout):
    """run_watch with restart after the culprit.  Returns (results, events[{kind, culprit, prefix_ids, ...}])."""
    results, events = {}, []
    rest = list(cases)
    while rest:
        res, end = run_watch(binpath, stack_mb, cfg_line, rest, idle_timeout)
        results.update(res)
        if end is None:
            break
        cul = end["culprit"]
        if cul is None:
            events.append(dict(end, prefix=[]))
            break
        k = [i for i, _ in rest].index(cul)
        events.append(dict(end, prefix=[i for i, _ in rest[:k]]))
        rest = rest[k + 1:]
    return results, events


# ----------------------------------------------------------------------------------------------------------
# classification of failures (class label computed from the failing case itself)

def panic_class(loc, msg=""):
    loc = loc.strip()
    # the two kernel gaps keep their kernel class whichever stream reaches them
    if "operations.rs" in loc and "remainder with overflow" in msg:
        return "rem-i32-min-by-minus-one"
    if "operations.rs" in loc and "negate with overflow" in msg:
        return "neg-i32-min-overflow-checked"
    if "builtins/string/mod.rs" in loc and "negate with overflow" in msg:
        return "string-at-i64-min"
    repo = vlib.REPO.rstrip("/") + "/"
    if loc.startswith(repo):
        loc = loc[len(repo):]
    loc = re.sub(r"^/tmp/[^/]+/", "", loc)
    loc = re.sub(r"^.*/registry/src/[^/]+/", "", loc)
    loc = re.sub(r"^.*/rustlib/src/rust/", "rust/", loc)
    loc = re.sub(r"^/rustc/[0-9a-f]+/", "rust/", loc)
    return "panic:" + loc


def engine_class(msg):
    m = re.sub(r"^\s*(jobs:)?\s*EnginePanic:\s*", "", msg)
    m = re.sub(r"\d+", "N", m)
    m = re.sub(r"[^A-Za-z: ]+", " ", m).strip()
    return "enginepanic:" + "-".join(m.split()[:8]).lower()


def death_class(ev):
    err = ev.get("stderr", "")
    if "has overflowed its stack" in err:
        return "child-death:native-stack-overflow"
    if "memory allocation of" in err:
        return None    # out of memory under RLIMIT_AS: resource exhaustion of the sandbox, discarded and counted
    m = re.search(r"panicked at ([^\n:]+:\d+)", err)
    if m:
        return "child-death:" + panic_class(m.group(1))
    if ev.get("signal") == "SIGKILL":
        return None    # killed from outside (system OOM killer / watchdog): discarded and counted
    return "child-death:%s" % ev.get("signal")


# ----------------------------------------------------------------------------------------------------------
# the kernel part: gaps + grid correspondence

REFUTE = """From Coq Require Import ZArith List.
From C02 Require Import Model_C02 Proofs_C02.
From Gen Require Import FastPaths.
Local Open Scope Z_scope.
(* the faithful (regenerated) model refutes totality: witnesses by computation *)
Theorem rem_fast_refuted : exists x y, in_i32 x /\\ in_i32 y /\\
  forall p, run_fast p Rem x y = Panic PkRemOverflow /\\ run_ops p Rem x y = Panic PkRemOverflow.
Proof. exists i32_min, (-1). split; [|split]; [unfold in_i32, i32_min, i32_max; split; discriminate ..|]. intros []; split; vm_compute; reflexivity. Qed.
Print Assumptions rem_fast_refuted.
"""
REFUTE_NEG = """From Coq Require Import ZArith List.
From C02 Require Import Model_C02 Proofs_C02.
From Gen Require Import FastPaths.
Local Open Scope Z_scope.
Theorem neg_refuted : exists n, in_i32 n /\\ neg_ops_i32 Debug n = Panic PkNegOverflow /\\ neg_ops_i32 Release n = Ok (JInt n).
Proof. exists i32_min. split; [unfold in_i32, i32_min, i32_max; split; discriminate|]. split; vm_compute; reflexivity. Qed.
Print Assumptions neg_refuted.
"""


def gap_status(model, avs, bvs):
    """Which side of rem_gap_decided / neg_gap_decided holds on the regenerated model (read off the grid, which
    contains the witnesses), and -- when open -- the refutation lemmas proved in a scratch theory."""
    k = avs.index(I32_MIN) * len(bvs) + bvs.index(-1)
    st = {"rem_open": any(model[p][r]["Rem"][k][0] == 0 for p in ("debug", "release") for r in ("fast", "ops")),
          "neg_open": model["debug"]["neg"][avs.index(I32_MIN)][0] == 0}
    kz = avs.index(0) * len(bvs) + bvs.index(-1)
    st["div_negzero_filter"] = {r: model["debug"][r]["Div"][kz][0] != 1 for r in ("fast", "ops")}   # 0 / -1 not an Integer32
    src, names = "", []
    if st["rem_open"]:
        src += REFUTE
        names.append("rem_fast_refuted")
    if st["neg_open"]:
        src += REFUTE_NEG.split("Local Open Scope Z_scope.\n", 1)[1] if src else REFUTE_NEG
        names.append("neg_refuted")
    if names:
        rc, out, err = vlib.coq_eval("Refuted_C02", src, timeout=900)
        closed = out.count("Closed under the global context")
        for n in names:
            st[n] = ("proved (vm_compute witness); Closed under the global context" if rc == 0 and closed == len(names)
                     else "FAILED: " + (err or out)[-300:])
    return st


GRID_FN = {op: "(function(a,b){ return a %s b; })" % JSOP[op] for op in BINOPS}
FUSED_FN = {op: ["(function(a,b){ if (a %s b) { return 1; } return 0; })" % JSOP[op],
                 "(function(a,b){ var n = 0; while (a %s b) { n = 1; break; } return n; })" % JSOP[op],
                 "(function(a,b){ for (var n = 0; a %s b; ) { return 1; } return n; })" % JSOP[op]] for op in ("Lt", "Le", "Gt", "Ge")}
UNARY_FN = {"inc_new": "(function(a){ a++; return a; })", "inc_old": "(function(a){ return a++; })", "inc_pre": "(function(a){ return ++a; })",
            "dec_new": "(function(a){ a--; return a; })", "dec_old": "(function(a){ return a--; })", "dec_pre": "(function(a){ return --a; })"}


def lit(n):
    """An expression the constant folder turns into the Integer32 literal n (also for i32::MIN)."""
    return str(n) if n >= 0 else "~%d" % (-n - 1)


def var_lit(n):
    return str(n) if n >= 0 else "(%d|0)" % n


def kernel_class(op, a, b):
    if op in ("Rem", "rem") and a == I32_MIN and b == -1:
        return "rem-i32-min-by-minus-one"
    if op == "neg" and a == I32_MIN:
        return "neg-i32-min-overflow-checked"
    return "arith-%s-panic" % str(op).lower()


def grid_stage(run, bins, model, avs, bvs, sample_vals):
    """Compare model and implementation.  Returns (mismatches, panics) ; panics = property failures (impl panicked)."""
    mism, panics = [], []
    csa, csb = ",".join(map(str, avs)), ",".join(map(str, bvs))
    pairs = [(a, b) for a in avs for b in bvs]
    stats = {}
    for prof, binpath in bins.items():
        class _NoModel(dict):
            """model unavailable (proof/translator broken): implementation-only run, property oracle = no panic"""
            def __getitem__(self, k):
                return _NoModel()
        m = model[prof] if model is not None else _NoModel()
        lines, meta = ["cfg fresh=0"], []
        for op in BINOPS:
            lines.append("grid g:%s 2 %s %s %s" % (op, csa, csb, esc(GRID_FN[op])))
            meta.append(("opcode", op, m["fast"][op], pairs, None))
            if op in APIOP:
                lines.append("api a:%s %s %s %s" % (op, APIOP[op], csa, csb))
                meta.append(("api", op, m["ops"][op], pairs, None))
        for op, fns in FUSED_FN.items():
            for k, fn in enumerate(fns):
                lines.append("grid f%d:%s 2 %s %s %s" % (k, op, csa, csb, esc(fn)))
                meta.append(("fused%d" % k, op, m["fast"][op], pairs, "bool01"))
        lines.append("api a:neg neg %s 0" % csa)
        meta.append(("api", "neg", m["neg"], [(a, 0) for a in avs], None))
        for name, fn in UNARY_FN.items():
            lines.append("grid u:%s 1 %s 0 %s" % (name, csa, esc(fn)))
            meta.append(("opcode", name, m[name[:3]], [(a, 0) for a in avs], name))
        out, rc, err = run_simple(binpath, lines, timeout=1500)
        rows = [l.split("\t", 1) for l in out if "\t" in l]
        if rc != 0 or len(rows) != len(meta):
            mism.append({"build": prof, "what": "harness produced %d of %d grid rows (exit %s) %s" % (len(rows), len(meta), rc, err[-200:])})
            continue
        for (route, op, encs, prs, mode), (rid, row) in zip(meta, rows):
            got = row.split(" ")
            if model is None:
                for (a, b), g in zip(prs, got):
                    run.count((prof, route, op, a, b))
                    stats[(prof, route)] = stats.get((prof, route), 0) + 1
                    if g.startswith("P:"):
                        panics.append({"build": prof, "route": route, "op": op, "a": a, "b": b, "impl": g, "model_agrees": None,
                                       "class": kernel_class(op, a, b)})
                continue
            if len(got) != len(prs) or len(encs) != len(prs):
                mism.append({"build": prof, "route": route, "op": op, "what": "row length %d/%d/%d" % (len(got), len(encs), len(prs))})
                continue
            for (a, b), enc, g in zip(prs, encs, got):
                if mode in ("inc_new", "inc_pre", "dec_new", "dec_pre", "inc_old", "dec_old"):
                    d = 1.0 if mode.startswith("inc") else -1.0
                    if enc[0] == 4:      # guard false: to_numeric path, float arithmetic
                        exp = ("V", "F%016x" % fbits(float(a) + (0.0 if mode.endswith("old") else d)))
                    elif enc[0] == 5:
                        exp = js_expect(enc[1:3] if mode.endswith("old") else enc[3:5])
                    else:
                        exp = js_expect(enc)
                elif mode == "bool01":
                    exp = js_expect(enc)
                    if exp[0] == "V" and exp[1].startswith("B"):
                        exp = ("V", "I" + exp[1][1:])
                else:
                    exp = js_expect(enc)
                key = (prof, route, op, a, b)
                run.count(key)
                stats[(prof, route)] = stats.get((prof, route), 0) + 1
                if len(run.cov["samples"]) < 4 and a == I32_MIN and op in ("Rem", "Div", "Mul", "inc_new"):
                    run.sample({"build": prof, "route": route, "op": op, "a": a, "b": b, "model": exp[1], "impl": g})
                if g.startswith("P:"):
                    panics.append({"build": prof, "route": route, "op": op, "a": a, "b": b, "impl": g, "model_agrees": exp[0] == "P",
                                   "class": kernel_class(op, a, b)})
                if mode in ("inc_old", "dec_old") and exp[0] == "V":
                    # the value of a postfix update is produced by the bytecompiler's own ToNumeric, not by the Inc arm
                    okc = as_number(exp[1]) == as_number(g)
                else:
                    okc = matches(exp, g)
                if not okc:
                    mism.append({"build": prof, "route": route, "op": op, "a": a, "b": b, "model": exp[1], "impl": g})
        # source-text routes (fresh parse per case): global variables -> opcode handlers; literals -> constant folder
        lines, meta = ["cfg fresh=0"], []
        for op in BINOPS:
            for (a, b) in sample_vals:
                lines.append("val s:%s:%d:%d %s" % (op, a, b, esc("var A = %s; var B = %s; A %s B" % (var_lit(a), var_lit(b), JSOP[op]))))
                meta.append(("source-vars", op, a, b, m["fast"][op][pairs.index((a, b))] if model is not None else None))
                if op == "Pow" and a < 0:
                    continue     # `~k ** n` is an early SyntaxError (unary operand of **)
                lines.append("val c:%s:%d:%d %s" % (op, a, b, esc("%s %s %s" % (lit(a), JSOP[op], lit(b)))))
                meta.append(("source-folded", op, a, b, m["ops"][op][pairs.index((a, b))] if model is not None else None))
        for a in sorted(set(x for x, _ in sample_vals)):
            lines.append("val n:%d %s" % (a, esc("-%s" % lit(a))))
            meta.append(("source-folded", "neg", a, 0, m["neg"][avs.index(a)] if model is not None else None))
        res, events = run_resilient(binpath, 256, lines[0], [(l.split(" ")[1], l) for l in lines[1:]], 120)
        for (route, op, a, b, enc) in meta:
            rid = ("n:%d" % a) if op == "neg" else "%s:%s:%d:%d" % ("s" if route == "source-vars" else "c", op, a, b)
            g = (res.get(rid) or ["<no-output>"])[0]
            exp = js_expect(enc) if enc is not None else ("V", g)
            run.count((prof, route, op, a, b))
            stats[(prof, route)] = stats.get((prof, route), 0) + 1
            if g.startswith("P:"):
                src = ("-%s" % lit(a)) if op == "neg" else (("var A = %s; var B = %s; A %s B" % (var_lit(a), var_lit(b), JSOP[op])) if route == "source-vars" else "%s %s %s" % (lit(a), JSOP[op], lit(b)))
                panics.append({"build": prof, "route": route, "op": op, "a": a, "b": b, "impl": g, "model_agrees": exp[0] == "P",
                               "class": kernel_class(op, a, b), "program": src})
            ok = matches(exp, g) if exp[0] == "P" else (as_number(exp[1]) == as_number(g))
            if not ok:
                mism.append({"build": prof, "route": route, "op": op, "a": a, "b": b, "model": exp[1], "impl": g})
    run.cov["grid_cases"] = {"%s/%s" % k: v for k, v in sorted(stats.items())}
    return mism, panics


# ----------------------------------------------------------------------------------------------------------
# deepening round: index kernels (coq/Gen/IndexPaths.v) against the builtins they were translated from

IDX_INPUTS = ["0", "1", "2", "4", "5", "6", "-1", "-2", "-5", "-6", "-7", "2147483648", "-2147483649", "9007199254740992",
              "-9007199254740992", "1e30", "-1e30", "Infinity", "-Infinity", "NaN", "0.9", "-0.9", "1.5", "-1.5", "-9223372036854775808"]
IDX_LENS = [5, 1, 0]
I64_MIN, I64_MAX = -2 ** 63, 2 ** 63 - 1


def ioi_of(txt):
    x = float(txt)
    if x != x or abs(x) < 1:
        return "(IInt 0)", 0
    if x == math.inf:
        return "IPosInf", None
    if x == -math.inf:
        return "INegInf", None
    v = max(I64_MIN, min(I64_MAX, int(x)))          # Rust `as i64` saturates
    return "(IInt (%d))" % v, v


# site -> (JS program template over S (string literal), A (array literal), X; how to read the model's index)
def _idx_sites():
    rd = lambda body: "(function(){ var S = %(S)s, A = %(A)s; " + body + " })()"
    return {
        "string_at": (rd("var r = S.at(%(X)s); return r === undefined ? -1 : r.charCodeAt(0) - 97;"), lambda k, n: k if k is not None and 0 <= k < n else (-1 if k is None else "P")),
        "array_at": (rd("var r = A.at(%(X)s); return r === undefined ? -1 : r;"), lambda k, n: k if k is not None and 0 <= k < n else -1),
        "typed_array_at": (rd("var r = new Uint8Array(A).at(%(X)s); return r === undefined ? -1 : r;"), lambda k, n: k if k is not None and 0 <= k < n else -1),
        "string_slice_from": (rd("return S.slice(%(X)s).length;"), lambda k, n: n - k),
        "string_slice_to": (rd("return S.slice(0, %(X)s).length;"), lambda k, n: k),
        "array_relative_start": (rd("return A.slice(%(X)s).length;"), lambda k, n: n - k),
        "array_relative_end": (rd("return A.slice(0, %(X)s).length;"), lambda k, n: k),
        "array_last_index_of_from": (rd("return A.map(function(){ return 7; }).lastIndexOf(7, %(X)s);"), lambda k, n: -1 if (k is None or k < 0 or n == 0) else k),
    }


def index_stage(run, bins):
    """Model (vm_compute on the regenerated definitions) vs. the builtins, on edge relative indices.  Returns
    (mismatches, panics)."""
    sites = _idx_sites()
    names = sorted(sites)
    iois = [ioi_of(x) for x in IDX_INPUTS]
    terms = []
    for prof in ("Debug", "Release"):
        for nm in names:
            for n in IDX_LENS:
                terms.append("[" + "; ".join("enc_res_idx (%s %s %d %s)" % (nm, prof, n, c) for c, _ in iois) + "]")
    body = ("From Coq Require Import ZArith List.\nFrom C02 Require Import Model_C02 DeepModel_C02.\nFrom Gen Require Import IndexPaths.\n"
            "Import ListNotations.\nLocal Open Scope Z_scope.\nEval vm_compute in [\n%s\n]." % ";\n".join(terms))
    rc, out, err = vlib.coq_eval("Idx_C02", body, timeout=900)
    if rc != 0:
        return [{"what": "index model evaluation failed: " + (err or out)[-600:]}], [], None
    data = parse_nested(out[out.find("= ") + 2:])
    model, it = {}, iter(data)
    for prof in ("debug", "release"):
        for nm in names:
            for n in IDX_LENS:
                model[(prof, nm, n)] = next(it)
    mism, panics, cnt = [], [], 0
    for prof, binpath in bins.items():
        lines, meta = [], []
        for nm in names:
            tmpl, rd = sites[nm]
            for n in IDX_LENS:
                S = '"%s"' % "abcde"[:n]
                A = "[%s]" % ", ".join(str(i) for i in range(n))
                for k, x in enumerate(IDX_INPUTS):
                    cid = "i:%s:%d:%d" % (nm, n, k)
                    lines.append("val %s %s" % (cid, esc(tmpl % {"S": S, "A": A, "X": "(%s)" % x})))
                    meta.append((cid, nm, n, x, model[(prof, nm, n)][k], rd))
        res, events = run_resilient(binpath, 256, "cfg fresh=0", [(l.split(" ")[1], l) for l in lines], 120)
        for cid, nm, n, x, enc, rd in meta:
            g = (res.get(cid) or ["<no-output>"])[0]
            cnt += 1
            run.count((prof, "index", nm, n, x))
            if enc[0] == 0:
                exp = "P"
            else:
                exp = rd(enc[1] if enc[0] == 1 else None, n)
            if g.startswith("P:"):
                cls = ("string-at-i64-min" if nm == "string_at" else "array-at-i64-min" if nm == "array_at" else "index-%s-panic" % nm)
                panics.append({"build": prof, "route": "index", "op": nm, "a": n, "b": 0, "x": x, "impl": g, "model_agrees": exp == "P", "class": cls,
                               "program": sites[nm][0] % {"S": '"%s"' % "abcde"[:n], "A": "[%s]" % ", ".join(str(i) for i in range(n)), "X": "(%s)" % x}})
            ok = g.startswith("P:") if exp == "P" else as_number(g) == as_number("I%d" % exp)
            if not ok:
                mism.append({"build": prof, "route": "index", "op": nm, "len": n, "x": x, "model": exp, "impl": g})
    run.cov["index_cases"] = cnt
    gaps = {"string_at_open": model[("debug", "string_at", 1)][IDX_INPUTS.index("-1e30")][0] == 0,
            "array_at_open": model[("debug", "array_at", 1)][IDX_INPUTS.index("-1e30")][0] == 0}
    return mism, panics, gaps


# ----------------------------------------------------------------------------------------------------------
# the search part

def hexline(cid, data):
    return "hex %s %s" % (cid, data.hex())


def textline(cid, text):
    return "run %s %s" % (cid, esc(text))


def case_line(cid, c):
    return hexline(cid, c["bytes"]) if "bytes" in c else textline(cid, c["text"])


def case_text(c):
    return c["bytes"].decode("utf8", "replace") if "bytes" in c else c["text"]


CFGS = {
    "default": "cfg loop=20000 rec=- stack=- jobs=1 strict=0 opt=default entry=eval",
    "low": "cfg loop=60 rec=12 stack=400 jobs=1 strict=0 opt=default entry=eval",
    "lowrec": "cfg loop=3000 rec=3 stack=- jobs=1 strict=1 opt=0 entry=script",
    "module": "cfg loop=2000 rec=40 stack=- jobs=1 strict=0 opt=default entry=module",
    "rec40": "cfg loop=2000 rec=40 stack=- jobs=1 strict=0 opt=default entry=eval",
}


def build_streams(run, quick):
    import c02_gen as G
    rng = run.rng
    snippets, sstats = G.extract_snippets(vlib.REPO)
    snippets = [s for s in snippets if not re.search(r"TestAction::|JsValue::|#\[test\]|let mut |\.unwrap\(\)|fn \w+\(", s)]
    corpus_progs = []
    cdir = os.path.join(vlib.CORPUS, PROP)
    if os.path.isdir(cdir):
        for f in sorted(os.listdir(cdir)):
            if f.endswith(".js"):
                corpus_progs.append(open(os.path.join(cdir, f), encoding="utf8", errors="replace").read())
    n_raw, n_mut, n_gram, n_deep, n_ic, n_lim, n_stk = (500, 1300, 700, 40, 250, 500, 40) if quick else (2500, 8000, 4000, 200, 2000, 4000, 200)
    cases = []
    for _ in range(n_raw):
        cases.append({"stream": "raw", "bytes": G.raw_bytes(rng)})
    pool = snippets + corpus_progs
    # every snippet unmutated (quick: a seeded sample), then mutants
    base = list(pool) if not quick else rng.sample(pool, min(len(pool), 400))
    for s in base:
        cases.append({"stream": "snippet", "text": s})
    for _ in range(n_mut):
        s = rng.choice(pool)
        cases.append({"stream": "mutant", "text": G.mutate(s, rng, G.INTERESTING, rng.choice(pool))})
    for _ in range(n_gram):
        cases.append({"stream": "grammar", "text": G.gen_program(rng)})
    for _ in range(n_deep):
        cases.append({"stream": "deep", "text": G.deep_nest(rng)})
    for _ in range(n_ic):
        cases.append({"stream": "ic-history", "text": G.gen_ic_program(rng), "cfg": "default"})
    for _ in range(n_lim):
        cfgname = rng.choice(["low", "lowrec", "low", "rec40"])
        lim = {"low": 12, "lowrec": 3, "rec40": 40}[cfgname]
        cases.append({"stream": "limit", "text": G.gen_limit_program(rng, lim), "cfg": cfgname})
    for _ in range(n_stk):
        cases.append({"stream": "limit", "text": G.gen_stack_program(rng), "cfg": "low"})
    for m in G.MODULE_FORMS:
        cases.append({"stream": "module", "text": m, "cfg": "module"})
        cases.append({"stream": "module", "text": G.mutate(m, rng, G.INTERESTING, rng.choice(G.MODULE_FORMS)), "cfg": "module"})
    kept, dropped = [], 0
    for c in cases:
        t = case_text(c)
        if G.nesting(t) > 64 or len(t) > 80000:
            dropped += 1
            continue
        if "cfg" not in c:
            c["cfg"] = rng.choice(["default", "default", "low", "lowrec", "module"]) if c["stream"] in ("grammar", "mutant", "snippet") else rng.choice(["default", "low"])
        kept.append(c)
    dist = {}
    for c in kept:
        dist[c["stream"]] = dist.get(c["stream"], 0) + 1
    return kept, {"snippets_extracted": len(snippets), "snippet_sources": sstats, "corpus_programs": len(corpus_progs),
                  "dropped_nesting_gt_64_or_too_long": dropped, "stream_counts": dist}


def fuzz_config(run, label, binpath, stack_mb, fresh, cases, idle_timeout, chunk=150):
    """Run all cases under one build/stack/context mode; returns (failures, counts)."""
    groups = {}
    for k, c in enumerate(cases):
        groups.setdefault(c["cfg"], []).append((k, c))
    jobs = []
    for cfgname, lst in groups.items():
        for i in range(0, len(lst), chunk):
            jobs.append((cfgname, lst[i:i + chunk]))
    counts = {"ok": 0, "throw": 0, "syntax": 0, "limit": 0, "panic": 0, "enginepanic": 0, "death": 0, "hang": 0, "oom": 0, "no-output": 0}
    fails = []

    def one(job):
        cfgname, lst = job
        cfg_line = CFGS[cfgname] + " fresh=%d" % (1 if fresh else 0)
        res, events = run_resilient(binpath, stack_mb, cfg_line, [("%d" % k, case_line("%d" % k, c)) for k, c in lst], idle_timeout)
        return job, cfg_line, res, events

    with ThreadPoolExecutor(max_workers=max(2, min(vlib.NCPU, 12))) as ex:
        for (cfgname, lst), cfg_line, res, events in ex.map(one, jobs):
            byid = {"%d" % k: c for k, c in lst}
            order = ["%d" % k for k, _ in lst]
            for cid in order:
                f = res.get(cid)
                c = byid[cid]
                if f is None:
                    continue
                st = f[0]
                counts[st] = counts.get(st, 0) + 1
                if len(run.cov["samples"]) < 6 and st in ("limit", "throw") and c.get("stream") in ("limit", "mutant", "ic-history"):
                    run.sample({"config": label, "cfg": cfg_line, "stream": c["stream"], "input": case_text(c)[:300], "outcome": "\t".join(f)})
                run.count((label, cid, st), nontrivial=st != "syntax")
                if st == "panic":
                    loc, msg = (f[1] if len(f) > 1 else "?:0"), (f[2] if len(f) > 2 else "")
                    fails.append({"case": c, "cfg": cfg_line, "label": label, "class": panic_class(loc, msg), "detail": "%s: %s" % (loc, msg),
                                  "prefix": [byid[i] for i in order[:order.index(cid)]] if not fresh else []})
                elif st == "enginepanic":
                    msg = f[1] if len(f) > 1 else ""
                    fails.append({"case": c, "cfg": cfg_line, "label": label, "class": engine_class(msg), "detail": msg,
                                  "prefix": [byid[i] for i in order[:order.index(cid)]] if not fresh else []})
            for ev in events:
                cul = ev.get("culprit")
                if ev["kind"] == "hang":
                    counts["hang"] += 1
                    continue
                cls = death_class(ev)
                if cls is None:
                    counts["oom"] += 1
                    continue
                counts["death"] += 1
                if cul is None:
                    continue
                fails.append({"case": byid[cul], "cfg": cfg_line, "label": label, "class": cls,
                              "detail": "%s %s" % (ev.get("signal"), ev.get("stderr", "")[-300:]),
                              "prefix": [byid[i] for i in ev.get("prefix", [])] if not fresh else []})
    return fails, counts


def reproduce(binpath, stack_mb, cfg_line, case, idle_timeout=60):
    """Outcome class of one case alone on a fresh context (None = no failure)."""
    cfg1 = re.sub(r"fresh=\d", "fresh=1", cfg_line)
    res, events = run_resilient(binpath, stack_mb, cfg1, [("x", case_line("x", case))], idle_timeout)
    f = res.get("x")
    if f and f[0] == "panic":
        return panic_class(f[1] if len(f) > 1 else "?:0", f[2] if len(f) > 2 else "")
    if f and f[0] == "enginepanic":
        return engine_class(f[1] if len(f) > 1 else "")
    for ev in events:
        if ev["kind"] == "death":
            return death_class(ev)
    return None


def shrink(binpath, stack_mb, cfg_line, case, cls, budget=60):
    """Token-level delta debugging that keeps the class label."""
    import c02_gen as G
    if "bytes" in case:
        data = case["bytes"]
        n = max(1, len(data) // 2)
        while n >= 1 and budget > 0 and len(data) > 1:
            i, progressed = 0, False
            while i < len(data) and budget > 0:
                cand = data[:i] + data[i + n:]
                budget -= 1
                if cand and reproduce(binpath, stack_mb, cfg_line, {"bytes": cand}) == cls:
                    data, progressed = cand, True
                else:
                    i += n
            if not progressed:
                n //= 2
        return dict(case, bytes=data)
    toks = G.tokenize_js(case["text"])
    n = max(1, len(toks) // 2)
    while n >= 1 and budget > 0 and len(toks) > 1:
        i, progressed = 0, False
        while i < len(toks) and budget > 0:
            cand = toks[:i] + toks[i + n:]
            budget -= 1
            if cand and reproduce(binpath, stack_mb, cfg_line, {"text": "".join(cand)}) == cls:
                toks, progressed = cand, True
            else:
                i += n
        if not progressed:
            n //= 2
    return dict(case, text="".join(toks))


def case_json(c):
    d = {"stream": c.get("stream"), "cfg": c.get("cfg")}
    if "bytes" in c:
        d["input_hex"] = c["bytes"].hex()
        d["input_preview"] = c["bytes"].decode("utf8", "replace")[:400]
    else:
        d["input_text"] = c["text"]
    return d


# ----------------------------------------------------------------------------------------------------------

def pending_known():
    """Findings of the deepening round that are reported to the coordinator (fix patch in fixes.d/) and await a decision:
    fixes.d/C02-pending-findings.json.  They are matched like known findings -- by the class computed from the failing
    case -- and printed with a [PENDING] prefix, so the check stays usable as a regression gate meanwhile.  Deleting an
    entry (or the file) turns the class back into a VIOLATION; applying the fix closes the gap and the entry is moot."""
    p = os.path.join(vlib.VERIF, "fixes.d", "C02-pending-findings.json")
    try:
        extra = json.load(open(p))["findings"]
    except (OSError, ValueError, KeyError):
        return
    kf = vlib.known_findings()
    have = {(k["property"], k["class"]) for k in kf.get("findings", [])}
    for e in extra:
        if (e["property"], e["class"]) not in have:
            e = dict(e, what="[PENDING coordinator decision] " + e["what"])
            kf.setdefault("findings", []).append(e)


def proposed_known():
    """Testing aid: VERIF_C02_PROPOSED_KNOWN=1 additionally treats the classes proposed in
    fixes.d/C02-known-findings.proposed.json as known findings (default: off)."""
    if os.environ.get("VERIF_C02_PROPOSED_KNOWN") != "1":
        return
    p = os.path.join(vlib.VERIF, "fixes.d", "C02-known-findings.proposed.json")
    try:
        extra = json.load(open(p))["findings"]
    except (OSError, ValueError, KeyError):
        return
    kf = vlib.known_findings()
    have = {(k["property"], k["class"]) for k in kf.get("findings", [])}
    for e in extra:
        if (e["property"], e["class"]) not in have:
            kf.setdefault("findings", []).append(e)


def release_build(timeout=6000):
    """Release-profile harness (overflow checks and debug assertions off) in its own target directory and under its
    own lock, so that a long optimised build never blocks the shared debug target (thorough tier only)."""
    td = os.path.join(vlib.HARNESS, "target-release")
    cmd = ["nice", "-n", "10", "cargo", "build", "--offline", "--release", "--target-dir", td, "--bin", "c02"]
    with vlib.Lock("cargo-release-c02"):
        rc, out, err = vlib.sh(cmd, cwd=vlib.HARNESS, timeout=timeout, env=vlib.cargo_env())
    path = os.path.join(td, "release", "c02")
    return rc == 0 and os.path.exists(path), path, (out + err)[-3000:]


def main():
    run = Run(PROP, "proof")
    pending_known()
    proposed_known()
    quick = run.quick
    run.cov["rule"] = ("kernel cases: (build, route, operator, a, b) over the boundary grid of %d x %d i32 edge values (+ seeded random), routes = opcode handler via "
                       "JS function called with Integer32 arguments / fused compare-and-branch / public API / source text with variables / constant-folded literals; "
                       "search cases: (configuration, input) with outcome; non-trivial = every kernel case, and every search case that got past the parser "
                       "(outcome other than an early SyntaxError); distinct = distinct (configuration, case, outcome)" % (len(EDGES), len(EDGES)))
    broken = None
    # 1. translator
    import gen_c02
    try:
        text, info = gen_c02.generate(vlib.REPO)
        vlib.write_if_changed(os.path.join(vlib.COQ, "Gen", "FastPaths.v"), text)
        run.cov["translator"] = {"sources": [gen_c02.OPS_RS, gen_c02.INC_RS, gen_c02.DEC_RS, gen_c02.BIN_RS, gen_c02.JUMP_RS],
                                 "fast_helpers": len(info["fast"]), "ops_arms": len(info["ops"]) + 1, "unary": info["unary"],
                                 "opcode_wiring_checked": info["opcodes"]}
        import gen_c02b
        text2, info2 = gen_c02b.generate(vlib.REPO)
        vlib.write_if_changed(os.path.join(vlib.COQ, "Gen", "IndexPaths.v"), text2)
        ex = info2["js_expect_sites"]
        bycls = {}
        for e in ex:
            bycls[e["class"]] = bycls.get(e["class"], 0) + 1
        run.cov["index_translator"] = {"sources": list(gen_c02b.FILES.values()), "pinned_sites": [x["name"] for x in info2["pinned"]],
                                       "other_sites_translated": [x["site"] for x in info2["other_translated"]], "sites_refused": info2["refused"]}
        run.cov["expect_sites"] = {"total": len(ex), "by_class": bycls,
                                   "js_expect_reachable_by_runtime_limit": ["%s:%d %s" % (e["file"], e["line"], e["message"]) for e in ex
                                                                           if e["class"].startswith("js_expect:may-run")][:80],
                                   "note": "evidence only: syntactic enumeration (js_expect/expect with a literal message) with a 6-line context heuristic"}
    except Exception as e:
        broken = {"kind": "translator", "detail": {"error": "%s: %s" % (type(e).__name__, e)}}
    # 2. proofs + gates
    gaps = None
    if broken is None:
        pr = vlib.proof_stage(PROP, ["C02"], "C02/Props_C02.v", extra_targets=["C02/Extract_C02.vo"])
        try:
            ex = open(os.path.join(vlib.COQ, "C02", "Extract_C02.v")).read()
            run.cov["extraction_directives"] = re.findall(r"^(?:From|Require|Extraction|Extract)[^\n]*", vlib.strip_coq_comments(ex), re.M)
        except OSError:
            pass
        run.set_proof(pr, TRUSTED)
        if not pr["ok"]:
            broken = pr["broken"]
        else:
            pass
    else:
        run.cov.update({"obligations": 8, "discharged": 0, "checker_cmd": "tools/gen_c02.py", "trusted_base": TRUSTED})
    run.cov["level_note"] = "proof covers the modelled i32 kernels only; the fuzz streams below are SEARCH (no completeness claim)"
    # 3. harness, both profiles
    bins = {}
    ok, paths, blog = vlib.harness_build(["c02"])
    if not ok:
        if re.search(r"^error", blog, re.M):
            run.violation({"kind": "correspondence-broken", "obligation": "harness `c02` no longer compiles against /repo",
                           "log": blog[-3000:]}, found_input=False)
            return run.finish()
        vlib.infra_error(PROP, "harness build failed: %s" % blog[-400:])
    bins["debug"] = paths["c02"]
    if not quick or os.environ.get("VERIF_C02_RELEASE") == "1":
        okr, rpath, rlog = release_build()
        if okr:
            bins["release"] = rpath
        else:
            run.notes.append({"release_build": "not available, release-profile comparison skipped: " + rlog[-300:]})
    run.cov["builds"] = sorted(bins)
    # 4. kernel correspondence
    t0 = time.time()
    avs = list(EDGES)
    for _ in range(4 if quick else 24):
        avs.append(run.rng.randrange(I32_MIN, I32_MAX + 1))
    bvs = list(avs)
    sv = [I32_MIN, -1, 0, 1, 2, -7, 31, 65536, I32_MAX, 46341, -2]
    sample_vals = [(a, b) for a in sv[:(6 if quick else 11)] for b in sv[:(6 if quick else 11)]]
    corr_bad, kernel_panics = [], []
    if broken is None:
        model, err = model_grid(avs, bvs)
        if model is None:
            broken = {"kind": "correspondence", "detail": {"error": "model evaluation failed: " + err}}
        else:
            gaps = gap_status(model, avs, bvs)
            run.cov["gaps"] = gaps
            for k in ("rem_fast_refuted", "neg_refuted"):
                if k in gaps:
                    run.cov["theorems"].append(k + " (scratch theory, holds on this tree)")
                    if gaps[k].startswith("FAILED"):
                        broken = {"kind": "proof", "detail": {"error": "%s: %s" % (k, gaps[k])}}
            corr_bad, kernel_panics = grid_stage(run, bins, model, avs, bvs, sample_vals)
    if broken is None:
        imism, ipanics, igaps = index_stage(run, bins)
        corr_bad += imism
        kernel_panics += ipanics
        if igaps is not None:
            run.cov.setdefault("gaps", {}).update(igaps)
    if broken is not None and not kernel_panics:
        # proof / translator / model broken: enlarged implementation-only grid, oracle = no panic
        _, kernel_panics = grid_stage(run, bins, None, avs, bvs, sample_vals)
    run.cov["kernel_wall_s"] = round(time.time() - t0, 1)
    # 5. search
    t0 = time.time()
    cases, ginfo = build_streams(run, quick)
    run.cov["generator"] = ginfo
    enlarged = broken is not None or bool(corr_bad)
    idle = 12 if quick else 60
    configs = [("debug/512MB-stack/fresh", bins["debug"], 512, True, cases),
               ("debug/512MB-stack/reused", bins["debug"], 512, False, cases),
               ("debug/64MB-stack/reused", bins["debug"], 64, False, cases if (not quick or enlarged) else cases[::4])]
    if "release" in bins:
        configs += [("release/16MB-stack/reused", bins["release"], 16, False, cases),
                    ("release/16MB-stack/fresh", bins["release"], 16, True, cases)]
    # corpus of past failures first
    corpus_fail = []
    cdir = os.path.join(vlib.CORPUS, PROP)
    ccases = []
    if os.path.isdir(cdir):
        for f in sorted(os.listdir(cdir)):
            if f.endswith(".json"):
                try:
                    o = json.load(open(os.path.join(cdir, f)))
                except ValueError:
                    continue
                c = {"stream": "corpus", "cfg": o.get("cfg", "default")}
                if "input_hex" in o:
                    c["bytes"] = bytes.fromhex(o["input_hex"])
                else:
                    c["text"] = o.get("input_text", "")
                if c["cfg"] not in CFGS:
                    c["cfg"] = "default"
                ccases.append(c)
    all_fails, outcome = [], {}
    if ccases:
        for label, b, mb, fresh, _ in configs[::2]:
            f, cnt = fuzz_config(run, "corpus:" + label, b, mb, True, ccases, idle)
            all_fails += f
            outcome["corpus:" + label] = cnt
    for label, b, mb, fresh, cs in configs:
        f, cnt = fuzz_config(run, label, b, mb, fresh, cs, idle)
        all_fails += f
        outcome[label] = cnt
    run.cov["search_outcomes"] = outcome
    run.cov["programs"] = len(cases)
    run.cov["search_wall_s"] = round(time.time() - t0, 1)
    # 6. verdicts
    # 6a. kernel property failures (the implementation panicked on a grid case)
    seen = set()
    for kp in kernel_panics:
        key = (kp["class"],)
        if key in seen:
            continue
        seen.add(key)
        a, b, op = kp["a"], kp["b"], kp["op"]
        prog = kp.get("program") or ("var a = %s, b = %s; a %s b" % (var_lit(a), var_lit(b), JSOP.get(op, "?")) if op in JSOP else
                                     "-%s" % lit(a) if op == "neg" else "")
        hits = [x for x in kernel_panics if x["class"] == kp["class"]]
        run.violation({"kind": "counterexample", "class": kp["class"], "input_text": prog, "op": op, "a": a, "b": b,
                       "impl_output": kp["impl"], "model_agrees_it_panics": kp["model_agrees"],
                       "routes_hit": sorted(set("%s/%s" % (x["build"], x["route"]) for x in hits)),
                       "obligation": "outcome in {value, JS exception, RuntimeLimit}; kernel theorem side: " + json.dumps(gaps),
                       "cfg": "default", "how_to_rerun": "./check replay <this file>"})
    # 6b. model / implementation disagreement
    for cb in corr_bad[:5]:
        run.violation(dict(cb, kind="correspondence-broken", obligation="Gen/FastPaths.v (regenerated, vm_compute) vs implementation on the boundary grid",
                           input_text=("var a = %s, b = %s; a %s b" % (var_lit(cb.get("a", 0)), var_lit(cb.get("b", 0)), JSOP.get(cb.get("op"), "?"))),
                           cfg="default"), found_input=bool(kernel_panics or all_fails))
    # 6c. search failures, one replay per class (smallest input), shrunk
    byclass = {}
    for f in all_fails:
        byclass.setdefault(f["class"], []).append(f)
    run.cov["search_failure_classes"] = {k: len(v) for k, v in sorted(byclass.items())}
    for cls, lst in sorted(byclass.items()):
        if (cls,) in seen:
            continue      # already reported from the grid with the same class
        lst.sort(key=lambda f: (len(f["prefix"]), len(case_text(f["case"]))))
        f = lst[0]
        label = f["label"].replace("corpus:", "")
        b = bins["debug" if label.startswith("debug") else "release"]
        mb = int(re.search(r"/(\d+)MB", label).group(1))
        alone = reproduce(b, mb, f["cfg"], f["case"])
        obj = {"kind": "counterexample", "class": cls, "config": f["label"], "cfg_line": f["cfg"], "detail": f["detail"], "hits": len(lst),
               "other_configs": sorted(set(x["label"] for x in lst))[:6]}
        if alone == cls:
            small = f["case"] if f["case"].get("stream") == "corpus" else shrink(b, mb, f["cfg"], f["case"], cls, budget=12 if quick else 100)
            obj.update(case_json(small))
            obj["original"] = case_json(f["case"])
            obj["fresh_context"] = True
        else:
            obj.update(case_json(f["case"]))
            obj["fresh_context"] = False
            obj["prefix"] = [case_json(c) for c in f["prefix"]]
            obj["note"] = "does not reproduce alone on a fresh context (got %r): replay runs the recorded prefix on one context" % alone
        obj["how_to_rerun"] = "./check replay <this file>"
        run.violation(obj)
    if broken is not None and not kernel_panics and not all_fails and not corr_bad:
        run.violation({"kind": "proof-broken", "obligation": "C02/Props_C02.v over regenerated Gen/FastPaths.v", "detail": broken,
                       "search": "boundary grid on both builds + all search streams found no failing input"}, found_input=False)
    elif broken is not None:
        run.notes.append({"proof_broken": broken})
        run.violation({"kind": "proof-broken", "obligation": "C02/Props_C02.v over regenerated Gen/FastPaths.v", "detail": broken},
                      found_input=True)
    run.assumptions = TRUSTED
    return run.finish()


def replay(obj):
    config = str(obj.get("config", "debug/512MB-stack/fresh")).replace("corpus:", "")
    prof = "release" if config.startswith("release") else "debug"
    if prof == "release":
        ok, b, _ = release_build()
    else:
        ok, paths, _ = vlib.harness_build(["c02"])
        b = paths["c02"]
    m = re.search(r"/(\d+)MB", config)
    mb = int(m.group(1)) if m else 512
    cfg = obj.get("cfg_line") or (CFGS.get(obj.get("cfg") or "default", CFGS["default"]) + " fresh=1")

    def mk(o):
        return {"bytes": bytes.fromhex(o["input_hex"])} if "input_hex" in o else {"text": o.get("input_text", "")}
    cases = [mk(p) for p in obj.get("prefix", [])] + [mk(obj)]
    if obj.get("fresh_context", True) and not obj.get("prefix"):
        cfg = re.sub(r"fresh=\d", "fresh=1", cfg)
    res, events = run_resilient(b, mb, cfg, [("%d" % i, case_line("%d" % i, c)) for i, c in enumerate(cases)], 120)
    last = "%d" % (len(cases) - 1)
    print("%s\t%s" % (last, "\t".join(res.get(last, ["<no output>"]))))
    for ev in events:
        print("child %s: signal=%s culprit=%s %s" % (ev["kind"], ev.get("signal"), ev.get("culprit"), ev.get("stderr", "")[-300:]))
    bad = res.get(last, ["?"])[0] in ("panic", "enginepanic") or bool(events)
    return 1 if bad else 0
