"""C05 — the AST optimizer (on by default) preserves semantics.

Proof:  coq/C05/Props_C05.v — local soundness of every rewrite of the optimizer model (coq/C05/Model_C05.v, a
        transliteration of core/engine/src/optimizer/**) against the reference interpreter JSRef for all programs, states
        and fuel; `…_refuted` theorems (vm_compute witnesses) for the rewrites that are unsound in the faithful model of
        the unrepaired code; a partial congruence theorem for the expression optimizer.
Tie:    boa's optimized AST (harness `optast`: Script parse + Context::optimize_statement_list + ToInternedString) against
        the extracted model (ocaml/C05) applied to the generator's AST, printed, and re-printed through the same boa
        printer (optbits 0); compared as token streams, for every subset of passes.  Which of the five repairs
        (fixes.d/C05-*.patch) the tree contains is probed first; the matching model variant is used.
Search: trace/completion of every generated program under each subset of passes (harness `js`, cfg opt=<bits>) against
        opt=0, and against the extracted JSRef (disagreements where all boa configurations agree are C01's business and
        only counted).  A difference is classified by a predicate over the failing case (which single pass triggers it,
        what differs) — the class names are the ones proposed for known_findings.json / repaired by fixes.d.
"""
import json
import os
import re
import subprocess
import sys
import time
from concurrent.futures import ThreadPoolExecutor

import vlib
from vlib import Run, log

import jsast
import c05_gen

PROP = "C05"
MODEL = os.path.join(vlib.OCAML, "C05", "_build", "c05_model")
JSREF = os.path.join(vlib.OCAML, "_build", "jsref")
FUEL = 300000
ALL_BITS = [2, 4, 6, 8, 10, 12, 14]
TRUSTED = [
    "Coq 8.16.1 kernel + vm_compute (no native_compute)",
    "coq/JSRef (reference semantics, owned by C01) — used through the characterising lemmas of coq/C05/Prims_C05.v and Proofs_C05.v",
    "the literal-kind encoding of Model_C05.v (LiteralKind::Undefined = `void null`, Float64 int32-valued literal = bits + 2^64); erasure is the identity",
    "coq/C01 Mono_Core/Mono_Ops/Proofs_C01 (fuel monotonicity of JSRef, proved by the C01 builder) for constant_folding_preserves_partial; std-lib axioms under div2_*: ClassicalDedekindReals.sig_forall_dec, sig_not_dec, functional_extensionality_dep (Flocq reals)",
    "extraction (ExtrOcamlBasic only) + ocaml/C05/driver.ml (S-expression reader, JavaScript printer that never adds parentheses)",
    "harness/src/bin/optast.rs (boa parser + optimizer + ToInternedString; also re-prints the model's output), harness/src/bin/js.rs",
    "gen/c05_gen.py (generator: AST -> text with explicit EParen nodes) and this Python driver (tokenizer, classifier, shrinker)",
    "node 20 is not used by this check",
]

FIX_NAMES = ["dce-completion", "exp2-numeric-literal", "dce-forin-var", "int-div-negzero", "fold-logical-reference", "int-overflow-fold"]
# probes: (text, optbits, predicate on the printed AST that holds iff the repair is present)
FIX_PROBES = [
    ("1; if (false) {}", 8, lambda s: "undefined" in s),
    ("x ** 2;", 4, lambda s: "**" in s),
    ("if (false) { for (var x in ({})) { } }", 8, lambda s: "for" in s),
    ("0 / -5;", 2, lambda s: "-" in s),
    ("(true && o.m)();", 2, lambda s: "&&" in s),
    ("-~2147483647;", 2, lambda s: "2147483648" in s),          # the unrepaired folder panics here (status != ok)
]
# the finding class each repair removes
FIX_CLASS = ["dce-completion-value", "sr-exp2-nonliteral", "dce-forin-var-hoist", "fold-int-div-negzero", "fold-logical-reference", "fold-int-overflow-panic"]
NFIX = len(FIX_CLASS)


# ------------------------------------------------------------------------------------------------ processes
def chunks(l, n):
    k = max(1, (len(l) + n - 1) // n)
    return [l[i:i + k] for i in range(0, len(l), k)]


def run_lines(binpath, lines, workers=6, timeout=1500, header=None):
    """feed lines to a line-oriented binary, in parallel processes; returns stdout lines (unordered across chunks)"""
    if not lines:
        return []
    parts = chunks(lines, workers)

    def one(part):
        inp = (header + "\n" if header else "") + "\n".join(part) + "\n"
        try:
            p = subprocess.run(["nice", "-n", "5", binpath], input=inp, stdout=subprocess.PIPE, stderr=subprocess.PIPE, text=True,
                               timeout=timeout, errors="replace")
            return p.stdout.split("\n")
        except subprocess.TimeoutExpired as ex:
            o = ex.stdout.decode("utf8", "replace") if isinstance(ex.stdout, bytes) else (ex.stdout or "")
            return o.split("\n")
    out = []
    with ThreadPoolExecutor(max_workers=workers) as ex:
        for r in ex.map(one, parts):
            out += [x for x in r if x]
    return out


def optast(binpath, items):
    """items: [(id, bits, text)] -> {id: (status, printed)}"""
    lines = ["ast %s %d %s" % (i, b, jsast.escape_line(t)) for i, b, t in items]
    res = {}
    for l in run_lines(binpath, lines):
        f = l.split("\t")
        if len(f) >= 3:
            try:
                res[f[0]] = (f[1], json.loads(f[2]) if f[1] != "panic" else f[2])
            except ValueError:
                res[f[0]] = ("garbled", f[2])
    return res


def model_opt(items):
    """items: [(id, bits, fixbits, sexp)] -> {id: (status, js text)}"""
    lines = ["opt %s %d %d %s" % it for it in items]
    res = {}
    for l in run_lines(MODEL, lines, workers=4):
        f = l.split("\t")
        if len(f) >= 2:
            txt = f[2] if len(f) > 2 else ""
            res[f[0]] = (f[1], txt.replace("\\n", "\n").replace("\\t", "\t").replace("\\\\", "\\"))
    return res


def run_js(binpath, bits, texts):
    """texts: {id: js}; bits: int or 'default' -> {id: (status, trace, completion)}"""
    lines = ["run %s %s" % (k, jsast.escape_line(t)) for k, t in texts.items()]
    res = {}
    for l in run_lines(binpath, lines, header="cfg opt=%s" % bits):
        f = l.split("\t")
        if len(f) >= 4:
            res[f[0]] = (f[1], f[2], f[3])
    return res


def run_jsref(progs):
    lines = ["run %s %d %s" % (k, FUEL, jsast.encode_prog(p)) for k, p in progs.items()]
    res = {}
    for l in run_lines(JSREF, lines, workers=4):
        f = l.split("\t")
        if len(f) >= 4:
            res[f[0]] = (f[1], f[2], f[3])
    return res


# ------------------------------------------------------------------------------------------------ token comparison
TOKEN = re.compile(r'"[^"\n]*"|[A-Za-z_$][A-Za-z0-9_$]*|[0-9][0-9A-Za-z_.]*(?:[eE][+-]?[0-9]+)?|\*\*|===|!==|==|!=|<=|>=|<<|>>>|>>|&&|\|\||\?\?|\?\.|=>|\+\+|--|[^\sA-Za-z0-9_$"]')


def tokens(s):
    out = []
    for t in TOKEN.findall(s):
        if t in ("inf", "1e999"):          # Rust's / the repaired printer's spelling of an infinite literal
            t = "Infinity"
        out.append(t)
    return out


def drop_inf_sign(ts):
    return [t for i, t in enumerate(ts) if not (t == "-" and i + 1 < len(ts) and ts[i + 1] == "Infinity")]


LIT = re.compile(r'^("[^"]*"|[0-9].*|NaN|Infinity|true|false|null|undefined)$')


def literal_only_diff(ta, tb):
    """the two token streams have the same shape and differ only at literal tokens"""
    if len(ta) != len(tb):
        return False
    return all(x == y or (LIT.match(x) and LIT.match(y)) for x, y in zip(ta, tb))


# ------------------------------------------------------------------------------------------------ classification
def run_js_multi(binpath, text, bits_list):
    """one process, several configurations of the same program -> {bits: (status, trace, completion)}"""
    lines = []
    for b in bits_list:
        lines.append("cfg opt=%s" % b)
        lines.append("run r%s %s" % (b, jsast.escape_line(text)))
    res = {}
    for l in run_lines(binpath, ["\n".join(lines)], workers=1):
        f = l.split("\t")
        if len(f) >= 4 and f[0].startswith("r"):
            b = f[0][1:]
            res[int(b) if b.isdigit() else b] = (f[1], f[2], f[3])
    return res


def heuristic_class(b, r, base, js):
    """for programs that exist only as text (no AST for the model): a predicate over the behaviour and the text"""
    if r[0] == "panic" and "overflow" in r[2]:
        return "fold-int-overflow-panic"
    if b == 8:
        if r[1] == base[1] and r[2].startswith("V:") and base[2].startswith("V:"):
            return "dce-completion-value"
        if (r[2] == "T:ReferenceError") != (base[2] == "T:ReferenceError"):
            return "dce-forin-var-hoist"
    if b == 4:
        return "sr-exp2-nonliteral"
    if b == 2:
        if re.search(r"(&&|\|\||\?\?)\s*\(*\s*(function\b|class\b|\([^()]*\)\s*=>)", js) and "name" in js:
            return "fold-logical-function-name"
        if re.search(r"\([^()]*(&&|\|\||\?\?)[^()]*\)\s*\(", js) or re.search(r"(delete|typeof)\s*\([^()]*(&&|\|\||\?\?)", js):
            return "fold-logical-reference"
        if re.search(r"\b0 / -", js):
            return "fold-int-div-negzero"
    return None


def popcount(b):
    return bin(b).count("1")


def minimal_diffs(res):
    """res: {bits: result}; the pass subsets whose result differs from opt=0 while no proper subset's does"""
    base = res.get(0)
    if base is None:
        return []
    diff = [b for b in ALL_BITS if res.get(b) is not None and res[b] != base]
    return [b for b in diff if not any(c != b and (c & b) == c for c in diff)]


def explain_many(items, fixbits):
    # (explain_many.jsbin is set by main/replay: the js harness binary)
    """items: [(key, prog|None, js, res{bits: result})] -> {key: (classes:set, unexplained:list of pass subsets)}.
    A class i is attributed to a differing pass subset when the model of the optimizer with repair i rewrites the
    program differently from the model of the tree's variant under that subset (a predicate over the failing case);
    programs that exist only as text fall back to predicates over behaviour and text."""
    mitems = []
    mins = {}
    for key, prog, js, res in items:
        mins[key] = minimal_diffs(res)
        if prog is not None:
            sx = jsast.encode_prog(prog)
            for b in mins[key]:
                mitems.append(("%s|%d|b" % (key, b), b, fixbits, sx))
                for i in range(NFIX):
                    if not (fixbits >> i) & 1:
                        mitems.append(("%s|%d|%d" % (key, b, i), b, fixbits | (1 << i), sx))
    m = model_opt(mitems) if mitems else {}
    # behavioural confirmation: the repaired rewrite must change what the program *does* (both rewritten programs are
    # run without the optimizer), not only its text
    btexts = {}
    for k, v in m.items():
        if v[0] == "ok":
            btexts[k] = v[1]
    beh = run_js(explain_many.jsbin, 0, btexts) if btexts else {}
    out = {}
    for key, prog, js, res in items:
        classes, unexplained = set(), []
        for b in mins[key]:
            cl = set()
            k0 = "%s|%d|b" % (key, b)
            b0 = m.get(k0)
            for i in range(NFIX):
                ki = "%s|%d|%d" % (key, b, i)
                mi = m.get(ki)
                if mi is not None and b0 is not None and mi != b0:
                    if mi[0] == "ok" and b0[0] == "ok":
                        if beh.get(ki) is not None and beh.get(ki) != beh.get(k0):
                            cl.add(FIX_CLASS[i])
                    else:
                        cl.add(FIX_CLASS[i])         # one of the variants is outside the model (overflowing fast path)
            if not cl:
                for sb in (2, 4, 8):
                    if b & sb:
                        h = heuristic_class(sb, res[b], res[0], js)
                        if h is not None and (h not in FIX_CLASS or not (fixbits >> FIX_CLASS.index(h)) & 1):
                            cl.add(h)
                            break
            if not cl:
                h = heuristic_class(2, res[b], res[0], js) if (b & 2) else None
                if h == "fold-logical-function-name":       # no repair of it is modelled: a predicate over text + behaviour
                    cl.add(h)
            if cl:
                classes |= cl
            else:
                unexplained.append(b)
        if not mins[key]:
            unexplained.append(0)
        out[key] = (classes, unexplained)
    return out


# ------------------------------------------------------------------------------------------------ shrinking
def shrink(p, still_fails, budget=40):
    """delta debugging on the top-level statement list (function table untouched)"""
    body = list(p["p_body"])
    i = 0
    while i < len(body) and budget > 0:
        cand = body[:i] + body[i + 1:]
        q = dict(p)
        q["p_body"] = cand
        budget -= 1
        if cand and still_fails(q):
            body = cand
        else:
            i += 1
    q = dict(p)
    q["p_body"] = body
    return q


# ------------------------------------------------------------------------------------------------ main
def build_model():
    os.makedirs(os.path.join(vlib.OCAML, "C05", "_build"), exist_ok=True)
    rc, out, err = vlib.sh(["sh", os.path.join(vlib.OCAML, "C05", "build.sh")], timeout=1800)
    return rc == 0 and os.path.exists(MODEL), (out + err)[-2000:]


def probe_fixes(optbin):
    items = [("p%d" % i, bits, text) for i, (text, bits, _) in enumerate(FIX_PROBES)]
    res = optast(optbin, items)
    fixbits = 0
    detail = {}
    for i, (text, bits, pred) in enumerate(FIX_PROBES):
        st, printed = res.get("p%d" % i, ("missing", ""))
        present = st == "ok" and bool(pred(printed))
        detail[FIX_NAMES[i]] = {"present": present, "probe": text, "printed": " ".join(printed.split()) if st == "ok" else st}
        if present:
            fixbits |= 1 << i
    return fixbits, detail


def main():
    run = Run(PROP, "proof")
    run.cov["rule"] = ("cases = hand-written witness programs + corpus + seeded generated programs (gen/c05_gen.py: literal-heavy operator trees, "
                       "valueOf/getter/BigInt/string operands under / 2 and ** 2, literal-condition if/while/for with hoisted declarations in dead "
                       "parts, completion-value positions, nested function bodies) x subsets of optimizer passes; an evaluation is one (program, pass "
                       "subset) comparison of printed ASTs or of traces; distinct = distinct program text; non-trivial = the optimizer changed the AST "
                       "for at least one pass subset (counted separately as programs_changed)")
    os.makedirs(os.path.join(vlib.OCAML, "C05", "_build"), exist_ok=True)
    # 1-3 proofs + gates (the extraction is a make target of the same build)
    t_ = time.time()
    run.cov["phase_s"] = {}
    pr = vlib.proof_stage(PROP, ["C05"], "C05/Props_C05.v", extra_targets=["C05/Extract_C05.vo"])
    run.cov["phase_s"]["proof"] = round(time.time() - t_, 1)
    run.set_proof(pr, TRUSTED)
    broken = None if pr["ok"] else pr["broken"]
    # the congruence theorem needs C01's fuel monotonicity (coq/C01, owned by another builder): its Props file is checked
    # separately, and a failure located in C01's files is recorded instead of breaking the C05 theorems above
    for props_extra in ("C05/PropsMono_C05.v", "C05/PropsDeep_C05.v"):
      pr2 = vlib.proof_stage(PROP, ["C05"], props_extra)
      if pr2["ok"]:
          run.cov["obligations"] += pr2["obligations"]
          run.cov["discharged"] += pr2["discharged"]
          run.cov["theorems"] += pr2["theorems"]
          run.cov["print_assumptions"].update({t: (a if a else ["Closed under the global context"]) for t, a in pr2["axioms"].items()})
          run.cov["checker_cmd"] += "; same for " + props_extra + "o"
      else:
          det = (pr2.get("broken") or {}).get("detail") or {}
          if "C01/" in str(det.get("file")) or "C01" in str(det.get("error", ""))[:300]:
              run.notes.append({"congruence_theorem_not_checked_this_run": "coq/C01 (fuel monotonicity, other builder) does not build", "detail": det})
          elif broken is None:
              broken = pr2["broken"]
              run.cov["obligations"] += pr2["obligations"]
    run.cov["proof_wall_s"] = round(time.time() - t_, 1)
    okb, blog = build_model()
    if not okb:
        if broken is None:
            vlib.infra_error(PROP, "model driver build failed: " + blog[-400:])
    t_ = time.time()
    pre = os.environ.get("C05_PREBUILT_HARNESS_DIR")       # development aid: binaries built elsewhere against a patched /repo
    if pre:
        ok, paths, hlog = True, {"optast": os.path.join(pre, "optast"), "js": os.path.join(pre, "js")}, ""
        run.notes.append({"prebuilt_harness": pre})
    else:
        ok, paths, hlog = vlib.harness_build(["optast", "js"])
    run.cov["phase_s"]["harness_build_incl_lock_wait"] = round(time.time() - t_, 1)
    if not ok:
        if re.search(r"^error", hlog, re.M):
            run.violation({"kind": "correspondence-broken", "obligation": "harness `optast`/`js` no longer compile against /repo", "log": hlog[-3000:]},
                          found_input=False)
            return run.finish()
        vlib.infra_error(PROP, "harness build failed: " + hlog[-400:])
    optbin, jsbin = paths["optast"], paths["js"]
    have_jsref = os.path.exists(JSREF)

    fixbits, fixdetail = probe_fixes(optbin)
    run.cov["tree_variant"] = {"fixbits": fixbits, "repairs": fixdetail}

    # ---- cases
    cases = []          # (name, prog, js, features)
    for name, p in c05_gen.witness_programs():
        cases.append(("w:" + name, p, c05_gen.to_js(p), ["witness"]))
    cdir = os.path.join(vlib.CORPUS, PROP)
    if os.path.isdir(cdir):
        for fn in sorted(os.listdir(cdir)):
            if fn.endswith(".json"):
                try:
                    o = json.load(open(os.path.join(cdir, fn)))
                    cases.append(("c:" + fn[:-5], o["prog"], c05_gen.to_js(o["prog"]), ["corpus"]))
                except Exception as ex:      # a corpus file that no longer fits the grammar is skipped, loudly
                    run.notes.append({"corpus_skipped": fn, "error": str(ex)})
    ngen = 80 if run.quick else 1200
    feat_count = {}
    for k in range(ngen):
        p, feat = c05_gen.generate(run.rng, size=1.0 if run.rng.random() < 0.8 else 2.0)
        cases.append(("g%d" % k, p, c05_gen.to_js(p), feat))
        for f in feat:
            feat_count[f] = feat_count.get(f, 0) + 1
    run.cov["programs"] = len(cases)
    run.cov["generator_feature_counts"] = dict(sorted(feat_count.items()))
    byname = {c[0]: c for c in cases}

    t_c = time.time()
    # ---- correspondence: boa's optimized AST vs the model's, for pass subsets
    def subsets_for(name):
        if not run.quick or name.startswith(("w:", "c:")):
            return ALL_BITS
        extra = run.rng.choice([6, 10, 12])
        return [2, 4, 8, 14, extra]
    stats = {"compared": 0, "match": 0, "mismatch": 0, "engine_operator_deviation": 0, "model_unsup": 0, "boa_syntax": 0, "boa_panic": 0, "reprint_syntax": 0,
             "unprintable": 0, "printer_disagree": 0, "programs_changed": 0}
    corr_bad = []
    if okb:
        boa_items, model_items = [], []
        plan = {}
        for name, p, js, feat in cases:
            bl = [0] + subsets_for(name)
            plan[name] = bl
            sx = jsast.encode_prog(p)
            for b in bl:
                boa_items.append(("%s@%d" % (name, b), b, js))
                model_items.append(("%s@%d" % (name, b), b, fixbits, sx))
        boa = optast(optbin, boa_items)
        mod = model_opt(model_items)
        reprint = optast(optbin, [(k, 0, v[1]) for k, v in mod.items() if v[0] == "ok"])
        for name, p, js, feat in cases:
            base_ok = True
            changed = False
            for b in plan[name]:
                k = "%s@%d" % (name, b)
                bs, btxt = boa.get(k, ("missing", ""))
                ms, mtxt = mod.get(k, ("missing", ""))
                if bs == "syntax":
                    stats["boa_syntax"] += 1
                    continue
                if bs != "ok":
                    stats["boa_panic"] += 1
                    run.notes.append({"optimizer_panic_or_missing": js[:300], "bits": b, "status": bs, "msg": str(btxt)[:200]}) if len(run.notes) < 20 else None
                    continue
                if ms == "unsup":
                    stats["model_unsup"] += 1
                    continue
                if ms != "ok":
                    stats["unprintable"] += 1
                    continue
                rs, rtxt = reprint.get(k, ("missing", ""))
                if rs != "ok":
                    stats["reprint_syntax"] += 1
                    continue
                ta, tb = tokens(btxt), tokens(rtxt)
                if b == 0:
                    if ta != tb:
                        base_ok = False
                        stats["printer_disagree"] += 1
                        run.notes.append({"printer_disagree": js[:300], "boa": btxt[:300], "model_reprint": rtxt[:300]}) if len(run.notes) < 20 else None
                    continue
                if not base_ok:
                    continue
                stats["compared"] += 1
                run.count((js, b), nontrivial=True)
                if tokens(boa.get("%s@0" % name, ("", ""))[1]) != ta:
                    changed = True
                if ta == tb:
                    stats["match"] += 1
                else:
                    cb = {"case": name, "bits": b, "input": js, "impl_output": btxt, "model_output": rtxt, "model_js": mtxt,
                          "literal_only": literal_only_diff(ta, tb)}
                    if drop_inf_sign(ta) == drop_inf_sign(tb):
                        # ToInternedString prints the literal -Infinity (only the folder creates it) without its sign:
                        # the rewrite is the model's, the *printed* AST re-parses as +Infinity (fixes.d/C05-printer-neg-infinity.patch)
                        cb["class"] = "ast-printer-negative-infinity"
                        cb["literal_only"] = False
                    corr_bad.append(cb)
            if changed:
                stats["programs_changed"] += 1
        for name in ("w:dce-if-true-empty", "w:exp2-valueof", "g0", "g1"):
            k = name + "@14"
            if k in boa and k in reprint:
                run.sample({"program": byname[name][2], "optbits": 14, "boa_optimized": boa[k][1], "model_optimized_reprinted": reprint[k][1]})
    run.cov["correspondence"] = stats
    run.cov["phase_s"]["correspondence"] = round(time.time() - t_c, 1)
    t_s = time.time()

    # ---- search: every pass subset against opt=0 (and JSRef)
    texts = {c[0]: c[2] for c in cases}
    edge_texts = {"e%d" % i: t for i, t in enumerate(c05_gen.EDGE_TEXTS)}
    texts_all = dict(texts)
    texts_all.update(edge_texts)
    sbits = [0, 2, 4, 8, 14, "default"] if run.quick else [0] + ALL_BITS + ["default"]
    results = {}
    for b in sbits:
        results[b] = run_js(jsbin, b, texts_all)
    sstats = {"programs": len(texts_all), "configs": len(sbits), "agree": 0, "differ": 0, "panic_both": 0, "discarded_limit": 0, "syntax_error": 0}
    found = []
    for name, js in texts_all.items():
        base = results[0].get(name)
        if base is None:
            continue
        if base[2].startswith("L:"):
            sstats["discarded_limit"] += 1
            continue
        if base[2] == "E:SyntaxError":
            sstats["syntax_error"] += 1
        bad_bits = []
        for b in sbits[1:]:
            r = results[b].get(name)
            run.count((js, "run", b), nontrivial=False)
            if r is None or r[2].startswith("L:"):
                continue
            if r != base:
                bad_bits.append(b)
        if not bad_bits:
            sstats["agree"] += 1
            continue
        if base[0] == "panic" and all(results[b].get(name, base)[0] == "panic" for b in bad_bits):
            sstats["panic_both"] += 1
            continue
        sstats["differ"] += 1
        found.append((name, js, bad_bits))
    run.cov["search"] = sstats
    run.cov["phase_s"]["search"] = round(time.time() - t_s, 1)

    # JSRef as the independent oracle (counted; a disagreement where all boa configurations agree is C01's)
    if have_jsref:
        ref = run_jsref({c[0]: c[1] for c in cases})
        js_stats = {"agree": 0, "disagree": 0, "discarded": 0}
        dis = []
        for name, p, js, feat in cases:
            r = ref.get(name)
            base = results[0].get(name)
            if r is None or base is None or r[0] != "ok" or base[0] != "ok" or base[2].startswith("L:"):
                js_stats["discarded"] += 1
                continue
            if (r[1], r[2]) == (base[1], base[2]):
                js_stats["agree"] += 1
            else:
                js_stats["disagree"] += 1
                if len(dis) < 5:
                    dis.append({"program": js[:400], "boa_opt0": base[1:], "jsref": r[1:]})
        js_stats["samples"] = dis
        run.cov["jsref_vs_boa_opt0"] = js_stats
    # A folded literal whose value differs from the model's (JSRef's operator) while the program behaves identically with
    # and without the optimizer means that the engine's own operator deviates from ECMA-262 (e.g. 1 ** NaN = 1): the
    # optimizer used "the real JsValue operators" faithfully.  That is C01's subject; counted and sampled, not alarmed.
    differing = {n for n, _, _ in found}
    kept = []
    for cb in corr_bad:
        if cb["literal_only"] and cb["case"] not in differing and results[0].get(cb["case"], ("",))[0] == "ok":
            stats["engine_operator_deviation"] += 1
            if stats["engine_operator_deviation"] <= 3:
                run.notes.append({"engine_operator_deviation": cb["input"][:400], "boa_folded": " ".join(cb["impl_output"].split())[:300],
                                  "jsref_folded": " ".join(cb["model_output"].split())[:300]})
        else:
            stats["mismatch"] += 1
            kept.append(cb)
    corr_bad = kept
    run.cov["correspondence"] = stats
    run.cov["disagreements_checked"] = len(found) + len(corr_bad)

    # ---- verdicts
    t_v = time.time()
    # all pass subsets for the programs that differ somewhere
    ftexts = {name: js for name, js, _ in found}
    for b in [0] + ALL_BITS:
        if b not in results:
            results[b] = run_js(jsbin, b, ftexts) if ftexts else {}
    eitems = []
    for name, js, bad_bits in found:
        res = {b: results[b].get(name) for b in [0] + ALL_BITS if results[b].get(name) is not None}
        eitems.append((name, byname[name][1] if name in byname else None, js, res))
    explain_many.jsbin = jsbin
    expl = explain_many(eitems, fixbits) if eitems else {}
    byclass = {}
    unclassified = []
    for name, js, bad_bits in sorted(found, key=lambda f: len(f[1])):
        classes, unexplained = expl[name]
        if unexplained or not classes:
            unclassified.append((name, js, bad_bits, sorted(classes), unexplained))
            continue
        for cl in classes:
            if cl not in byclass:
                byclass[cl] = (name, js, byname[name][1] if name in byname else None, bad_bits)
    run.cov["search"]["classes_seen"] = sorted(byclass)
    run.cov["search"]["unclassified"] = len(unclassified)
    for cl, (name, js, prog_, bad_bits) in sorted(byclass.items()):
        shr = js
        if prog_ is not None and len(prog_["p_body"]) > 2:
            def still(q, cl=cl):
                t = c05_gen.to_js(q)
                res = run_js_multi(jsbin, t, [0] + ALL_BITS)
                return cl in explain_many([("s", q, t, res)], fixbits)["s"][0]
            try:
                small = shrink(prog_, still, budget=8 if run.quick else 40)
                shr = c05_gen.to_js(small)
                # minimized failures join the corpus (run first on every later run)
                cpath = os.path.join(vlib.CORPUS, PROP, cl + ".json")
                if not os.path.exists(cpath) and not name.startswith(("w:", "c:")):
                    os.makedirs(os.path.dirname(cpath), exist_ok=True)
                    with open(cpath, "w") as fh:
                        json.dump({"class": cl, "seed": run.seed, "js": shr, "prog": small}, fh)
            except Exception:
                shr = js
        obj = {"kind": "counterexample", "class": cl, "input": shr, "original_input": js if shr != js else None,
               "differing_optbits": [str(b) for b in bad_bits],
               "impl_output": {str(k): v for k, v in run_js_multi(jsbin, shr, [0, 2, 4, 8, 14]).items()},
               "obligation": "trace(P, optimizer passes O) = trace(P, OptimizerOptions::empty())",
               "fix": "fixes.d/C05-%s.patch" % (FIX_NAMES[FIX_CLASS.index(cl)] if cl in FIX_CLASS else cl),
               "how_to_rerun": "./check replay <this file>   (runs the program under opt=0,2,4,8,14,default and prints the optimized ASTs)"}
        run.violation(obj)
    for name, js, bad_bits, classes, unexplained in unclassified[:5]:
        obj = {"kind": "counterexample", "class": None, "input": js, "differing_optbits": [str(b) for b in bad_bits],
               "partly_explained_by": classes, "unexplained_pass_subsets": unexplained,
               "impl_output": {str(b): results[b].get(name) for b in results if results[b].get(name) is not None},
               "obligation": "trace(P, optimizer passes O) = trace(P, OptimizerOptions::empty())",
               "how_to_rerun": "./check replay <this file>"}
        run.violation(obj)
    run.cov["phase_s"]["verdicts"] = round(time.time() - t_v, 1)
    printer_bad = [cb for cb in corr_bad if cb.get("class") == "ast-printer-negative-infinity"]
    corr_bad = [cb for cb in corr_bad if cb.get("class") != "ast-printer-negative-infinity"]
    if printer_bad:
        first = dict(printer_bad[0])
        first["kind"] = "counterexample"
        first["obligation"] = "the printed optimized AST denotes the optimized AST (ToInternedString of the folded literal -Infinity keeps its sign)"
        first["occurrences"] = len(printer_bad)
        first["fix"] = "fixes.d/C05-printer-neg-infinity.patch"
        first["how_to_rerun"] = "printf 'ast a 2 z = -1 / 0;\\n' | harness/target/debug/optast   (prints `z = 1e999;`)"
        run.violation(first)
    if corr_bad:
        # a model/implementation disagreement on the rewrites performed; a property failure was searched above on the same programs
        first = corr_bad[0]
        first["kind"] = "correspondence-broken"
        first["obligation"] = "boa's optimized AST = Model_C05.optimize (variant fixbits=%d) on the same program, as token streams" % fixbits
        first["mismatches"] = len(corr_bad)
        first["how_to_rerun"] = "./check replay <this file>"
        run.violation(first, found_input=bool(found))
    if broken is not None:
        if not found:
            run.violation({"kind": "proof-broken", "obligation": "coq/C05/Props_C05.v", "detail": broken,
                           "search": "differential search over %d programs found no failing input" % len(texts_all)}, found_input=False)
        else:
            run.notes.append({"proof_broken": broken})
    # the refuted theorems name what is wrong with the unrepaired code: say which of them the tree still exhibits
    run.cov["unrepaired_rewrites_on_tree"] = [FIX_CLASS[i] for i in range(NFIX) if not (fixbits >> i) & 1]
    run.assumptions = TRUSTED
    return run.finish()


def replay(obj):
    ok, paths, _ = vlib.harness_build(["optast", "js"])
    text = obj.get("input", "")
    for b in (0, 2, 4, 8, 14, "default"):
        r = run_js(paths["js"], b, {"r": text}).get("r")
        print("opt=%s\t%s" % (b, r))
    for b in (2, 4, 8, 14):
        r = optast(paths["optast"], [("r", b, text)]).get("r")
        print("ast opt=%s\t%s" % (b, " ".join(str(r[1]).split()) if r else r))
    return 0
