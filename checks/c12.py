"""C12 — value tagging is lossless, unambiguous and configuration-independent.

Proof: coq/C12/Props_C12.v over coq/Gen/NanBits.v, which tools/gen_c12.py regenerates from
nan_boxed.rs on every run.  Tie: the translator (regeneration) + a boundary cross-check of the generated
definitions (vm_compute) against the public JsValue API (harness `val`).  Search / property oracle on
the implementation: sweeps of JsValue::new / variant / as_* over int32s and structured double patterns
whose expectation is the enum semantics itself, on the NaN-boxed and on the jsvalue-enum build.
"""
import os
import re
import struct
import subprocess
import sys
from concurrent.futures import ThreadPoolExecutor

import vlib
from vlib import Run, log

PROP = "C12"
TRUSTED = [
    "Coq 8.16.1 kernel + vm_compute (no native_compute)",
    "tools/rs2v.py + tools/gen_c12.py (Rust subset -> Gallina translator; refuses anything outside the subset)",
    "Rust std facts used by the translator: f64::NAN.to_bits() = 0x7FF8000000000000, (-0f64).to_bits() = 0x8000000000000000, `as` casts i32->u64 sign-extend / u64->i32 truncate",
    "modelled, not verified: 64-bit target (value() = ptr.addr() as u64), provenance/with_addr pointer plumbing, Clone/Drop refcount handling, 48-bit address assumption (guarded by tag_pointer -> None)",
    "harness/src/bin/val.rs (public-API observation, catch_unwind), Python driver",
]

I32_EDGES = [0, 1, -1, 2, -2, 127, 128, 255, 256, -128, -129, 32767, 32768, 65535, 65536, -32768, -32769,
             2147483647, 2147483646, -2147483648, -2147483647, 1073741824, -1073741824, 16777216, 305419896, -305419896]


def f64_edges(rng, n):
    out = []
    for sign in (0, 1):
        for exp in (0, 1, 1022, 1023, 1024, 2046, 2047):
            for nib in range(16):
                for m in (0, 1, 0xffffffff, 0x100000000, 0xffffffffffff, 0x800000000000):
                    out.append((sign << 63) | (exp << 52) | (nib << 48) | m)
    for _ in range(n):
        b = rng.getrandbits(64)
        if rng.random() < 0.5:
            b |= 0x7ff0000000000000
        out.append(b)
    return out


def model_eval(cases):
    """Evaluate the generated definitions on the cases with vm_compute.  cases: list of ('i',int)|('f',bits)|('b',0/1)|('n',)|('u',)."""
    terms = []
    for c in cases:
        if c[0] == "i":
            terms.append("enc (m_integer32 (%d)%%Z)" % c[1])
        elif c[0] == "f":
            terms.append("enc (m_float64 %d)" % c[1])
        elif c[0] == "b":
            terms.append("enc (m_boolean %s)" % ("true" if c[1] else "false"))
        elif c[0] == "n":
            terms.append("enc m_null")
        else:
            terms.append("enc m_undefined")
    body = """From Coq Require Import NArith ZArith List Bool.
From Common Require Import Bits.
From C12 Require Import Variant Model_C12.
From Gen Require Import NanBits.
Import ListNotations.
Local Open Scope N_scope.
Definition bN (b : bool) : N := if b then 1 else 0.
Definition zN (z : Z) : N := Z.to_N (z + 2147483648).
Definition enc (w : N) : list N :=
  let o := observe w in
  (match m_as_variant w with
   | VUndefined => [0;0] | VNull => [1;0] | VBoolean b => [2; bN b] | VInteger32 i => [3; zN i]
   | VFloat64 b => [4; b] | VBigInt p => [5; p] | VObject p => [6; p] | VSymbol p => [7; p] | VString p => [8; p] end) ++
  [bN (o_undefined o); bN (o_null o); bN (o_null_or_undefined o); bN (o_bool o); bN (o_int o || o_float o);
   bN (o_bigint o); bN (o_object o); bN (o_symbol o); bN (o_string o);
   match o_as_bool o with Some b => bN b | None => 2 end;
   match o_as_int o with Some i => zN i | None => 0 end;
   match o_as_float o with Some b => b | None => 0 end;
   match o_type o with TUndefined => 0 | TNull => 1 | TBoolean => 2 | TNumber => 3 | TString => 4 | TSymbol => 5 | TBigInt => 6 | TObject => 7 end].
Eval vm_compute in [
%s
].
""" % ";\n".join(terms)
    rc, out, err = vlib.coq_eval("Cases_C12", body)
    if rc != 0:
        return None, err[-2000:]
    txt = out.replace("%N", "")
    rows = re.findall(r"\[([0-9;\s]+)\]", txt)
    res = [[int(x) for x in r.replace("\n", " ").split(";") if x.strip()] for r in rows]
    return res, ""


TYPES = ["undefined", "object", "boolean", "number", "string", "symbol", "bigint", "object"]


def model_line(row):
    kind, payload = row[0], row[1]
    flags = "".join(str(x) for x in row[2:11])
    asb, asi, asf, ty = row[11], row[12], row[13], row[14]
    if kind == 0:
        var = "U"
    elif kind == 1:
        var = "N"
    elif kind == 2:
        var = "B%d" % payload
    elif kind == 3:
        var = "I%d" % (payload - 2147483648)
    elif kind == 4:
        var = "F%016x" % payload
    else:
        var = "?GOYS"[kind - 4]
    ab = "-" if asb == 2 else str(asb)
    if kind == 3:
        an = "%016x" % struct.unpack("<Q", struct.pack("<d", float(asi - 2147483648)))[0]
    elif kind == 4:
        an = "%016x" % asf
    else:
        an = "-"
    return "%s %s %s %s %s" % (var, flags, ab, an, TYPES[ty])


def run_val(binpath, lines, timeout=3000):
    p = subprocess.run([binpath], input="\n".join(lines) + "\n", stdout=subprocess.PIPE, stderr=subprocess.PIPE,
                       text=True, timeout=timeout)
    return p.stdout.strip().split("\n"), p.returncode


def sweeps(run, binpath, label, thorough_i32):
    """Property oracle on the implementation: enum semantics expected for every input swept."""
    found = []
    jobs = []
    if thorough_i32:
        step = 1 << 28
        for lo in range(-(1 << 31), 1 << 31, step):
            jobs.append("sweep-i32 %d %d" % (lo, lo + step))
    else:
        span = 1 << 19
        starts = [-(1 << 31), -(1 << 30) - span // 2, -(1 << 24), -(1 << 16) - span // 2, -span // 2, (1 << 15), (1 << 16), (1 << 24), (1 << 30), (1 << 31) - span]
        for _ in range(6):
            starts.append(run.rng.randrange(-(1 << 31), (1 << 31) - span))
        for lo in starts:
            jobs.append("sweep-i32 %d %d" % (lo, lo + span))
    nrand = 2000000 if thorough_i32 else 200000
    jobs.append("sweep-f64 %d %d" % (run.seed & 0xffffffff, nrand))

    def one(j):
        out, rc = run_val(binpath, [j])
        return j, out, rc
    with ThreadPoolExecutor(max_workers=vlib.NCPU) as ex:
        for j, out, rc in ex.map(one, jobs):
            line = out[0] if out else ""
            m = re.match(r"ok (\d+)", line)
            if m:
                n = int(m.group(1))
                run.cov["evaluations"] += n
                run.cov.setdefault("sweep_inputs_" + label, 0)
                run.cov["sweep_inputs_" + label] += n
                run._distinct.add((label, j))
            else:
                found.append({"build": label, "job": j, "result": line or ("exit %d" % rc)})
    return found


def main():
    run = Run(PROP, "proof")
    run.cov["rule"] = ("cases: (a) boundary i32 / structured f64 patterns cross-checked between the regenerated Gallina definitions "
                       "(vm_compute) and the public JsValue API; (b) sweeps of JsValue::new/variant/as_* over int32 ranges and the structured "
                       "double set (sign x 2048 exponents x 16 tag nibbles x 14 mantissas) + seeded random, on both value representations; "
                       "non-trivial = every case (each is a distinct bit pattern or range); distinct counted per cross-checked case and per sweep job")
    broken = None
    # 1. regenerate the model from the source
    import gen_c12
    try:
        text, info = gen_c12.generate(vlib.REPO)
        vlib.write_if_changed(os.path.join(vlib.COQ, "Gen", "NanBits.v"), text)
        run.cov["translator"] = {"source": gen_c12.SRC, "consts": len(info["bits"]["consts"]),
                                 "functions": len(info["bits"]["fns"]) + len(info["methods"]["fns"])}
    except Exception as e:   # Unsupported or anything else: the model cannot be regenerated
        broken = {"kind": "translator", "detail": {"error": "%s: %s" % (type(e).__name__, e)}}
    # 2. proofs + gates
    pr = None
    if broken is None:
        pr = vlib.proof_stage(PROP, ["Common", "C12", "Gen"], "C12/Props_C12.v")
        run.set_proof(pr, TRUSTED)
        if not pr["ok"]:
            broken = pr["broken"]
    else:
        run.cov.update({"obligations": 9, "discharged": 0, "checker_cmd": "tools/gen_c12.py", "trusted_base": TRUSTED})
    # 3. harness
    ok, paths, blog = vlib.harness_build(["val"])
    if not ok:
        if re.search(r"^error", blog, re.M):
            run.violation({"kind": "correspondence-broken", "obligation": "harness `val` no longer compiles against /repo",
                           "log": blog[-3000:]}, found_input=False)
            return run.finish()
        vlib.infra_error(PROP, "harness build failed: " + blog[-400:])
    ok2, paths2, blog2 = vlib.harness_build(["val"], features=["jsvalue-enum"], target_dir=os.path.join(vlib.HARNESS, "target-enum"))
    if not ok2:
        if re.search(r"^error", blog2, re.M):
            run.violation({"kind": "correspondence-broken", "obligation": "harness `val` (jsvalue-enum) no longer compiles",
                           "log": blog2[-3000:]}, found_input=False)
            return run.finish()
        vlib.infra_error(PROP, "harness (enum) build failed: " + blog2[-400:])
    builds = [("nan-boxed", paths["val"]), ("jsvalue-enum", paths2["val"])]
    # 4. correspondence of the generated definitions with the API on boundary values
    cases = [("i", i) for i in I32_EDGES] + [("i", run.rng.randrange(-(1 << 31), 1 << 31)) for _ in range(40)]
    cases += [("f", b) for b in f64_edges(run.rng, 200 if run.quick else 1500)]
    cases += [("b", 0), ("b", 1), ("n",), ("u",)]
    lines = []
    for c in cases:
        lines.append({"i": "i %d", "f": "f %x", "b": "b %d"}.get(c[0], c[0]) % c[1:] if len(c) > 1 else c[0])
    impl = {}
    for label, b in builds:
        out, rc = run_val(b, lines + ["s", "o", "y", "g"])
        impl[label] = out
    corr_bad = []
    if broken is None:
        rows, err = model_eval(cases)
        if rows is None or len(rows) != len(cases):
            broken = {"kind": "correspondence", "detail": {"error": "model evaluation failed: " + (err or "row count")}}
        else:
            for k, (c, row) in enumerate(zip(cases, rows)):
                ml = model_line(row)
                il = impl["nan-boxed"][k] if k < len(impl["nan-boxed"]) else "<missing>"
                run.count(("xcheck", c))
                if k < 3 or k == len(I32_EDGES) + 45:
                    run.sample({"case": lines[k], "model": ml, "impl": il})
                if ml != il:
                    corr_bad.append({"case": lines[k], "model": ml, "impl": il})
    # representation independence on the same cases (+ pointer kinds)
    cfg_bad = []
    a, b = impl["nan-boxed"], impl["jsvalue-enum"]
    allcases = lines + ["s", "o", "y", "g"]
    for k in range(len(allcases)):
        la = a[k] if k < len(a) else "<missing>"
        lb = b[k] if k < len(b) else "<missing>"
        run.count(("cfg", allcases[k]))
        if la != lb or la.startswith("panic") or "same=0" in la:
            cfg_bad.append({"case": allcases[k], "nan_boxed": la, "jsvalue_enum": lb})
    # 5. sweeps: the property oracle on the implementation (enlarged when something above broke)
    enlarged = (not run.quick) or broken is not None or bool(corr_bad)
    found = []
    for label, bpath in builds:
        found += sweeps(run, bpath, label, enlarged)
    run.cov["programs"] = 0
    for f in found:
        run.violation({"kind": "counterexample", "class": None, "input": f["job"], "build": f["build"], "impl_output": f["result"],
                       "how_to_rerun": "echo '%s' | harness/target*/debug/val" % f["job"]})
    for cb in cfg_bad[:5]:
        run.violation({"kind": "counterexample", "input": cb["case"], "impl_output": cb,
                       "obligation": "observation identical under nan-boxed and jsvalue-enum representations",
                       "how_to_rerun": "echo '%s' | harness/target/debug/val ; echo '%s' | harness/target-enum/debug/val" % (cb["case"], cb["case"])})
    for cb in corr_bad[:5]:
        # a model/implementation disagreement on a concrete input; the enum expectation decides
        run.violation({"kind": "correspondence-broken", "input": cb["case"], "model_output": cb["model"], "impl_output": cb["impl"],
                       "obligation": "Gen/NanBits.v (regenerated) vs JsValue public API",
                       "how_to_rerun": "echo '%s' | harness/target/debug/val" % cb["case"]},
                      found_input=bool(found) or True)
    if broken is not None and not found and not cfg_bad and not corr_bad:
        run.violation({"kind": "proof-broken", "obligation": "C12/Props_C12.v over regenerated Gen/NanBits.v", "detail": broken,
                       "search": "full int32 sweep + structured/random double sweep on both builds found no failing input"},
                      found_input=False)
    elif broken is not None:
        run.notes.append({"proof_broken": broken})
    run.assumptions = TRUSTED
    return run.finish()


def replay(obj):
    ok, paths, _ = vlib.harness_build(["val"])
    inp = obj.get("input", "")
    out, rc = run_val(paths["val"], [inp])
    print("\n".join(out))
    return 0
