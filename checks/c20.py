"""C20 — evaluation is deterministic and contexts/realms are isolated from each other.

Proof (coq/C20/Props_C20.v): own-key order is invariant under every hash iteration order and equals
OrdinaryOwnPropertyKeys on all histories; OrderedMap/OrderedSet with tombstones, locks and index cursors refine the
never-compacting [[MapData]] list on all interleavings (guard: clear() under an advanced cursor, refuted otherwise);
frame property of the realm discipline.
Tie (correspondence, model evaluated by vm_compute): (i) property add/delete histories -> Reflect.ownKeys, Object.keys,
for-in, JSON.stringify order, getOwnPropertyNames, Object.entries vs `prun_keys`; (ii) Map/Set programs that log every
operation they perform (mutation during forEach / for-of / explicit iterators, iterator drops + forced collection)
vs `mrun`.
Search (implementation level, labelled search): the same generated program (a) twice in one process on one thread,
(b) in other processes after unrelated allocation/collection and under forced-collection schedules, (c) after a
sabotage history in another context of the thread, (d) in a second realm after sabotage of the first — all traces
byte-identical; cross-realm programs carry their own expectation.
"""
import ast
import json
import os
import random
import re
import subprocess
import sys
import time
from collections import Counter
from concurrent.futures import ThreadPoolExecutor

import vlib
from vlib import Run, log

import c20_gen as G

PROP = "C20"
TRUSTED = [
    "Coq 8.16.1 kernel + vm_compute (no native_compute); stdlib Mergesort instance as the executable sort",
    "model abstraction: property values dropped (DenseI32/F64/Element -> Dense len, SparseElement/SparseProperty -> key list), "
    "FxHashMap/hashbrown/indexmap/Vec semantics modelled (any iteration order; IndexMap = entries vector + first-match search)",
    "realm part: Deep_Realm_C20 transliterates vm.frame().realm / enter_realm / swap_realm / native_function_call+construct / function_call / "
    "Script::parse+evaluate / create_realm and is tied by the call-tree probe correspondence; frames are assumed balanced (C07's theorem); "
    "the object-capability model (realm_frame) remains a model of the discipline tied only by the differential",
    "tools/gen_c20.py (regex inventory of thread_local!/static/lazy items; classification table by hand) -> coq/Gen/Statics_C20.v",
    "harness/src/bin/iso.rs (host functions print/$iso, catch_unwind, one worker thread), gen/c20_gen.py, this driver",
    "implementation-level determinism (addresses, hash seeds, thread-local caches, GC timing) is search, not proof",
]
CLEAR_WITNESS_JS = ("var m=new Map([[1,1],[2,2],[3,3]]),it=m.keys();it.next();it.next();m.clear();m.set(4,4);"
                    "var r=it.next();print(r.done?'done':r.value)")


def esc(s):
    out = []
    for ch in s:
        o = ord(ch)
        if ch == "\\":
            out.append("\\\\")
        elif ch == "\n":
            out.append("\\n")
        elif ch == "\r":
            out.append("\\r")
        elif ch == "\t":
            out.append("\\t")
        elif 0x20 <= o <= 0x7e:
            out.append(ch)
        elif o < 0x10000:
            out.append("\\u%04x" % o)
        else:
            o -= 0x10000
            out.append("\\u%04x\\u%04x" % (0xd800 + (o >> 10), 0xdc00 + (o & 0x3ff)))
    return "".join(out)


def run_iso(binpath, cases, timeout=600):
    """cases: list of (id, mode, program, aux).  Returns {id: (status, trace_json_text, completion)} or None on timeout."""
    inp = "".join("%s\t%s\t%s\t%s\n" % (i, m, esc(p), esc(a or "")) for i, m, p, a in cases)
    try:
        p = subprocess.run(["nice", "-n", "5", binpath], input=inp, stdout=subprocess.PIPE, stderr=subprocess.PIPE, text=True,
                           timeout=timeout, errors="replace")
    except subprocess.TimeoutExpired:
        return None
    res = {}
    for line in p.stdout.split("\n"):
        f = line.split("\t")
        if len(f) >= 4:
            res.setdefault(f[0], []).append((f[1], f[2], "\t".join(f[3:])))
    return res


def chunks(lst, n):
    k = max(1, (len(lst) + n - 1) // n)
    return [lst[i:i + k] for i in range(0, len(lst), k)]


def pool_map(fn, jobs):
    with ThreadPoolExecutor(max_workers=max(2, min(8, vlib.NCPU // 2))) as ex:
        return list(ex.map(fn, jobs))


# ------------------------------------------------------------------------------------------------
# (i) own keys

class KeyIds:
    def __init__(self):
        self.ids = {}
        self.names = []

    def get(self, s):
        if s not in self.ids:
            self.ids[s] = len(self.names)
            self.names.append(s)
        return self.ids[s]


def key_term(k, ids):
    if k[0] == "i":
        return "KIdx %d" % k[1]
    if k[0] == "s":
        return "KStr %d" % ids.get(k[1])
    return "KSym %d" % k[1]


def ops_term(ops, ids):
    t = []
    for op, k in ops:
        if op == "D":
            t.append("Define (%s) true" % key_term(k, ids))
        elif op == "d":
            t.append("Define (%s) false" % key_term(k, ids))
        else:
            t.append("Delete (%s)" % key_term(k, ids))
    return "[" + "; ".join(t) + "]"


def model_keys(checkpoints, ids):
    body = ["From Coq Require Import NArith List.", "From C20 Require Import Model_C20.", "Import ListNotations.", "Local Open Scope N_scope."]
    for _, _, _, ops in checkpoints:
        body.append("Eval vm_compute in (prun_keys %s)." % ops_term(ops, ids))
    rc, out, err = vlib.coq_eval("Cases_C20_keys_%d" % os.getpid(), "\n".join(body) + "\n")
    if rc != 0:
        return None, (err or out)[-1500:]
    blocks = re.split(r"^\s*= ", out, flags=re.M)[1:]
    res = []
    for b in blocks:
        b = b.split("\n     :")[0]
        res.append(re.findall(r"(KIdx|KStr|KSym)\s+(\d+)", b))
    if len(res) != len(checkpoints):
        return None, "model output count %d != %d" % (len(res), len(checkpoints))
    return res, ""


def expected_show(mk, kind, ids):
    allk, strs, names = [], [], []
    for t, v in mk:
        v = int(v)
        if t == "KIdx":
            allk.append("K%d" % v)
            strs.append(str(v))
            names.append(str(v))
        elif t == "KStr":
            nm = ids.names[v]
            allk.append("K" + nm)
            names.append(nm)
            if not (kind == "arr" and nm == "length"):
                strs.append(nm)
        else:
            allk.append("Ys%d" % v)
    forin = list(strs) + (["inherited"] if kind == "cls" else [])
    js = [] if kind == "arr" else list(strs)
    return [allk, strs, forin, js, names, strs]


def keys_correspondence(run, rng, binpath, ncases, nbig, extra_cases=()):
    ids = KeyIds()
    cases = []
    for i in range(ncases):
        js, cps, feats = G.keys_case(rng, big=(i < nbig))
        cases.append(("k%d" % i, js, cps, feats))
    for j, c in enumerate(extra_cases):
        cps = [(x[0], x[1], x[2], [(o, tuple(k)) for o, k in x[3]]) for x in c["checkpoints"]]
        cases.append(("kc%d" % j, c["program"], cps, ["corpus"]))
    feat = Counter()
    jobs = chunks([(cid, "kind=fresh", js, "") for cid, js, _, _ in cases], 8)
    outs = {}
    for r in pool_map(lambda ch: run_iso(binpath, ch), jobs):
        if r:
            outs.update(r)
    allcps = []
    for cid, js, cps, feats in cases:
        for f in feats:
            feat[f] += 1
        for cp in cps:
            allcps.append((cid,) + tuple(cp))
    mk, err = model_keys([c[1:] for c in allcps], ids)
    bad = []
    if mk is None:
        return None, {"error": "model evaluation failed: " + err}, feat
    pos = 0
    impl_lines = {}
    for cid, js, cps, feats in cases:
        r = outs.get(cid)
        lines = {}
        if r:
            try:
                for pl in json.loads(r[0][1]):
                    parts = pl.split(" ", 1)
                    lines[parts[0]] = parts[1] if len(parts) > 1 else ""
            except ValueError:
                pass
        impl_lines[cid] = (lines, r[0] if r else None)
    for k, (cid, lab, oi, kind, ops) in enumerate(allcps):
        exp = " ".join(json.dumps(x, ensure_ascii=False, separators=(",", ":")) for x in expected_show(mk[k], kind, ids))
        lines, raw = impl_lines[cid]
        got = lines.get(lab)
        nontriv = len(ops) >= 3
        run.count(("keys", cid, lab, exp), nontriv)
        if k < 2:
            run.sample({"kind": "own-keys checkpoint", "ops": ops[:12], "model": exp[:300], "impl": (got or "")[:300]})
        if got != exp:
            prog = [c for c in cases if c[0] == cid][0][1]
            bad.append({"case": cid, "checkpoint": lab, "object_kind": kind, "ops": ops, "model": exp, "impl": got, "raw": raw, "program": prog})
    return bad, None, feat


# ------------------------------------------------------------------------------------------------
# (ii) Map / Set

def parse_map_log(trace):
    """trace: list of print lines.  Returns (ops terms, expected outputs) or raises ValueError."""
    ops, exp = [], []
    for ln in trace:
        f = ln.split(" ")
        t = f[0]
        if t == "S":
            ops.append("MSet %d %d" % (int(f[1]), int(f[2])))
            exp.append([0])
        elif t == "D":
            ops.append("MDel %d" % int(f[1]))
            exp.append([5, 1 if f[2] == "true" else 0])
        elif t == "C":
            ops.append("MClear")
            exp.append([0])
        elif t == "G":
            ops.append("MGet %d" % int(f[1]))
            exp.append([3] if f[2] == "u" else [4, int(f[2])])
        elif t == "H":
            ops.append("MHas %d" % int(f[1]))
            exp.append([5, 1 if f[2] == "true" else 0])
        elif t == "Z":
            ops.append("MSize")
            exp.append([6, int(f[1])])
        elif t == "I":
            ops.append("MNewIter")
            exp.append([0])
        elif t == "F":
            ops.append("MForEach")
            exp.append([0])
        elif t == "N":
            ops.append("MNext %d" % int(f[1]))
            if f[2] == "done":
                exp.append([1])
            else:
                exp.append([2, None if f[2] == "?" else int(f[2]), None if f[3] == "?" else int(f[3])])
        elif t == "X":
            ops.append("MDrop %d" % int(f[1]))
            exp.append([0])
        else:
            raise ValueError("unexpected log line: " + ln)
    return ops, exp


MAP_CASES_HDR = """From Coq Require Import NArith List Bool.
From C20 Require Import Model_C20.
Import ListNotations.
Definition enc (o : mout) : list N :=
  match o with
  | ONone => [0%N] | OYield None => [1%N] | OYield (Some (k, v)) => [2%N; k; v]
  | OVal None => [3%N] | OVal (Some v) => [4%N; v] | OBool b => [5%N; if b then 1%N else 0%N] | ONat n => [6%N; N.of_nat n]
  end.
Definition ndev (h : list mop) : nat :=
  length (filter (fun p => negb (out_agreeb (fst p) (fst (snd p), false))) (combine (mrun minit h) (srun sinit h))).
Definition ev (h : list mop) := (map enc (mrun minit h), (existsb snd (srun sinit h), ndev h)).
(* the behaviour with fixes.d/C20-clear-under-iterator.patch applied *)
Definition evf (h : list mop) := (map enc (mrun_fixed minit h), (existsb snd (srun sinit h), 0)).
"""


def model_maps(histories, fixed=False):
    body = [MAP_CASES_HDR]
    for ops in histories:
        body.append("Eval vm_compute in (%s [%s])." % ("evf" if fixed else "ev", "; ".join(("%s" % o) for o in ops)))
    # numerals: keys/values are N, cursor ids and sizes nat
    text = "\n".join(body) + "\n"
    text = re.sub(r"(MSet|MDel|MGet|MHas) (\d+)( \d+)?", lambda m: "%s %s%%N%s" % (m.group(1), m.group(2), (" %s%%N" % m.group(3).strip()) if m.group(3) else ""), text)
    rc, out, err = vlib.coq_eval("Cases_C20_maps_%d_%d" % (os.getpid(), len(histories)), text)
    if rc != 0:
        return None, (err or out)[-1500:]
    blocks = re.split(r"^\s*= ", out, flags=re.M)[1:]
    res = []
    for b in blocks:
        b = b.split("\n     :")[0].replace("%N", "").replace("%nat", "").replace(";", ",").replace("true", "True").replace("false", "False")
        try:
            res.append(ast.literal_eval(re.sub(r"\s+", " ", b.strip())))
        except (ValueError, SyntaxError):
            return None, "cannot parse model output: " + b[:200]
    if len(res) != len(histories):
        return None, "model output count %d != %d" % (len(res), len(histories))
    return res, ""


def out_match(e, m):
    if len(e) != len(m) or e[0] != m[0]:
        return False
    return all(a is None or a == b for a, b in zip(e[1:], m[1:]))


def maps_correspondence(run, rng, binpath, ncases, nbig, extra_programs=(), fixed=False):
    cases = []
    for i in range(ncases):
        js, setmode, feats = G.mapset_program(rng, big=(i < nbig))
        cases.append(("m%d" % i, js, feats))
    for j, p in enumerate(extra_programs):
        cases.append(("mc%d" % j, p, ["corpus"]))
    feat = Counter()
    gcs = ["kind=fresh", "kind=fresh,gc=37", "kind=fresh,noise=1,collect=1"]
    jobs = chunks([(cid, gcs[k % 3], js, "") for k, (cid, js, _) in enumerate(cases)], 8)
    outs = {}
    for r in pool_map(lambda ch: run_iso(binpath, ch), jobs):
        if r:
            outs.update(r)
    hist, meta, bad = [], [], []
    for cid, js, feats in cases:
        for f in feats:
            feat[f] += 1
        r = outs.get(cid)
        if not r:
            run.cov["discarded_timeouts"] = run.cov.get("discarded_timeouts", 0) + 1
            continue
        status, trace, comp = r[0]
        try:
            tr = json.loads(trace)
            ops, exp = parse_map_log(tr)
        except ValueError as e:
            bad.append({"case": cid, "program": js, "impl": [status, trace, comp], "model": "unparsable log: %s" % e})
            continue
        if status != "ok" or not comp.startswith("V:"):
            bad.append({"case": cid, "program": js, "impl": [status, trace[-400:], comp], "model": "program must complete normally"})
            continue
        hist.append(ops)
        meta.append((cid, js, exp, tr))
    mo, err = model_maps(hist, fixed)
    if mo is None:
        return None, {"error": "model evaluation failed: " + err}, feat, {}
    stats = {"histories": len(hist), "ops": sum(len(h) for h in hist), "tainted_histories": 0, "spec_deviating_outputs": 0,
             "iterator_steps": sum(1 for h in hist for o in h if o.startswith("MNext"))}
    for (cid, js, exp, tr), ops, (mouts, (tainted, ndev)) in zip(meta, hist, mo):
        stats["tainted_histories"] += 1 if tainted else 0
        stats["spec_deviating_outputs"] += ndev
        nontriv = any(o.startswith("MNext") for o in ops) and any(o.startswith(("MDel", "MClear")) for o in ops)
        run.count(("maps", tuple(ops)), nontriv)
        if len(run.cov["samples"]) < 4:
            run.sample({"kind": "map/set history (logged by the program)", "ops": ops[:25], "impl_log": tr[:25], "tainted_by_clear": tainted})
        ok = len(mouts) == len(exp) and all(out_match(e, m) for e, m in zip(exp, mouts))
        if not ok:
            first = next((k for k, (e, m) in enumerate(zip(exp, mouts)) if not out_match(e, m)), min(len(exp), len(mouts)))
            bad.append({"case": cid, "program": js, "ops": ops, "first_difference_at": first,
                        "op": ops[first] if first < len(ops) else None,
                        "impl": exp[first] if first < len(exp) else None, "model": mouts[first] if first < len(mouts) else None,
                        "impl_log": tr})
    return bad, None, feat, stats


# ------------------------------------------------------------------------------------------------
# (iii) realm mechanism: generated cross-realm call trees, current-realm probes vs Deep_Realm_C20.run

def realm_correspondence(run, rng, binpath, ncases):
    cases = []
    feat = Counter()
    for i in range(ncases):
        mj, defs, coq, K, feats = G.realm_tree(rng)
        cases.append(("t%d" % i, mj, defs, coq, K))
        for f in feats:
            feat[f] += 1
    jobs = chunks([(cid, "kind=tree,realms=%d" % K, mj, "\x1e".join("%d|%s" % d for d in defs)) for cid, mj, defs, coq, K in cases], 6)
    outs = {}
    for r in pool_map(lambda ch: run_iso(binpath, ch), jobs):
        if r:
            outs.update(r)
    body = ["From Coq Require Import List.", "From C20 Require Import Deep_Realm_C20.", "Import ListNotations.",
            "Definition enc (l : list act) (k : nat) := map (fun e => match e with EProbe r => r | ECatch => 999 end) (rev (tr (fst (run_list l (init 0 k)))))."]
    for cid, mj, defs, coq, K in cases:
        body.append("Eval vm_compute in (enc %s %d)." % (coq, K))
    rc, out, err = vlib.coq_eval("Cases_C20_realm_%d" % os.getpid(), "\n".join(body) + "\n")
    if rc != 0:
        return None, {"error": "model evaluation failed: " + (err or out)[-1500:]}, feat, {}
    blocks = re.split(r"^\s*= ", out, flags=re.M)[1:]
    if len(blocks) != len(cases):
        return None, {"error": "model output count %d != %d" % (len(blocks), len(cases))}, feat, {}
    bad = []
    stats = Counter()
    for (cid, mj, defs, coq, K), b in zip(cases, blocks):
        model = [int(x) for x in re.findall(r"\d+", b.split("\n     :")[0])]
        r = outs.get(cid)
        if not r:
            stats["discarded_timeouts"] += 1
            continue
        status, trace, comp = r[0]
        try:
            lines = json.loads(trace)
        except ValueError:
            lines = ["?"]
        impl = [999 if l == "C" else (int(l[2:]) if re.fullmatch(r"P \d+", l) else -1) for l in lines]
        stats["probes"] += sum(1 for x in model if x != 999)
        stats["abrupt_paths"] += sum(1 for x in model if x == 999)
        run.count(("realm-tree", coq), len(model) >= 4)
        if len(run.cov["samples"]) < 6 and len(model) >= 6:
            run.sample({"kind": "realm call tree", "model_tree": coq[:400], "program": mj[:300], "probes_model": model[:30], "probes_impl": impl[:30]})
        if status != "ok" or impl != model:
            restored = len(impl) >= 2 and impl[0] == impl[-1]
            bad.append({"case": cid, "program": mj, "defs": defs, "realms": K, "tree": coq, "model": model, "impl": impl, "raw": [status, comp],
                        "host_realm_restored": restored})
    return bad, None, feat, dict(stats)


# ------------------------------------------------------------------------------------------------
# search: determinism / isolation

def sab_mode(rng, kind):
    m = "kind=%s" % kind
    if kind == "sab" and rng.random() < 0.4:
        m += ",drop=1"
    if rng.random() < 0.3:
        m += ",noise=%d,collect=%d" % (rng.randrange(1, 4), rng.randrange(2))
    return m


def determinism_search(run, rng, binpath, nprog, nx, corpus_progs=(), idtag=""):
    progs = []
    for i in range(nprog):
        p, feats = G.program(rng)
        progs.append((idtag + "p%d" % i, p, feats, "prog"))
    for i in range(nx):
        p, feats = G.xrealm(rng)
        progs.append((idtag + "x%d" % i, p, feats, "xrealm"))
    for j, (p, ty) in enumerate(corpus_progs):
        progs.append(("c%d" % j, p, ["corpus"], ty))
    feat = Counter()
    for _, _, feats, _ in progs:
        for f in feats:
            feat[f] += 1
    nchunk = 6
    jobs = []
    # (ref + a) one process: every program once, then every program again (same thread, grown history)
    for ch in chunks(progs, nchunk):
        cases = [(pid + "#1", "kind=fresh", p, "") for pid, p, _, _ in ch] + [(pid + "#2", "kind=fresh", p, "") for pid, p, _, _ in reversed(ch)]
        jobs.append(("a", cases))
    # (b) other processes: unrelated allocation first, forced-collection schedules, other order
    for rep in range(2):
        order = list(progs)
        rng.shuffle(order)
        for ch in chunks(order, nchunk):
            cases = [(pid + "#b%d" % rep, "kind=fresh,noise=%d,collect=%d,gc=%d" % (rng.randrange(0, 4), rng.randrange(2), rng.choice([0, 0, 97, 500, 2000])), p, "")
                     for pid, p, _, _ in ch]
            jobs.append(("b", cases))
    # (c) after a sabotage history in another context of the same thread; (d) second realm after sabotage of the first
    sabs = {}
    for kind, tag in (("sab", "c"), ("realm", "d")):
        order = list(progs)
        rng.shuffle(order)
        for ch in chunks(order, nchunk):
            cases = []
            for pid, p, _, _ in ch:
                s = G.sabotage(rng)
                sabs[pid + "#" + tag] = s
                cases.append((pid + "#" + tag, sab_mode(rng, kind), p, s))
            jobs.append((tag, cases))
    t0 = time.time()
    results = pool_map(lambda j: (j[0], j[1], run_iso(binpath, j[1], timeout=900)), jobs)
    outs, modes = {}, {}
    timeouts = 0
    for tag, cases, r in results:
        if r is None:
            timeouts += len(cases)
            continue
        for cid, mode, p, a in cases:
            if cid in r:
                outs[cid] = r[cid][0]
                modes[cid] = mode
    run.cov["search_wall_s" + idtag] = round(time.time() - t0, 1)
    found = []
    stats = Counter()
    for pid, p, feats, ty in progs:
        ref = outs.get(pid + "#1")
        if ref is None:
            stats["discarded_no_reference"] += 1
            continue
        if ref[0] != "ok":
            stats["reference_panics_not_compared"] += 1
            continue
        try:
            ntrace = len(json.loads(ref[1]))
        except ValueError:
            ntrace = 0
        nontriv = ntrace >= 2
        if ty == "xrealm":
            fails = [l for l in json.loads(ref[1]) if not l.startswith("ok ")]
            stats["xrealm_checks"] += ntrace
            if fails or not ref[2].startswith("V:"):
                name = fails[0][5:] if fails else "completion " + ref[2][:60]
                found.append({"kind": "counterexample", "class": "xrealm-" + re.sub(r"[^a-z0-9]+", "-", name.lower()).strip("-")[:60],
                              "obligation": "cross-realm expectation (objects keep their realm's intrinsics; sabotage invisible across realms)",
                              "input": p, "config": "kind=fresh", "impl_output": list(ref), "failed_checks": fails[:10]})
        for suffix, label in (("#2", "same-process-rerun"), ("#b0", "cross-process"), ("#b1", "cross-process"), ("#c", "after-sabotage-context"), ("#d", "second-realm-after-sabotage")):
            o = outs.get(pid + suffix)
            if o is None:
                stats["discarded_timeouts"] += 1
                continue
            run.count(("det", pid, suffix, p), nontriv)
            stats["compared_" + label] += 1
            if tuple(o) != tuple(ref):
                found.append({"kind": "counterexample", "class": "trace-differs-" + label,
                              "obligation": "trace(P | history) = trace(P | empty): " + label,
                              "input": p, "config": modes.get(pid + suffix), "aux": sabs.get(pid + suffix, ""),
                              "ref_output": list(ref), "impl_output": list(o), "features": feats})
    stats["timeouts_jobs_cases"] = timeouts
    if len(run.cov["samples"]) < 6 and progs:
        pid, p, feats, ty = progs[0]
        run.sample({"kind": "determinism program", "features": feats, "program": p[:600], "reference": list(outs.get(pid + "#1", ("?",)))[:3]})
    return found, feat, dict(stats)


# ------------------------------------------------------------------------------------------------

def shrink_program(binpath, prog, config, aux, budget=36):
    """Line-based delta debugging of a determinism failure: keep a reduction while reference and configured run still differ."""
    def differs(text):
        r = run_iso(binpath, [("ref", "kind=fresh", text, ""), ("cfg", config or "kind=fresh", text, aux or "")], timeout=300)
        return bool(r) and "ref" in r and "cfg" in r and r["ref"][0] != r["cfg"][0] and r["ref"][0][0] == "ok"
    lines = prog.split("\n")
    n, runs = 2, 0
    while len(lines) >= 2 and runs < budget:
        size = max(1, len(lines) // n)
        reduced = False
        for i in range(0, len(lines), size):
            cand = lines[:i] + lines[i + size:]
            runs += 1
            if cand and differs("\n".join(cand)):
                lines, n, reduced = cand, max(n - 1, 2), True
                break
            if runs >= budget:
                break
        if not reduced:
            if size == 1:
                break
            n = min(len(lines), n * 2)
    return "\n".join(lines)


def save_corpus(obj, ty):
    import hashlib
    d = os.path.join(vlib.CORPUS, PROP)
    os.makedirs(d, exist_ok=True)
    h = hashlib.sha1(obj["input"].encode("utf8", "replace")).hexdigest()[:10]
    path = os.path.join(d, "found-%s-%s.json" % (re.sub(r"[^a-z0-9-]", "", obj.get("class", "x"))[:40], h))
    with open(path, "w") as f:
        json.dump({"type": ty, "note": obj.get("obligation", ""), "class": obj.get("class"), "program": obj["input"]}, f, indent=1)
    return path


def selftest_injected_leak(run, rng, binpath):
    """The oracle must be able to fail: with isolation deliberately broken in the harness (leak=1: the sabotage history
    runs in the same context / realm as the program) the search has to report differences."""
    progs = [G.program(rng)[0] for _ in range(6)]
    sab = "Object.prototype.toJSON=function(){return 'L'};Array.prototype.join=function(){return 'L'};Object.keys=function(){return ['L']};" \
          "Error.prototype.toString=function(){return 'L'};String=function(){return 'L'};Symbol.prototype.toString=function(){return 'L'};"
    cases = []
    for i, p in enumerate(progs):
        cases.append(("r%d" % i, "kind=fresh", p, ""))
        cases.append(("s%d" % i, "kind=sab,leak=1", p, sab))
        cases.append(("d%d" % i, "kind=realm,leak=1", p, sab))
    r = run_iso(binpath, cases, timeout=600) or {}
    det = sum(1 for i in range(len(progs)) for t in "sd" if r.get("r%d" % i) and r.get("%s%d" % (t, i)) and r["r%d" % i][0] != r["%s%d" % (t, i)][0])
    run.cov["selftest_injected_leak"] = {"programs": len(progs), "configs": 2, "differences_detected": det,
                                          "meaning": "harness-side deliberate isolation break (leak=1); > 0 shows the search oracle can fail"}
    return det


def load_corpus():
    d = os.path.join(vlib.CORPUS, PROP)
    keys, maps, progs = [], [], []
    if os.path.isdir(d):
        for f in sorted(os.listdir(d)):
            if not f.endswith(".json"):
                continue
            try:
                c = json.load(open(os.path.join(d, f)))
            except ValueError:
                continue
            if c.get("type") == "keys":
                keys.append(c)
            elif c.get("type") == "mapset":
                maps.append(c["program"])
            elif c.get("type") in ("prog", "xrealm"):
                progs.append((c["program"], c["type"]))
    return keys, maps, progs


def observe_clear_witness(run, binpath):
    r = run_iso(binpath, [("w", "kind=fresh", CLEAR_WITNESS_JS, "")], timeout=120)
    got = None
    if r and "w" in r:
        try:
            got = json.loads(r["w"][0][1])
        except ValueError:
            got = None
    run.cov["observation_clear_under_iterator"] = {
        "program": CLEAR_WITNESS_JS, "impl": got, "ecma262": ["4"], "model": ["done"],
        "status": "deterministic spec deviation, not a C20 violation; theorem iteration_is_insertion_order is stated under the guard, "
                  "iteration_unguarded_refuted carries the witness (design.d/C20.md, fixes.d/C20-clear-under-iterator.patch)"}
    return got


def main():
    run = Run(PROP, "proof")
    run.cov["rule"] = ("correspondence cases: (i) an own-key checkpoint = (object kind, history prefix) compared on 6 enumeration APIs, non-trivial when the "
                       "history has >= 3 operations; (ii) a Map/Set history logged by a generated program, non-trivial when it steps a cursor and deletes/clears; "
                       "search cases: (program, configuration) pairs compared with the reference run, non-trivial when the program printed >= 2 lines; "
                       "distinct = distinct (history | program text, configuration)")
    broken = None
    # translator: inventory of thread_local!/static/lazy state regenerated from the sources -> coq/Gen/Statics_C20.v
    sinfo = None
    try:
        import gen_c20
        text, sinfo = gen_c20.generate(vlib.REPO)
        vlib.write_if_changed(os.path.join(vlib.COQ, "Gen", "Statics_C20.v"), text)
        run.cov["statics_inventory"] = {"items": sinfo["items"], "by_class": sinfo["by_class"], "unclassified": sinfo["unclassified"],
                                         "table": [[r["class"], r["file"], r["name"], r["kind"]] for r in sinfo["table"]]}
    except Exception as e:
        broken = {"kind": "translator", "detail": {"error": "%s: %s" % (type(e).__name__, e)}}
    pr = vlib.proof_stage(PROP, ["C20", "Gen"], "C20/Props_C20.v")
    run.set_proof(pr, TRUSTED)
    if not pr["ok"]:
        broken = broken or pr["broken"]
        if sinfo and sinfo["unclassified"]:
            broken = dict(broken)
            broken["unclassified_statics"] = sinfo["unclassified"]
    ok, paths, blog = vlib.harness_build(["iso"])
    if not ok:
        if re.search(r"^error", blog, re.M):
            run.violation({"kind": "correspondence-broken", "obligation": "harness `iso` no longer compiles against /repo", "log": blog[-3000:]}, found_input=False)
            return run.finish()
        vlib.infra_error(PROP, "harness build failed: " + blog[-400:])
    binpath = paths["iso"]
    ckeys, cmaps, cprogs = load_corpus()
    enlarged = (not run.quick) or broken is not None
    nk, nkb = (700, 50) if enlarged else (80, 5)
    nm, nmb = (900, 60) if enlarged else (100, 6)
    npg, nx = (500, 100) if enlarged else (48, 10)
    corr_broken = None
    # which clear() behaviour does the tree have?  (unpatched: iterator is done; with fixes.d/C20-clear-under-iterator.patch: yields 4)
    fixed = observe_clear_witness(run, binpath) == ["4"]
    run.cov["mapset_model_variant"] = "mrun_fixed (tree has the clear-under-iterator fix; theorem iteration_is_insertion_order_with_fix)" if fixed else "mrun (unpatched clear(); theorems iteration_is_insertion_order + iteration_unguarded_refuted)"
    # independent generators per phase (so that the phases can run concurrently and stay reproducible from the seed)
    rk, rm, rs, rs2 = (random.Random(run.rng.getrandbits(64)) for _ in range(4))
    rt = random.Random(run.seed * 7919 + 17)
    ntree = 500 if enlarged else 60
    with ThreadPoolExecutor(max_workers=4) as ex:
        ft = ex.submit(realm_correspondence, run, rt, binpath, ntree)                  # correspondence (iii)
        fk = ex.submit(keys_correspondence, run, rk, binpath, nk, nkb, ckeys)          # correspondence (i)
        fm = ex.submit(maps_correspondence, run, rm, binpath, nm, nmb, cmaps, fixed)   # correspondence (ii)
        fs = ex.submit(determinism_search, run, rs, binpath, npg, nx, cprogs)          # search
        kbad, kerr, kfeat = fk.result()
        mbad, merr, mfeat, mstats = fm.result()
        found, pfeat, pstats = fs.result()
        tbad, terr, tfeat, tstats = ft.result()
    run.cov["realm_tree_feature_distribution"] = dict(tfeat)
    run.cov["realm_tree_stats"] = tstats
    if tbad is None:
        corr_broken = {"kind": "correspondence", "detail": terr}
        tbad = []
    run.cov["keys_feature_distribution"] = dict(kfeat)
    if kbad is None:
        corr_broken = corr_broken or {"kind": "correspondence", "detail": kerr}
        kbad = []
    run.cov["mapset_feature_distribution"] = dict(mfeat)
    run.cov["mapset_stats"] = mstats
    if mbad is None:
        corr_broken = corr_broken or {"kind": "correspondence", "detail": merr}
        mbad = []
    # a broken correspondence enlarges the search for a failing input of the property itself
    if (kbad or mbad or tbad or corr_broken) and not enlarged and not found:
        found2, pfeat2, pstats2 = determinism_search(run, rs2, binpath, 300, 60, (), idtag="e")
        found += found2
        pstats["enlarged"] = pstats2
        npg, nx = npg + 300, nx + 60
    if selftest_injected_leak(run, random.Random(run.seed ^ 0x5e1f), binpath) == 0:
        run.notes.append("self-test: injected isolation break was NOT detected - search oracle is blind")
    run.cov["search_feature_distribution"] = dict(pfeat)
    run.cov["search_stats"] = pstats
    run.cov["programs"] = npg + nx
    run.cov["search_label"] = "implementation-level determinism/isolation is SEARCH (differential), not proof"
    for f in found[:8]:
        f["how_to_rerun"] = "./check replay <this file>  (runs the program under the reference and the recorded configuration)"
        if f["class"].startswith("trace-differs") and vlib.match_known(PROP, f) is None:
            try:
                small = shrink_program(binpath, f["input"], f.get("config"), f.get("aux"))
                if small != f["input"]:
                    f["unshrunk_input"], f["input"] = f["input"], small
            except Exception as e:      # shrinking is best effort
                f["shrink_error"] = str(e)
        if vlib.match_known(PROP, f) is None:
            f["corpus_file"] = save_corpus(f, "xrealm" if f["class"].startswith("xrealm") else "prog")
        run.violation(f)
    for b in kbad[:4]:
        run.violation({"kind": "correspondence-broken", "class": "ownkeys-model-mismatch-" + b["object_kind"],
                       "obligation": "own-key order: boa vs coq/C20 prun_keys (own_keys_executable)", "input": b["program"],
                       "checkpoint": b["checkpoint"], "ops": b["ops"], "model_output": b["model"], "impl_output": b["impl"],
                       "how_to_rerun": "./check replay <this file>"}, found_input=True)
    for b in tbad[:4]:
        restored = b["host_realm_restored"]
        run.violation({"kind": "correspondence-broken" if restored else "counterexample",
                       "class": "realm-mechanism-model-mismatch" if restored else "host-realm-not-restored",
                       "obligation": "current realm probes of a cross-realm call tree: boa vs coq/C20 Deep_Realm_C20.run (realm_restored, global_resolution_in_own_realm)",
                       "input": b["program"], "config": "kind=tree,realms=%d" % b["realms"], "aux": "\x1e".join("%d|%s" % tuple(d) for d in b["defs"]),
                       "tree": b["tree"], "model_output": b["model"], "impl_output": b["impl"], "raw": b["raw"],
                       "how_to_rerun": "./check replay <this file>"}, found_input=True)
    for b in mbad[:4]:
        run.violation({"kind": "correspondence-broken", "class": "mapset-model-mismatch", "obligation": "Map/Set history: boa vs coq/C20 mrun",
                       "input": b["program"], "detail": {k: v for k, v in b.items() if k != "program"},
                       "how_to_rerun": "./check replay <this file>"}, found_input=True)
    if corr_broken is not None and not (found or kbad or mbad or tbad):
        run.violation({"kind": "correspondence-broken", "obligation": "model evaluation (vm_compute cases file)", "detail": corr_broken,
                       "search": "enlarged determinism/isolation search found no failing input"}, found_input=False)
    if broken is not None and not (found or kbad or mbad or tbad):
        run.violation({"kind": "proof-broken", "obligation": "C20/Props_C20.v", "detail": broken,
                       "search": "enlarged correspondence + determinism/isolation search found no failing input"}, found_input=False)
    elif broken is not None:
        run.notes.append({"proof_broken": broken})
    run.assumptions = TRUSTED
    return run.finish()


def replay(obj):
    ok, paths, _ = vlib.harness_build(["iso"])
    binpath = paths["iso"]
    prog = obj.get("input", "")
    cases = [("ref", "kind=fresh", prog, "")]
    if str(obj.get("config", "")).startswith("kind=tree"):
        cases = []
    if obj.get("config"):
        cases.append(("cfg", obj["config"], prog, obj.get("aux", "")))
    r = run_iso(binpath, cases, timeout=600) or {}
    for cid, _, _, _ in cases:
        print(cid, "\t".join(r.get(cid, [("missing",)])[0]))
    if len(cases) == 2 and r.get("ref") and r.get("cfg"):
        print("IDENTICAL" if r["ref"][0] == r["cfg"][0] else "DIFFERENT")
    if obj.get("class", "").startswith("mapset") and r.get("ref"):
        try:
            ops, exp = parse_map_log(json.loads(r["ref"][0][1]))
            mo, err = model_maps([ops], obj.get("model_variant_fixed", False))
            print("model:", mo[0] if mo else err)
            print("impl :", exp)
        except ValueError as e:
            print("log not parsable:", e)
    return 0
