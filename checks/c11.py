"""C11 — string behaviour depends only on the code-unit sequence.

Proof: coq/C11/Props_C11.v — every representation-specialised arm of boa_string (Latin-1 buffer / UTF-16 buffer)
computes the plain code-unit operation; `indistinguishable` is the property itself (unbounded list induction).
Tie: correspondence — coq/C11/Model_C11.v (glue coq/C11/Eval_C11.v) evaluated by its extraction (coq/C11/Extract_C11.v,
ocaml/C11/driver.ml; a sample of the same terms is evaluated with vm_compute too and must agree) against
harness `strops`, which builds every case through every public constructor and runs every operation on every
constructor (pair); results are compared per representation group (L/U, LL/LU/UL/UU).
Search: the property's own oracle on the implementation alone — all constructors agree with each other and with a
native Vec<u16> oracle (random sweeps, exhaustive alphabet strings), std Hash equal across constructors, and
JS-level observers (normalize / Date @@toPrimitive argument matching, property keys, Map/Set keys, comparison).

`JsStr == str` exists in two variants: the unpatched tree (DESIGN.md section 5 #14; model `eq_str_old`, refuted in
Coq) and the code after fixes.d/C11-eq-str.patch (model `eq_str`, proved).  Which one /repo has is detected
per arm by running the Coq refutation witnesses on the harness; the old behaviour is reported as a violation with
class `eq-str-latin1-nonascii` / `eq-str-utf16-prefix`.
"""
import json
import os
import re
import subprocess
import time
from concurrent.futures import ThreadPoolExecutor

import vlib
from vlib import Run, log

import c11_gen

PROP = "C11"
TRUSTED = [
    "Coq 8.16.1 kernel + vm_compute (no native_compute)",
    "Coq extraction (ExtrOcamlBasic only) + OCaml 4.13 for the model side of the correspondence (ocaml/C11/driver.ml); cross-checked against vm_compute of the same terms on a sample every run",
    "hand-written model coq/C11/Model_C11.v + ModelD_C11.v of core/string/src/{str,lib,iter,code_point,builder,common,display}.rs; its arm structure is pinned to the sources by tools/gen_c11.py (token fingerprints per representation arm, theorem arm_table_pinned), its behaviour is tied by correspondence on the inputs run",
    "tools/gen_c11.py (tokenizer, item/arm splitter, sha256 fingerprints); comments/attributes/whitespace are not fingerprinted",
    "Rust std semantics as modelled: <[T]>::eq/cmp (length + memcmp), Iterator::eq/cmp/zip/all/position/rposition/skip, <[T]>::windows/get, char::decode_utf16, str::encode_utf16/as_bytes, char::from_u32",
    "modelled, not verified: allocation/refcount/unsafe pointer plumbing of SequenceString/SliceString/StaticString/JsStringBuilder (only the JsStr view they expose), FxHashMap lookup of the static table (as Hash+Eq), usize overflow",
    "harness/src/bin/strops.rs (public-API observation, native Vec<u16> oracle, catch_unwind), Python driver and generator gen/c11_gen.py",
]

U_KEYS = ["len", "empty", "vec", "iter", "hash", "get1", "get2", "cpa1", "cpa2", "cps", "has", "trim", "trim.r", "trims", "trims.r",
          "trime", "trime.r", "slice", "slice.r", "sget", "sget.r", "jget", "jget.r", "std", "lossy", "esc", "surr", "mapid"]
U_ALIAS = {"jlen": "len", "into_iter": "iter", "jhash": "hash", "jcps": "cps"}
B_KEYS = ["eq", "equ", "eqr", "cmp", "idx", "sw", "ew", "cat", "cat.r"]
B_ALIAS = {"eqj": "eq", "eqx": "eq", "equj": "equ", "pcmp": "cmp"}
E_FIELDS = ["eqs", "eqs_j", "eqs_rev", "eqs_ref"]
NO_MODEL = {"sip", "num", "jnum"}          # compared between constructors (and `esc` with the native oracle) only
UGROUPS = ["L", "U"]
BGROUPS = ["LL", "LU", "UL", "UU"]

CLASS_L = "eq-str-latin1-nonascii"
CLASS_U = "eq-str-utf16-prefix"

WITNESSES = [
    {"name": "latin1-nonascii", "a": [0xe9], "b": [0xe9], "group": "L", "patched": "1", "unpatched": "0", "class": CLASS_L,
     "coq": "eq_str_unpatched_latin1_refuted"},
    {"name": "latin1-utf8-bytes", "a": [0xc3, 0xa9], "b": [0xe9], "group": "L", "patched": "0", "unpatched": "1", "class": CLASS_L,
     "coq": "eq_str_unpatched_latin1_refuted_false_positive"},
    {"name": "utf16-prefix", "a": [0x61, 0x62, 0x3c0], "b": [0x61, 0x62], "group": "U", "patched": "0", "unpatched": "1", "class": CLASS_U,
     "coq": "eq_str_unpatched_utf16_refuted"},
]

# JS-level observers: (id, source, expected, class reported when boa instead *accepts* the argument)
JS_CASES = [
    ("norm-nfc-pi", '"x".normalize("NFC\\u03c0")', "T:RangeError", CLASS_U),
    ("norm-nfd-pi", '"x".normalize("NFD\\u03c0")', "T:RangeError", CLASS_U),
    ("norm-nfkc-astral", '"x".normalize("NFKC\\ud83d\\ude00")', "T:RangeError", CLASS_U),
    ("norm-nfkd-pi", '"x".normalize("NFKD\\u03c0x")', "T:RangeError", CLASS_U),
    ("norm-nfc-latin1", '"x".normalize("NFC\\u00e9")', "T:RangeError", CLASS_L),
    ("norm-short", '"x".normalize("NF\\u03c0")', "T:RangeError", CLASS_U),
    ("norm-ok", '"x".normalize("NFC") + "x".normalize("NFKD")', 'V:"xx"', None),
    ("norm-sliced-ok", '"x".normalize("NFC\\u03c0".slice(0,3))', 'V:"x"', None),
    ("date-number-pi", 'Date.prototype[Symbol.toPrimitive].call(new Date(0), "number\\u03c0")', "T:TypeError", CLASS_U),
    ("date-string-pi", 'typeof Date.prototype[Symbol.toPrimitive].call(new Date(0), "string\\u03c0")', "T:TypeError", CLASS_U),
    ("date-default-pi", 'typeof Date.prototype[Symbol.toPrimitive].call(new Date(0), "default\\u03c0")', "T:TypeError", CLASS_U),
    ("date-number-latin1", 'Date.prototype[Symbol.toPrimitive].call(new Date(0), "number\\u00e9")', "T:TypeError", CLASS_L),
    ("date-ok", 'Date.prototype[Symbol.toPrimitive].call(new Date(0), "number")', 'V:"0"', None),
    ("date-sliced-ok", 'Date.prototype[Symbol.toPrimitive].call(new Date(0), "number\\u03c0".slice(0,6))', 'V:"0"', None),
    # representation independence of keys / equality / order seen from scripts (a slice of a UTF-16 string is a UTF-16 view)
    ("key-slice", 'var k = "ab\\u03c0".slice(0,2); var o = {ab: 1}; o[k]', 'V:"1"', None),
    ("map-key-slice", 'var m = new Map([["ab",1]]); m.get("ab\\u03c0".slice(0,2))', 'V:"1"', None),
    ("strict-eq-slice", '"ab\\u03c0".slice(0,2) === "ab"', 'V:"true"', None),
    ("set-dedupe", 'new Set(["\\u00e9", "\\u00e9\\u03c0".slice(0,1), "\\u00e9\\u03c0".substring(0,1)]).size', 'V:"1"', None),
    ("lt-slice", '"\\u00e9\\u03c0".slice(0,1) < "\\u00ea"', 'V:"true"', None),
    ("sort-mixed", '["b\\u03c0".slice(0,1), "a", "\\u00e9\\u03c0".slice(0,1), "\\u00e9"].sort().join()', 'V:"a,b,\\u00e9,\\u00e9"', None),
    ("indexof-mixed", '"x\\u00e9\\u03c0".slice(0,2).indexOf("\\u00e9") + "," + "x\\u00e9".indexOf("\\u00e9\\u03c0".slice(0,1))', 'V:"1,1"', None),
    ("trim-mixed", '("\\u00a0a\\u03c0".slice(0,2)).trim().length + "," + "\\ufeffa\\u2028".trim().length', 'V:"1,1"', None),
    ("json-key", 'JSON.stringify({["k\\u03c0".slice(0,1)]:1, k:2})', 'V:"{\\"k\\":2}"', None),
    ("switch-slice", 'switch ("length\\u03c0".slice(0,6)) { case "length": "hit"; break; default: "miss" }', 'V:"hit"', None),
    ("concat-key", 'var o = {}; o["len" + "gth\\u03c0".slice(0,3)] = 7; o.length', 'V:"7"', None),
    ("startswith-mixed", '"\\u00e9\\u00e9\\u03c0".slice(0,2).startsWith("\\u00e9") + "," + "a\\u00e9".endsWith("\\u00e9\\u03c0".slice(0,1))', 'V:"true,true"', None),
]


def hexlist(u):
    return ",".join("%x" % x for x in u) if u else "-"


def case_line(c, cid):
    return "case %s %s %s %d %d %d %d" % (cid, hexlist(c["a"]), hexlist(c["b"]), c["from"], c["p1"], c["p2"], c["byte"])


def scalars_of(u):
    """Unicode scalar values of a UTF-16 code-unit list, None when it has an unpaired surrogate."""
    out, i = [], 0
    while i < len(u):
        x = u[i]
        if 0xd800 <= x <= 0xdbff and i + 1 < len(u) and 0xdc00 <= u[i + 1] <= 0xdfff:
            out.append(0x10000 + ((x - 0xd800) << 10) + (u[i + 1] - 0xdc00))
            i += 2
        elif 0xd800 <= x <= 0xdfff:
            return None
        else:
            out.append(x)
            i += 1
    return out


def coq_list(l):
    return "[" + ";".join(str(x) for x in l) + "]"


# ------------------------------------------------------------------------------------------------
# model evaluation (vm_compute)

def model_batch(args):
    name, cases = args
    terms = []
    for c in cases:
        s = scalars_of(c["b"])
        sa = scalars_of(c["a"])
        terms.append("case_eval %s %s %s %s %d%%nat %d%%nat %d%%nat %d" % (
            coq_list(c["a"]), coq_list(c["b"]), "None" if sa is None else "(Some %s)" % coq_list(sa),
            "None" if s is None else "(Some %s)" % coq_list(s), c["from"], c["p1"], c["p2"], c["byte"]))
    body = ("From Coq Require Import NArith List.\nFrom C11 Require Import Model_C11 Eval_C11.\nImport ListNotations.\n"
            "Local Open Scope N_scope.\nEval vm_compute in [\n%s\n].\n" % ";\n".join(terms))
    rc, out, err = vlib.coq_eval(name, body, timeout=1800)
    if rc != 0:
        return None, (err or out)[-1500:]
    m = re.search(r"=\s*(\[.*\])\s*:\s*list", out, re.S)
    if not m:
        return None, "unparsable model output: " + out[:300]
    txt = m.group(1).replace("%N", "").replace(";", ",")
    try:
        res = json.loads(txt)
    except ValueError as e:
        return None, "unparsable model output (%s)" % e
    if len(res) != len(cases):
        return None, "model returned %d rows for %d cases" % (len(res), len(cases))
    return res, ""


def model_eval_vm(cases, tag, chunk=200):
    """The model evaluated inside Coq (vm_compute): slow (printing), used to cross-check the extraction on a sample."""
    jobs = [("Cases_C11_%s_%d" % (tag, k), cases[i:i + chunk]) for k, i in enumerate(range(0, len(cases), chunk))]
    out = []
    with ThreadPoolExecutor(max_workers=max(2, min(vlib.NCPU, 12))) as ex:
        for res, err in ex.map(model_batch, jobs):
            if res is None:
                return None, err
            out += res
    return out, ""


def model_driver():
    """Extracted model (coq/C11/Extract_C11.v, ExtrOcamlBasic only) + ocaml/C11/driver.ml -> binary path or (None, log)."""
    rc, out, err = vlib.sh(["bash", os.path.join(vlib.OCAML, "C11", "build.sh")], timeout=1500)
    path = out.strip().split("\n")[-1] if out.strip() else ""
    if rc != 0 or not os.path.exists(path):
        return None, (err or out)[-1500:]
    return path, ""


def dec_list(l):
    return "-" if not l else ",".join(str(x) for x in l)


def model_line(c):
    sa, sb = scalars_of(c["a"]), scalars_of(c["b"])
    return "%s %s %s %s %d %d %d %d" % (dec_list(c["a"]), dec_list(c["b"]), "N" if sa is None else dec_list(sa),
                                        "N" if sb is None else dec_list(sb), c["from"], c["p1"], c["p2"], c["byte"])


def parse_model_row(line):
    return [[] if g == "" else [[int(x) for x in o.split(",")] for o in g.split(";")] for g in line.split("|")]


def model_eval(cases, driver):
    """The model evaluated by the extracted OCaml code, in parallel chunks."""
    if not cases:
        return [], ""
    lines = [model_line(c) for c in cases]
    nproc = max(1, min(vlib.NCPU, 8))
    size = max(1, (len(lines) + nproc - 1) // nproc)
    chunks = [lines[i:i + size] for i in range(0, len(lines), size)]

    def one(ch):
        p = subprocess.run([driver], input="\n".join(ch) + "\n", stdout=subprocess.PIPE, stderr=subprocess.PIPE, text=True, timeout=1800)
        return p.returncode, p.stdout, p.stderr
    rows = []
    with ThreadPoolExecutor(max_workers=nproc) as ex:
        for ch, (rc, out, err) in zip(chunks, ex.map(one, chunks)):
            got = [l for l in out.split("\n") if l != ""]
            if rc != 0 or len(got) != len(ch) or any(l.startswith("ERR") for l in got):
                return None, "model driver failed (rc %d, %d rows for %d cases): %s" % (rc, len(got), len(ch), (err or out)[-400:])
            try:
                rows += [parse_model_row(l) for l in got]
            except ValueError as e:
                return None, "unparsable model driver output (%s)" % e
    return rows, ""


def enc(l):
    return ",".join(str(x) for x in l)


def model_fields(row):
    """row = [unaryL, unaryU, LL, LU, UL, UU, eqsL, eqsU] -> {key@G: value}"""
    d = {}
    for g, obs in zip(UGROUPS, row[0:2]):
        for k, v in zip(U_KEYS, obs):
            d["%s@%s" % (k, g)] = enc(v)
    for g, obs in zip(BGROUPS, row[2:6]):
        for k, v in zip(B_KEYS, obs):
            d["%s@%s" % (k, g)] = enc(v)
    for g, obs in zip(UGROUPS, row[6:8]):
        if obs:
            d["eqs_new@" + g] = enc(obs[0])
            d["eqs_old@" + g] = enc(obs[1])
    return d


# buffer kind each constructor must choose according to the model (None: not predicted).  `lat` = A fits in bytes.
CTOR_U = {"u16", "macro", "jsstr_u", "static_u", "slice_u", "get_u", "get_u_incl", "slice2_u", "slice_tail_u", "trim_u", "trim_se_u",
          "concat_uu", "concat_lu", "concat_ul", "concat_arr", "b_utf16", "b_utf16_iter", "b_utf16_from", "b_common_u", "clone"}
CTOR_L = {"jsstr_l", "static_l", "slice_l", "get_l", "slice2_l", "slice_static_l", "trim_l", "trim_es_l", "b_latin1", "b_latin1_ext",
          "b_common_l1"}
CTOR_BEST = {"concat_best", "from_arr", "from_arr3", "macro2", "macro3", "b_common"}     # Latin-1 iff every part is (model: concat_repr_indep, builders)
CTOR_STR = {"str", "string", "cow", "fromstr"}                                            # model: from_str (row 8)


def check_ctors(c, ctors, mrow):
    bad = []
    lat = all(x < 256 for x in c["a"])
    from_str_flag = None
    if mrow is not None and len(mrow) > 9:
        if mrow[8]:
            from_str_flag = "L" if mrow[8][1] == [0] else "U"
            if mrow[8][0][1:] != c["a"]:
                bad.append({"field": "from_str units", "model": mrow[8][0], "impl": c["a"]})
        if mrow[9][1] != [1] or mrow[9][0][1:] != c["a"]:
            bad.append({"field": "from_u16s (model)", "model": mrow[9], "impl": "U + same units"})
    for item in ctors.split(","):
        name, _, flag = item.partition(":")
        if flag.endswith("s") and name not in ("static_l", "static_u"):
            continue                       # static-table hit: the table's buffer
        kind = flag[0]
        want = None
        if name in CTOR_U:
            want = "U"
        elif name in CTOR_L:
            want = "L"
        elif name in CTOR_BEST:
            want = "L" if lat else "U"
        elif name in CTOR_STR:
            want = from_str_flag
        if want is not None and want != kind:
            bad.append({"field": "buffer kind chosen by constructor " + name, "model": want, "impl": kind})
    return bad


# ------------------------------------------------------------------------------------------------
# harness

def strops_bin(run):
    override = os.environ.get("VERIF_C11_BIN")      # development aid: a strops binary built against a scratch worktree
    if override:
        run.notes.append({"harness_override": override})
        return override
    ok, paths, blog = vlib.harness_build(["strops"])
    if not ok:
        if re.search(r"^error", blog, re.M):
            run.violation({"kind": "correspondence-broken", "obligation": "harness `strops` no longer compiles against /repo (public boa_string API changed)",
                           "log": blog[-3000:]}, found_input=False)
            return None
        vlib.infra_error(PROP, "harness build failed: " + blog[-400:])
    return paths["strops"]


def run_lines(binpath, lines, timeout=3000):
    p = subprocess.run([binpath], input="\n".join(lines) + "\n", stdout=subprocess.PIPE, stderr=subprocess.PIPE,
                       text=True, timeout=timeout)
    return [l for l in p.stdout.split("\n") if l != ""], p.returncode


def run_parallel(binpath, lines, nproc=None):
    nproc = nproc or vlib.NCPU
    if not lines:
        return []
    size = max(1, (len(lines) + nproc - 1) // nproc)
    chunks = [lines[i:i + size] for i in range(0, len(lines), size)]
    out = []
    with ThreadPoolExecutor(max_workers=nproc) as ex:
        for o, rc in ex.map(lambda ch: run_lines(binpath, ch), chunks):
            out += o
    return out


def parse_case_output(line):
    parts = line.split("\t")
    cid = parts[0]
    fields, markers = {}, []
    panic = None
    for p in parts[1:]:
        if p.startswith("PANIC"):
            panic = p
        elif p[0] in "!?":
            markers.append(p)
        else:
            k, _, v = p.partition("=")
            fields[k] = v
    return cid, fields, markers, panic


# ------------------------------------------------------------------------------------------------
# classification of a `JsStr == str` deviation: a predicate over the case itself

def eqs_class(group, a, b):
    """The two known classes of the unpatched code (DESIGN.md section 5 #14)."""
    if group == "L" and any(x >= 0x80 for x in b):
        return CLASS_L       # Latin-1 buffer compared byte-wise with the UTF-8 bytes of a non-ASCII str
    if group == "U" and len(a) != len(b):
        return CLASS_U       # UTF-16 buffer zipped with the str's units without a length check
    return None


def marker_info(m):
    mm = re.match(r"([!?])([\w.]+)(?:@(\w+))?:", m)
    return (mm.group(1), mm.group(2), mm.group(3)) if mm else (m[0], "?", None)


def compare_case(c, fields, markers, panic, mrow, arms):
    """Returns (property_failures, correspondence_mismatches, known_class_hits).
    arms = {'L': 'new'|'old', 'U': ...}: which `== str` variant each arm of /repo showed on the witnesses."""
    prop, corr, known = [], [], []
    if panic:
        prop.append({"what": "panic", "detail": panic, "class": None})
        return prop, corr, known
    # (1) the property's own oracle, computed by the harness: constructors agree; native Vec<u16> oracle agrees
    for m in markers:
        kind, field, group = marker_info(m)
        cls = None
        if field in E_FIELDS and group in UGROUPS:
            cls = eqs_class(group, c["a"], c["b"])
            if cls is not None and arms.get(group) == "old":
                known.append(cls)
                continue
        prop.append({"what": "constructors disagree" if kind == "!" else "implementation differs from the plain code-unit oracle",
                     "detail": m, "class": cls})
    # (2) results must not depend on the representation group
    gf = [k for k in fields if "@" in k]
    for keys, groups in ((set(k.split("@")[0] for k in gf if k.split("@")[1] in UGROUPS), UGROUPS),
                         (set(k.split("@")[0] for k in gf if k.split("@")[1] in BGROUPS), BGROUPS)):
        for k in keys:
            if k.endswith(".r"):
                continue
            vals = {g: fields["%s@%s" % (k, g)] for g in groups if "%s@%s" % (k, g) in fields}
            if len(set(vals.values())) > 1:
                cls = None
                if k in E_FIELDS:
                    cls = eqs_class("L", c["a"], c["b"]) or eqs_class("U", c["a"], c["b"])
                    if cls is not None and "old" in arms.values():
                        known.append(cls)
                        continue
                prop.append({"what": "result depends on the internal representation", "detail": "%s: %r" % (k, vals), "class": cls})
    # (3) correspondence with the Coq model
    if mrow is not None:
        mf = model_fields(mrow)
        mgroups = set(k.split("@")[1] for k in mf)
        hgroups = set(k.split("@")[1] for k in fields if "@" in k)
        for g in sorted((mgroups | hgroups)):
            if (g in mgroups) != (g in hgroups):
                corr.append({"field": "group " + g, "model": g in mgroups, "impl": g in hgroups})
        if "ctors" in fields:
            corr += check_ctors(c, fields["ctors"], mrow)
        for hk, hv in fields.items():
            if "@" not in hk:
                continue
            k, g = hk.split("@")
            if k in NO_MODEL:
                continue
            if k in E_FIELDS:
                want = mf.get("eqs_%s@%s" % (arms.get(g, "new"), g))
                if want is not None and want != hv:
                    corr.append({"field": hk, "model(%s)" % arms.get(g, "new"): want, "impl": hv})
                continue
            mk = U_ALIAS.get(k, B_ALIAS.get(k, k))
            want = mf.get("%s@%s" % (mk, g))
            if want is None:
                continue
            if k.endswith(".r") and hv == "2":
                continue               # a static-table hit: the buffer kind is the table's, units are compared
            if want != hv:
                corr.append({"field": hk, "model": want, "impl": hv})
    return prop, corr, known


# ------------------------------------------------------------------------------------------------

def corpus_cases():
    out = []
    d = os.path.join(vlib.CORPUS, PROP)
    if os.path.isdir(d):
        for f in sorted(os.listdir(d)):
            if f.endswith(".json"):
                try:
                    o = json.load(open(os.path.join(d, f)))
                    c = {"a": o["a"], "b": o["b"], "from": o.get("from", 0), "p1": o.get("p1", 0), "p2": o.get("p2", len(o["a"])),
                         "byte": o.get("byte", 97), "stream": "corpus", "rel": f[:-5]}
                    out.append(c)
                except (ValueError, KeyError):
                    pass
    return out


def replay_obj(c, **kw):
    o = {"input": case_line(c, "replay"), "a": c["a"], "b": c["b"], "from": c["from"], "p1": c["p1"], "p2": c["p2"], "byte": c["byte"],
         "how_to_rerun": "echo '%s' | harness/target/debug/strops   (fields key@group=value; `!`/`?` markers are disagreements)" % case_line(c, "replay")}
    o.update(kw)
    return o


def parse_mismatch(line):
    m = re.match(r"mismatch case x (\S+) (\S+) (\d+) (\d+) (\d+) (\d+) :: (.*)", line)
    if not m:
        return None, line

    def pu(s):
        return [] if s == "-" else [int(x, 16) for x in s.split(",")]
    c = {"a": pu(m.group(1)), "b": pu(m.group(2)), "from": int(m.group(3)), "p1": int(m.group(4)), "p2": int(m.group(5)),
         "byte": int(m.group(6)), "stream": "sweep", "rel": "sweep"}
    return c, m.group(7)


def main():
    run = Run(PROP, "proof")
    run.cov["rule"] = ("a case = (code units A, code units B, from, p1, p2, byte); every case is built through every public constructor "
                       "(~40 for A, ~40 for B) and every operation is run on every constructor (pair); distinct = distinct case tuple; "
                       "non-trivial = every generated case (each exercises >= 1 constructor pair with different internal representations "
                       "unless A contains a unit > 0xFF, where only the UTF-16 family exists: counted separately as a_latin1_able)")
    broken = None
    timing = {}
    run.cov["phase_wall_s"] = timing
    tph = time.time()

    def phase(name):
        nonlocal tph
        now = time.time()
        timing[name] = round(now - tph, 1)
        tph = now
    # 1. translator: the arm table of the modelled functions, regenerated from /repo on every run (coq/Gen/StrArms.v);
    #    Props_C11.arm_table_pinned proves it equal to the table the model was written against (coq/C11/Arms_C11.v)
    import gen_c11
    arm_diff = None
    try:
        text, info = gen_c11.generate(vlib.REPO)
        run.cov["translator"] = {"tool": "tools/gen_c11.py", "operations": info["operations"], "arm_entries": info["entries"]}
        try:
            expected = gen_c11.parse_table(open(os.path.join(vlib.COQ, "C11", "Arms_C11.v")).read().split("Definition modelled_as")[0])
            arm_diff = gen_c11.diff(expected, info["rows"])
        except OSError:
            pass
    except Exception as e:      # Unsupported or anything else: a table holding only the refusal, which cannot equal the pinned one
        text = gen_c11.refusal("%s: %s" % (type(e).__name__, e))
        arm_diff = ["translator refused: %s: %s" % (type(e).__name__, e)]
        run.cov["translator"] = {"tool": "tools/gen_c11.py", "refused": arm_diff[0]}
    vlib.write_if_changed(os.path.join(vlib.COQ, "Gen", "StrArms.v"), text)
    if arm_diff:
        run.cov["translator"]["arm_table_differences"] = arm_diff[:40]
    # 2-3. proofs + gates
    pr = vlib.proof_stage(PROP, ["Common", "C11"], "C11/Props_C11.v", extra_targets=["C11/Eval_C11.vo", "C11/Extract_C11.vo"])
    run.set_proof(pr, TRUSTED)
    if not pr["ok"]:
        broken = pr["broken"]
        if arm_diff:
            broken = dict(broken)
            broken["arm_table"] = {"what": "a modelled function of boa_string changed (or the translator refused): the model must be re-read against it",
                                   "differences": arm_diff[:40]}
    # harness
    binpath = strops_bin(run)
    if binpath is None:
        return run.finish()

    phase("proof+harness_build")
    # 4a. which `JsStr == str` variant does /repo have?  (Coq refutation witnesses, corpus first)
    arms = {"L": "new", "U": "new"}
    wit_lines = [case_line({"a": w["a"], "b": w["b"], "from": 0, "p1": 0, "p2": len(w["a"]), "byte": 97}, "w%d" % i) for i, w in enumerate(WITNESSES)]
    wout = run_parallel(binpath, wit_lines, 1)
    variant = {}
    for w, line in zip(WITNESSES, wout):
        cid, fields, markers, panic = parse_case_output(line)
        got = fields.get("eqs@" + w["group"])
        variant[w["name"]] = {"impl": got, "patched_model": w["patched"], "unpatched_model": w["unpatched"]}
        run.count(("witness", w["name"]))
        c = {"a": w["a"], "b": w["b"], "from": 0, "p1": 0, "p2": len(w["a"]), "byte": 97}
        if got == w["unpatched"] and got != w["patched"]:
            arms[w["group"]] = "old"
            run.violation(replay_obj(c, kind="counterexample", **{"class": w["class"]},
                                     obligation="JsStr == str must equal (code units == encode_utf16(str)) whatever the buffer kind",
                                     impl_output="eqs@%s=%s" % (w["group"], got), expected=w["patched"],
                                     coq_witness=w["coq"], fix="fixes.d/C11-eq-str.patch",
                                     what="`JsStr == str` on the unpatched tree: " + ("Latin-1 arm compares the buffer with the UTF-8 bytes of the str"
                                                                                       if w["class"] == CLASS_L else
                                                                                       "UTF-16 arm zips with the str's code units without a length check")))
        elif got != w["patched"]:
            run.violation(replay_obj(c, kind="counterexample", **{"class": None}, impl_output="eqs@%s=%s" % (w["group"], got), expected=w["patched"],
                                     obligation="JsStr == str on a Coq witness matches neither the patched nor the unpatched model"))
    run.cov["eq_str_variant"] = {"arms": dict(arms), "witnesses": variant,
                                 "meaning": "new = code after fixes.d/C11-eq-str.patch (model eq_str, theorem eq_str_repr_indep); old = unpatched (model eq_str_old, theorems eq_str_unpatched_*)"}

    # 4b. correspondence: corpus, then seeded cases
    cases = corpus_cases() + c11_gen.generate(run.rng, run.quick)
    run.cov["distribution"] = c11_gen.describe(cases)
    lines = [case_line(c, str(i)) for i, c in enumerate(cases)]
    # the model side runs concurrently with the harness: extracted OCaml driver on every case, and the same model inside Coq
    # (vm_compute) on a sample, which must agree with the extraction
    have_model = broken is None or os.path.exists(os.path.join(vlib.COQ, "C11", "Eval_C11.vo"))
    driver, derr = (None, "Eval_C11.vo not built")
    if have_model:
        driver, derr = model_driver()
    ncorp = len(corpus_cases())
    nvm = 24 if run.quick else 120
    vm_idx = list(range(ncorp)) + sorted(run.rng.sample(range(ncorp, len(cases)), min(nvm, len(cases) - ncorp)))
    bg = ThreadPoolExecutor(max_workers=2)
    fut_model = bg.submit(model_eval, cases, driver) if driver else None
    fut_vm = bg.submit(model_eval_vm, [cases[i] for i in vm_idx], "s%d_p%d" % (run.seed, os.getpid()), 40) if have_model else None
    hout = run_parallel(binpath, lines)
    by_id = {}
    for l in hout:
        cid, fields, markers, panic = parse_case_output(l)
        by_id[cid] = (fields, markers, panic)
    phase("harness_cases")
    mrows = None
    if have_model:
        mrows, err = fut_model.result() if fut_model else (None, derr)
        if mrows is None and broken is None:
            broken = {"kind": "correspondence", "detail": {"error": "model evaluation (extracted driver) failed: " + err}}
        vrows, verr = fut_vm.result()
        if vrows is None:
            if broken is None:
                broken = {"kind": "correspondence", "detail": {"error": "model evaluation (vm_compute) failed: " + verr}}
        elif mrows is not None:
            diff = [i for i, vr in zip(vm_idx, vrows) if vr != mrows[i]]
            run.cov["extraction_cross_check"] = {"cases_evaluated_by_vm_compute_too": len(vm_idx), "differences": len(diff)}
            if diff and broken is None:
                broken = {"kind": "correspondence", "detail": {"error": "extracted model and vm_compute disagree", "case": lines[diff[0]],
                                                               "vm_compute": vrows[vm_idx.index(diff[0])], "extracted": mrows[diff[0]]}}
    bg.shutdown(wait=False)
    phase("model_eval_wait")
    prop_bad, corr_bad, known_hits = [], [], {}
    obs_total = 0
    for i, c in enumerate(cases):
        key = (tuple(c["a"]), tuple(c["b"]), c["from"], c["p1"], c["p2"], c["byte"])
        run.count(key)
        got = by_id.get(str(i))
        if got is None:
            prop_bad.append((c, [{"what": "no output from the harness for this case (crash?)", "detail": "", "class": None}]))
            continue
        fields, markers, panic = got
        obs_total += len(fields)
        p, cr, kn = compare_case(c, fields, markers, panic, mrows[i] if mrows else None, arms)
        for k in kn:
            known_hits[k] = known_hits.get(k, 0) + 1
        if p:
            prop_bad.append((c, p))
        if cr:
            corr_bad.append((c, cr))
        if i in (0, len(cases) // 3, 2 * len(cases) // 3) or (c["stream"] == "rand" and len(run.cov["samples"]) < 5):
            run.sample({"case": lines[i], "stream": c["stream"], "impl_fields": len(fields),
                        "ctors": fields.get("ctors", "")[:120], "eq@LU": fields.get("eq@LU"), "cmp@UU": fields.get("cmp@UU"), "idx@UL": fields.get("idx@UL"), "hash@U": fields.get("hash@U")})
    run.cov["compared_fields"] = obs_total
    run.cov["known_class_hits_in_correspondence"] = known_hits

    phase("compare")
    # 5. search on the implementation alone
    skip = "1" if "old" in arms.values() else "0"
    enlarged = (not run.quick) or broken is not None or bool(corr_bad)
    jobs = []
    nsweep = 16 if run.quick else 32
    per = 500 if not enlarged else 5000
    for k in range(nsweep):
        # sweeps run the binary operations on (every constructor of A) x (12 representative constructors of B); `full` = every pair
        jobs.append("sweep %d %d %d %s%s" % ((run.seed * 1000 + k) & 0x7fffffff, per if k % 4 else per // 6, [8, 16, 24, 64][k % 4], skip,
                                            " full" if enlarged and k % 4 == 1 else ""))
    parts = 16
    stride = run.rng.randrange(1, 4)
    for part in range(parts):
        jobs.append("exh 2 1 %d %d %d %d %s%s" % (part, parts, run.seed & 0xffff, 1 if enlarged else 6, skip, " full" if enlarged else ""))
        jobs.append("exh 1 2 %d %d %d %d %s%s" % (part, parts, run.seed & 0xffff, 1 if enlarged else 6, skip, " full" if enlarged else ""))
        if enlarged:
            jobs.append("exh 3 1 %d %d %d %d %s" % (part, parts, run.seed & 0xffff, 1, skip))
            jobs.append("exh 2 2 %d %d %d %d %s" % (part, parts, run.seed & 0xffff, 4, skip))
            jobs.append("exh 1 3 %d %d %d %d %s" % (part, parts, run.seed & 0xffff, 4, skip))
            jobs.append("exh 3 2 %d %d %d %d %s" % (part, parts, run.seed & 0xffff, 96, skip))
        else:
            jobs.append("exh 2 2 %d %d %d %d %s" % (part, parts, run.seed & 0xffff, 80, skip))
            jobs.append("exh 3 1 %d %d %d %d %s" % (part, parts, run.seed & 0xffff, 80, skip))
    # every one-unit string (all 2^16 code units) in every representation: the two whitespace predicates, code points, == str
    for lo in range(0, 0x10000, 0x1000):
        jobs.append("units1 %d %d %s" % (lo, lo + 0x1000, skip))
    found = []
    sweep_cases = sweep_obs = sweep_known = units1_done = 0
    with ThreadPoolExecutor(max_workers=vlib.NCPU) as ex:
        for j, (o, rc) in zip(jobs, ex.map(lambda jb: run_lines(binpath, [jb]), jobs)):
            line = o[0] if o else ""
            m = re.match(r"ok (\d+) (\d+) (\d+)", line)
            if m:
                if j.startswith("units1"):
                    units1_done += int(m.group(1))
                sweep_cases += int(m.group(1))
                sweep_obs += int(m.group(2))
                sweep_known += int(m.group(3))
                run._distinct.add(("job", j))
            elif line == "unknown-command" and os.environ.get("VERIF_C11_BIN"):
                run.notes.append({"skipped_job_override_binary_is_older_than_the_check": j})
            else:
                found.append((j, line or "exit %d" % rc))
    run.cov["evaluations"] += sweep_cases
    run.cov["search"] = {"jobs": len(jobs), "cases": sweep_cases, "one_unit_strings_checked": units1_done, "one_unit_strings_exhaustive": units1_done == 0x10000, "observations_checked_against_native_oracle": sweep_obs,
                         "known_class_deviations_skipped": sweep_known, "enlarged": enlarged}
    phase("search_sweeps")
    # JS-level observers
    js_lines = ["js %s %s" % (cid, src) for cid, src, _, _ in JS_CASES]
    jout = run_parallel(binpath, js_lines, min(vlib.NCPU, 8))
    jres = dict(l.split("\t", 1) for l in jout if "\t" in l)
    js_bad = []
    for cid, src, want, cls in JS_CASES:
        got = jres.get(cid, "<missing>")
        run.count(("js", cid))
        if got != want:
            c = cls if (cls is not None and got.startswith("V:") and arms["L" if cls == CLASS_L else "U"] == "old") else None
            js_bad.append({"id": cid, "source": src, "expected": want, "got": got, "class": c})
    run.cov["js_observers"] = {"cases": len(JS_CASES), "failing": [j["id"] for j in js_bad]}
    run.cov["programs"] = len(JS_CASES)
    phase("js_observers")

    # verdicts
    for c, p in prop_bad[:6]:
        run.violation(replay_obj(c, kind="counterexample", **{"class": p[0]["class"]}, failures=p[:8],
                                 obligation="all constructors of the same code units give the same result as the plain code-unit operation"))
    for j, line in found[:6]:
        c, what = parse_mismatch(line)
        if c is None:
            run.violation({"kind": "counterexample", "class": None, "input": j, "impl_output": line,
                           "how_to_rerun": "echo '%s' | harness/target/debug/strops" % j})
        else:
            run.violation(replay_obj(c, kind="counterexample", **{"class": None}, failures=what, found_by=j,
                                     obligation="all constructors of the same code units give the same result as the plain code-unit operation"))
    seen_cls = set()
    js_report = []
    for jb in js_bad:
        if jb["class"] is not None:
            if jb["class"] in seen_cls:
                continue                   # one script-level replay per known class; the others are listed in the evidence
            seen_cls.add(jb["class"])
        js_report.append(jb)
    for jb in js_report[:8]:
        run.violation({"kind": "counterexample", "class": jb["class"], "input": "js %s %s" % (jb["id"], jb["source"]), "expected": jb["expected"],
                       "impl_output": jb["got"], "obligation": "script-visible behaviour must follow the code units (argument keyword matching / keys / order)",
                       "fix": "fixes.d/C11-eq-str.patch" if jb["class"] else None,
                       "how_to_rerun": "echo 'js %s %s' | harness/target/debug/strops" % (jb["id"], jb["source"])})
    have_input = bool(prop_bad or found or js_bad)
    for c, cr in corr_bad[:5]:
        run.violation(replay_obj(c, kind="correspondence-broken", **{"class": None}, mismatches=cr[:10],
                                 obligation="coq/C11/Model_C11.v (vm_compute) vs boa_string public API (harness strops)",
                                 search="enlarged sweeps: %d cases, %d observations" % (sweep_cases, sweep_obs)),
                      found_input=have_input)
    if broken is not None and not have_input and not corr_bad:
        run.violation({"kind": "proof-broken" if broken.get("kind") != "correspondence" else "correspondence-broken",
                       "obligation": "C11/Props_C11.v", "detail": broken,
                       "search": "enlarged sweeps (%d cases) and JS observers found no failing input" % sweep_cases}, found_input=False)
    elif broken is not None:
        run.notes.append({"proof_broken": broken})
    run.assumptions = TRUSTED
    return run.finish()


def replay(obj):
    """Re-run the input of a replay file on the current /repo and judge it again with the property's oracle.
    Exit code 1 = the failure reproduces, 0 = it does not (fixed)."""
    binpath = os.environ.get("VERIF_C11_BIN")
    if not binpath:
        ok, paths, blog = vlib.harness_build(["strops"])
        if not ok:
            vlib.infra_error(PROP, "harness build failed: " + blog[-400:])
        binpath = paths["strops"]
    inp = obj.get("input", "")
    out, rc = run_lines(binpath, [inp])
    for l in out:
        print(l.replace("\t", "\n  "))
    bad = []
    if inp.startswith("js "):
        got = out[0].split("\t", 1)[1] if out and "\t" in out[0] else "<missing>"
        if "expected" in obj and got != obj["expected"]:
            bad.append("script result %s, expected %s" % (got, obj["expected"]))
    elif inp.startswith("case "):
        if not out:
            bad.append("no output (crash, exit %d)" % rc)
        else:
            cid, fields, markers, panic = parse_case_output(out[0])
            c = {k: obj[k] for k in ("a", "b", "from", "p1", "p2", "byte") if k in obj}
            if len(c) == 6:
                p, _, _ = compare_case(c, fields, markers, panic, None, {"L": "new", "U": "new"})
                bad += ["%s: %s" % (x["what"], x["detail"]) for x in p]
            elif markers or panic:
                bad += markers + ([panic] if panic else [])
    else:
        if out and not out[0].startswith("ok "):
            bad.append(out[0])
    if bad:
        print("REPRODUCED (%d failing observation(s)):" % len(bad))
        for b in bad[:12]:
            print("  " + b)
        return 1
    print("NOT REPRODUCED: every constructor agrees with the plain code-unit oracle on this input")
    return 0
