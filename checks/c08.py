"""C08 — runtime limits stop runaway scripts and cannot be intercepted.

Proof: coq/C08/Props_C08.v (certified CFG check `counters_cut_cycles`, abstract VM with loop counter,
check_runtime_limits, the uncatchable branch of handle_error).
Tie 1 (CFG): the extracted `counters_cut_cycles` runs on the CFG of every code block dumped by
  CodeBlock::verif_dump() for programs built from every loop form; rank from an untrusted topological sort.
Tie 2 (counter semantics): the extracted VM model, run on the abstract code of each loop form, predicts for a
  trip count n and a limit L whether RuntimeLimitError is raised and how many bodies run; compared with boa.
Tie 3 (routes): table of re-entry routes x limit kind, each wrapped in try/catch/finally at every level: host must
  see RuntimeLimitError, no caught/finally line, bounded body count.
Search: limit grid x generated terminating programs: a limited run is a prefix of the unlimited run and ends with
  RuntimeLimitError, or is identical to it; monotone in the limit.
"""
import json
import os
import re
import subprocess
import sys
from collections import Counter
from concurrent.futures import ThreadPoolExecutor

import vlib
from vlib import Run, log

import c08_cfg as CFG
import c08_progs as PROGS
import c08_routes as ROUTES

PROP = "C08"
TRUSTED = [
    "Coq 8.16.1 kernel + vm_compute (no native_compute); extraction with ExtrOcamlBasic only, OCaml 4.13 (ocaml/C08/c08_driver.ml reader/printer)",
    "stack_stage: the number of arguments each native passes to its callback (STACK_ARGC) and the native-constructor check of `new Proxy` (STACK_PRE) are read off the builtins by hand",
    "gen/c08_cfg.py: reader of CodeBlock::verif_dump() and the successor rule (fall-through unless Jump/Return/Throw/ReThrow/ThrowNew*, every Address operand, "
    "every handler whose range meets [pc,next]) - over-approximating: extra edges can only make the certified check reject",
    "cut kinds beyond IncrementLoopIteration are assumptions, reported per block: 'suspend' (GeneratorYield/AsyncGeneratorYield/Await return control to the "
    "resumer: needed only by yield* delegation loops) and 'iterpop' (IteratorReturn pops one entry of the frame's finite iterator stack: needed only by the "
    "close-all-iterators loop of generator return)",
    "Model_C08.v is a hand transliteration of run/handle_error/handle_throw/handle_return/handle_exception_at/check_runtime_limits (vm/mod.rs), "
    "IncrementLoopIteration (loop_ops.rs), function_call/native_function_call limit checks, JsObject::call (exit_early, host_call_depth); data is abstracted "
    "by a choice oracle; generators/async resumption, the dummy frame and the value pushed by a return are not modelled",
    "native builtins propagate an engine error with `?` (hypothesis prog_propagates of uncatchable_unwinds): code, not model - checked per route by the route table only",
    "harness/src/bin/js.rs (print host function, catch_unwind, RuntimeLimitError classification by message), Python driver and generators",
]

KNOWN_SYMPTOMS = ("panic", "swallowed", "caught", "finally-ran", "wrong-completion", "overrun", "hang", "not-prefix", "not-monotone")


# ----------------------------------------------------------------------------------------------
# running the js harness

def esc(s):
    out = []
    for ch in s:
        o = ord(ch)
        if ch == "\\":
            out.append("\\\\")
        elif ch == "\n":
            out.append("\\n")
        elif ch == "\r":
            out.append("\\r")
        elif ch == "\t":
            out.append("\\t")
        elif o < 0x20 or o > 0x7e:
            if o > 0xffff:
                o -= 0x10000
                out.append("\\u%04x\\u%04x" % (0xd800 + (o >> 10), 0xdc00 + (o & 0x3ff)))
            else:
                out.append("\\u%04x" % o)
        else:
            out.append(ch)
    return "".join(out)


def js_batch(binpath, cfg, progs, timeout):
    """Returns list (same length as progs) of (status, trace list, completion) or None (no result: timeout/crash)."""
    inp = "cfg " + cfg + "\n" + "".join("run %d %s\n" % (i, esc(p)) for i, p in enumerate(progs))
    try:
        p = subprocess.run(["nice", "-n", "5", binpath], input=inp, stdout=subprocess.PIPE, stderr=subprocess.PIPE, text=True, timeout=timeout)
        out = p.stdout
    except subprocess.TimeoutExpired as ex:
        out = ex.stdout.decode("utf8", "replace") if isinstance(ex.stdout, bytes) else (ex.stdout or "")
    res = [None] * len(progs)
    for l in out.split("\n"):
        f = l.split("\t")
        if len(f) != 4:
            continue
        try:
            res[int(f[0])] = (f[1], json.loads(f[2]), f[3])
        except (ValueError, IndexError):
            pass
    return res


def js_many(binpath, jobs, chunk=10, timeout=240, workers=None):
    """jobs: list of (cfg, prog).  Returns list of results (None = no result even when run alone)."""
    bycfg = {}
    for k, (cfg, prog) in enumerate(jobs):
        bycfg.setdefault(cfg, []).append(k)
    tasks = []
    for cfg, ks in bycfg.items():
        for i in range(0, len(ks), chunk):
            tasks.append((cfg, ks[i:i + chunk]))
    out = [None] * len(jobs)

    def one(t):
        cfg, ks = t
        r = js_batch(binpath, cfg, [jobs[k][1] for k in ks], timeout)
        # programs without a result: run alone (a crash or a hang of an earlier program hides the later ones)
        for j, k in enumerate(ks):
            if r[j] is None:
                rr = js_batch(binpath, cfg, [jobs[k][1]], timeout)
                r[j] = rr[0]
        return ks, r
    with ThreadPoolExecutor(max_workers=workers or min(8, vlib.NCPU)) as ex:
        for ks, r in ex.map(one, tasks):
            for k, x in zip(ks, r):
                out[k] = x
    return out


def model_lines(binpath, lines, timeout=600):
    p = subprocess.run([binpath], input="\n".join(lines) + "\n", stdout=subprocess.PIPE, stderr=subprocess.PIPE, text=True, timeout=timeout)
    res = {}
    for l in p.stdout.split("\n"):
        f = l.split(" ")
        if len(f) >= 2:
            res[f[0]] = f[1:]
    return res


# ----------------------------------------------------------------------------------------------
# classification of a failing case (stable labels computed from the case itself)

def multi_label_continue(prog):
    """`a: b: loop` with a `continue` to a label of the set other than the innermost one."""
    for m in re.finditer(r"((?:\b\w+:\s*){2,})(?:do|while|for)\b", prog):
        labels = re.findall(r"(\w+):", m.group(1))
        for lab in labels[:-1]:
            if re.search(r"\bcontinue\s+%s\b" % re.escape(lab), prog):
                return True
    return False


def classify(symptom, prog, completion, origin):
    if re.search(r'var c = "[^"]*\beval\(c\)', prog) and symptom in ("swallowed", "overrun", "wrong-completion"):
        return "direct-eval-not-depth-limited"
    if multi_label_continue(prog) and symptom in ("overrun", "swallowed", "finally-ran", "cfg-cycle", "form-mismatch", "hang", "wrong-completion"):
        return "multi-label-continue-skips-counter"
    if symptom == "panic" and "is_throw_completion" in completion:
        return "async-generator-limit-panic"
    if symptom == "misreported-as-engine-panic":
        return "limit-misreported-as-engine-panic"
    if symptom in ("swallowed", "not-prefix", "wrong-completion") and re.search(r"\bawait\b", prog):
        return "limit-swallowed-after-await"
    return "%s:%s" % (origin, symptom)


def limit_of(completion):
    """('eval'|'jobs'|None, kind)"""
    m = re.match(r"L:(\w+)", completion)
    if m:
        return "eval", m.group(1)
    m = re.search(r"jobs:L:(\w+)", completion)
    if m:
        return "jobs", m.group(1)
    return None, None


# ----------------------------------------------------------------------------------------------
# tie 1: CFG check on dumps

def cfg_stage(run, jsbin, modelbin, programs, findings):
    """programs: list of (label, text).  Runs the certified check on every dumped block."""
    res = js_many(jsbin, [("dump=1 fresh=0", t) for _, t in programs], chunk=25)
    lines, meta = [], {}
    stats = Counter()
    for (label, text), r in zip(programs, res):
        if r is None or r[0] != "ok":
            stats["dump_failed"] += 1
            continue
        if r[2].startswith("E:") or r[2].startswith("T:"):
            stats["dump_rejected_program"] += 1
            continue
        blocks = CFG.parse_dump(r[1])
        for b in blocks:
            if not b.ins:
                continue
            full, probs = CFG.build_cfg(b)
            conly, _ = CFG.build_cfg(b, ("counter",))
            ranks, cyc = CFG.ranking(full)
            cid = "b%d" % len(meta)
            meta[cid] = (label, text, b, full, cyc, probs, "full")
            lines.append("C %s %s" % (cid, CFG.wire(full, ranks)))
            ranks2, cyc2 = CFG.ranking(conly)
            cid2 = cid + "c"
            meta[cid2] = (label, text, b, conly, cyc2, probs, "counter-only")
            lines.append("C %s %s" % (cid2, CFG.wire(conly, ranks2)))
            # mutants: drop one counter at a time (counter-only graphs that pass): the check must reject
            if cyc2 is None:
                counters = [i for i, nd in enumerate(conly) if nd["kind"] == "counter"]
                for ci in counters[:4]:
                    mut = [dict(nd) for nd in conly]
                    mut[ci]["cut"] = False
                    mr, mc = CFG.ranking(mut)
                    mid = "%sm%d" % (cid, ci)
                    meta[mid] = (label, text, b, mut, mc, probs, "mutant")
                    lines.append("C %s %s" % (mid, CFG.wire(mut, mr)))
    out = model_lines(modelbin, lines) if lines else {}
    needs = Counter()
    for cid, (label, text, b, nodes, cyc, probs, mode) in meta.items():
        verdict = out.get(cid, ["missing"])[0]
        key = ("cfg", mode, tuple((nd["name"], tuple(s - i for s in nd["succ"]), nd["cut"]) for i, nd in enumerate(nodes)))
        run.count(key)
        stats["cfg_checks_" + mode] += 1
        if probs:
            stats["cfg_reader_problems"] += 1
        if mode == "full":
            stats["blocks"] += 1
            stats["instructions"] += len(nodes)
            stats["counters"] += sum(1 for nd in nodes if nd["kind"] == "counter")
            if verdict != "1" or probs:
                names = sorted(set(nodes[i]["name"] for i in (cyc or [])))
                cls = classify("cfg-cycle", text, "", "cfg")
                if cls == "cfg:cfg-cycle":
                    cls = "cfg-cycle-without-counter:" + "+".join(names)[:120]
                findings.append({"kind": "correspondence-broken" if not multi_label_continue(text) else "counterexample", "class": cls,
                                 "obligation": "counters_cut_cycles (extracted) accepts the CFG of every dumped block (cut = IncrementLoopIteration, suspension points, IteratorReturn)",
                                 "input": text, "block": b.name, "verdict": verdict, "reader_problems": probs[:3],
                                 "cycle": [(nodes[i]["pc"], nodes[i]["name"]) for i in (cyc or [])][:40]})
        elif mode == "counter-only":
            if verdict != "1":
                kinds = sorted(set(nodes[i]["name"] for i in (cyc or []) if nodes[i]["name"] in CFG.SUSPEND or nodes[i]["name"] in CFG.ITERPOP))
                needs["+".join(kinds) or "unexplained"] += 1
                stats["blocks_needing_extra_cut_kinds"] += 1
            else:
                stats["blocks_ok_counter_only"] += 1
        else:
            stats["mutants"] += 1
            if verdict == "0":
                stats["mutants_rejected"] += 1
            else:
                stats["mutants_accepted"] += 1     # the dropped counter was not the only cut on its cycles (nested loop heads, unreachable back edge)
    run.cov["cfg"] = dict(stats)
    run.cov["cfg"]["extra_cut_kinds_needed_by"] = dict(needs)
    if meta:
        first = next(iter(meta.values()))
        run.sample({"cfg_case": {"program": first[1][:160], "block": first[2].name, "nodes": len(first[3]),
                                 "wire_prefix": CFG.wire(first[3], CFG.ranking(first[3])[0])[:160]}})
    if needs.get("unexplained"):
        run.notes.append({"counter_only_rejections_without_suspend_or_iterpop_on_cycle": needs["unexplained"]})
    return stats


# ----------------------------------------------------------------------------------------------
# tie 2: counter semantics, extracted VM model vs boa

# abstract code of each loop form, in the order compile_*_loop emits it (statement/loop.rs); b = body pc
FORMS = {
    # name: (js template with {N}, abstract instrs, pc of the loop test, pc of the body)
    "while": ("var i = 0; while (i < {N}) { print('b'); i++; }",
              ["c", "o0:2.4", "o0:3", "o0:0", "r"], 1, 2),
    "do": ("var i = 0; do { print('b'); i++; } while (i < {N});",
           ["o0:3", "c", "o0:3.5", "o0:4", "o0:1", "r"], 2, 3),
    "for": ("for (var i = 0; i < {N}; i++) { print('b'); }",
            ["o0:1", "o0:4", "c", "o0:4", "o0:5.7", "o0:6", "o0:2", "r"], 4, 5),
    "for-of": ("for (var x of Array({N}).fill(0)) { print('b'); }",
               ["o1:1", "c", "o1:3", "o0:4.6", "o0:5", "o0:1", "r"], 3, 4),
    "for-in": ("for (var x in {OBJ}) { print('b'); }",
               None, None, None),
}


# variants of the loop forms with the same lowering order (a `continue` is a jump to the form's continue target: the loop
# head for while/for-of/for-in, the counter in front of the condition for do-while, the counter in front of the update for
# `for`), so the model's prediction is that of the base form.  {V} = safety valve for variants boa may fail to stop.
FORM_VARIANTS = [
    ("while+continue", "while", "var i = 0; while (i < {N}) { print('b'); i++; continue; }"),
    ("do+continue", "do", "var i = 0; do { print('b'); i++; continue; } while (i < {N});"),
    ("do+continue-own-label", "do", "var i = 0; d: do { print('b'); i++; continue d; } while (i < {N});"),
    ("do+continue-finally", "do", "var i = 0; do { try { print('b'); i++; continue; } finally { } } while (i < {N});"),
    ("do+continue-from-nested", "do", "var i = 0; o: do { print('b'); i++; do { continue o; } while (false); } while (i < {N});"),
    ("for+continue", "for", "for (var i = 0; i < {N}; i++) { print('b'); continue; }"),
    ("for+continue-finally", "for", "for (var i = 0; i < {N}; i++) { try { print('b'); continue; } finally { } }"),
    ("for-of+continue", "for-of", "for (var x of Array({N}).fill(0)) { print('b'); continue; }"),
    ("for-in+continue", "for-in", "for (var x in {OBJ}) { print('b'); continue; }"),
    ("do+2-labels+continue-outer", "do", "var i = 0, v = 0; a: b: do { print('b'); i++; if (++v > 300) break; continue a; } while (i < {N});"),
    ("for+2-labels+continue-outer", "for", "var v = 0; a: b: for (var i = 0; i < {N}; i++) { print('b'); if (++v > 300) break; continue a; }"),
    ("while+3-labels+continue-middle", "while", "var i = 0; a: b: c: while (i < {N}) { print('b'); i++; continue b; }"),
]


def form_choices(instrs, test_pc, n, cap=5000):
    """Walk the abstract code with 'continue n times then exit' at the loop test; returns the choice list."""
    pc, left, chs = 0, n, []
    first_do = True
    while len(chs) < cap:
        ins = instrs[pc]
        if ins == "r":
            chs.append(1)
            break
        if ins == "c":
            chs.append(1)
            pc += 1
            continue
        succ = [int(x) for x in ins.split(":")[1].split(".")]
        if pc == test_pc:
            if left > 0:
                left -= 1
                chs.append(2)      # index 0 (2 mod 2): stay in the loop
                pc = succ[0]
            else:
                chs.append(1)      # index 1: leave
                pc = succ[1]
        else:
            chs.append(len(succ))  # index 0, and never 0 (0 = throw for throwing instructions)
            pc = succ[0]
    return chs


def forms_stage(run, jsbin, modelbin, findings):
    Ls = [0, 1, 2, 7] if run.quick else [0, 1, 2, 3, 7, 20, 100]
    jobs, meta, mlines = [], [], []
    allforms = [(name, name, v[0]) for name, v in FORMS.items()] + [(vn, base, tpl) for vn, base, tpl in FORM_VARIANTS]
    for name, base, tpl in allforms:
        for L in (Ls if name == base else (Ls[1:3] if run.quick else Ls[:4])):
            ns = [0, 1, max(L - 1, 0), L, L + 1, L + 2, L + 3, L + 5] if name == base else [max(L, 1), L + 1, L + 2, L + 4]
            for n in sorted(set(ns)):
                text = tpl.replace("{N}", str(n)).replace("{OBJ}", "{" + ",".join("k%d:1" % j for j in range(n)) + "}")
                jobs.append(("loop=%d" % L, text))
                meta.append((name, base, L, n, text))
    res = js_many(jsbin, jobs, chunk=12)
    # for-in has the for-of lowering shape for the counter (counter, next, done?, value, body, jump)
    for k, (name, base, L, n, text) in enumerate(meta):
        instrs, test_pc, body_pc = FORMS[base][1:]
        if instrs is None:
            instrs, test_pc, body_pc = FORMS["for-of"][1:]
        # do-while runs the body once before the first test: n bodies = n-1 positive tests (n >= 1; n = 0 behaves as 1)
        trips = n
        if base == "do":
            trips = max(n - 1, 0)
        chs = form_choices(instrs, test_pc, trips)
        mlines.append("V f%d %d 512 10240 0 1 4;;%s %s" % (k, L, ",".join(instrs), ",".join(str(c) for c in chs)))
    mout = model_lines(modelbin, mlines)
    agree = 0
    for k, ((name, base, L, n, text), r) in enumerate(zip(meta, res)):
        mo = mout.get("f%d" % k)
        if r is None or mo is None:
            run.cov["discarded"] = run.cov.get("discarded", 0) + 1
            continue
        body_pc = FORMS[base][3] if FORMS[base][3] is not None else FORMS["for-of"][3]
        mcomp = mo[0]
        mbodies = sum(1 for t in mo[1:] if t == "x1.0.%d" % body_pc)
        icomp = "L:LoopIteration" if r[2].startswith("L:LoopIteration") else ("R" if r[2].startswith("V:") else r[2])
        ibodies = sum(1 for t in r[1] if t == "b")
        run.count(("form", name, L, n))
        if k % 37 == 0:
            run.sample({"form_case": {"form": name, "L": L, "n": n, "model": [mcomp, mbodies], "impl": [icomp, ibodies]}})
        if (mcomp, mbodies) == (icomp, ibodies) and r[0] == "ok":
            agree += 1
        else:
            cls = classify("form-mismatch", text, r[2], "form")
            findings.append({"kind": "correspondence-broken" if cls == "form:form-mismatch" else "counterexample",
                             "class": ("loop-counter-semantics:" + name) if cls == "form:form-mismatch" else cls,
                             "obligation": "Model_C08.step/ICounter (error iff previous count > max) on the lowering order of compile_%s_loop vs boa" % name.replace("-", "_"),
                             "input": text, "cfg": "loop=%d" % L, "model_output": [mcomp, mbodies], "impl_output": [r[0], icomp, ibodies]})
    run.cov["loop_form_cases"] = len(meta)
    run.cov["loop_form_agree"] = agree


# ----------------------------------------------------------------------------------------------
# tie 2b: recursion-depth accounting (frames - 1 + host_call_depth), extracted VM model vs boa

# route -> abstract program "main/T/aux": code 0 = script, code 1 = T (print; re-enter T through the route; return),
# code 2 = the function the native calls (getter, callback, trap), which calls T.
#   k = same run loop (function_call: one frame), h = native re-entry through JsObject::call (one frame + host_call_depth)
DEPTH_ROUTES = {
    "call": "k",
    "call-method": "k",
    "new": "k",
    "bind": "k",
    "tagged-template": "k",
    "optional-call": "k",
    "apply": "h",
    "call-call": "h",
    "cb-Reflect.apply": "h",
    "coerce-valueOf": "h",
    "coerce-toString": "h",
    "getter": "hk",
    "setter": "hk",
    "proxy-get": "hk",
    "proxy-has": "hk",
    "cb-forEach": "hk",
    "cb-map": "hk",
    "cb-sort": "hk",
    "cb-replace-string": "hk",
    "iterator-for-of": "hk",
    "cb-Reflect.get-getter": "hk",
    "bound-chain": "k",
    "Function.prototype.call.call": "h",
    "call-apply-chain": "h",
    # direct eval of a string calling T: CallEval pushes the eval frame itself (no check of its own, no host_call_depth);
    # modelled as a plain frame push - its check has the same (frames, host) as the print in front of it
    "eval-direct": "kk",
}


def depth_stage(run, jsbin, modelbin, findings):
    Rs = [2, 3, 7, 16] if run.quick else [1, 2, 3, 4, 5, 7, 10, 16, 31]
    tpl = {name: t for name, t, _ in ROUTES.ROUTES}
    jobs, meta, mlines = [], [], []
    for name, shape in DEPTH_ROUTES.items():
        for R in Rs:
            jobs.append(("rec=%d stack=100000" % R, ROUTES.wrap_rec(tpl[name])))
            meta.append((name, shape, R))
            t_code = {"k": "1;;o0:1,k1.0,r", "h": "1;;o0:1,h1.0.p,r", "hk": "1;;o0:1,h2.0.p,r", "kk": "1;;o0:1,k2.0,r"}[shape]
            codes = "1;;k1.0,r/%s/1;;k1.0,r" % t_code
            mlines.append("V d%d 100000 %d 50000 0 1 %s %s" % (len(meta) - 1, R, codes, ",".join(["1"] * (6 * R + 12))))
    res = js_many(jsbin, jobs, chunk=10)
    mout = model_lines(modelbin, mlines)
    agree = 0
    for k, ((name, shape, R), r) in enumerate(zip(meta, res)):
        mo = mout.get("d%d" % k)
        if r is None or mo is None or r[0] != "ok":
            run.cov["discarded"] = run.cov.get("discarded", 0) + 1
            continue
        toks = mo[1:]
        mb = sum(1 for t in toks if re.match(r"x\d+\.1\.1$", t))
        if "lRecursion" in toks:
            i = toks.index("lRecursion")
            if i > 0 and re.match(r"x\d+\.1\.1$", toks[i - 1]):
                mb -= 1
        mcomp = mo[0]
        icomp = "L:Recursion" if r[2].startswith("L:Recursion") else r[2]
        ib = sum(1 for t in r[1] if t == "b")
        run.count(("depth", name, R))
        if k % 23 == 0:
            run.sample({"depth_case": {"route": name, "R": R, "model": [mcomp, mb], "impl": [icomp, ib]}})
        if (mcomp, mb) == (icomp, ib):
            agree += 1
        else:
            findings.append({"kind": "correspondence-broken", "class": "recursion-depth-accounting:" + name,
                             "obligation": "Model_C08.check_limits (limit <= frames + host_call_depth at function_call/native_function_call, host_call_depth += 1 per JsObject::call) vs boa",
                             "input": jobs[k][1], "cfg": jobs[k][0], "model_output": [mcomp, mb], "impl_output": [r[0], icomp, ib]})
    run.cov["depth_cases"] = len(meta)
    run.cov["depth_agree"] = agree


# ----------------------------------------------------------------------------------------------
# chains that reach depth without an ordinary function call on the way down

def chain_stage(run, jsbin, modelbin, findings):
    """(a) k delegating generators resumed by one next(): every level is `next` (native: check_runtime_limits) followed by
    GeneratorContext::resume (frame push, no check of its own, no host_call_depth) = the model's ICall; the model predicts for
    every R whether the leaf is reached.  (b) pure direct-eval recursion: the property asks for Recursion once the depth
    passes R."""
    jobs, meta, mlines = [], [], []
    Ks = [3] if run.quick else [2, 3, 6, 12]
    for K in Ks:
        for form in ("yield*", "for-of"):
            for R in range(max(K - 1, 1), K + 6):
                jobs.append(("rec=%d stack=100000" % R, ROUTES.generator_chain(K, form)))
                meta.append(("gen", K, form, R))
                # the leaf's print is a native call with its own check: modelled as a re-entry into an empty function
                codes = "/".join(["1;;k1.0,r"] + ["1;;k%d.0,r" % (i + 2) for i in range(K)] + ["1;;h%d.0.p,r" % (K + 2), "0;;r"])
                mlines.append("V g%d 100000 %d 100000 0 1 %s %s" % (len(meta) - 1, R, codes, ",".join(["1"] * (4 * K + 12))))
    for R in ([8] if run.quick else [4, 8, 32]):
        jobs.append(("rec=%d stack=100000" % R, ROUTES.direct_eval_chain(3 * R)))
        meta.append(("eval", 3 * R, "direct", R))
    res = js_many(jsbin, jobs, chunk=10)
    mout = model_lines(modelbin, mlines) if mlines else {}
    agree = 0
    for k, ((cfg, prog), (kind, K, form, R), r) in enumerate(zip(jobs, meta, res)):
        if r is None or r[0] != "ok":
            run.cov["discarded"] = run.cov.get("discarded", 0) + 1
            continue
        run.count(("chain", kind, K, form, R))
        if kind == "gen":
            mo = mout.get("g%d" % k)
            if mo is None:
                continue
            mleaf = any(t == "x%d.%d.0" % (K + 3, K + 2) for t in mo[1:])
            mcomp = "L:Recursion" if mo[0] == "L:Recursion" else "R"
            ileaf = "leaf" in r[1]
            icomp = "L:Recursion" if r[2].startswith("L:Recursion") else ("R" if r[2].startswith("V:") else r[2])
            if (mcomp, mleaf) == (icomp, ileaf):
                agree += 1
            else:
                findings.append({"kind": "correspondence-broken", "class": "recursion-depth-accounting:generator-chain-" + form,
                                 "obligation": "generator resumption = native check (next) + frame push without host_call_depth, i.e. the model's ICall", "input": prog,
                                 "cfg": cfg, "model_output": [mcomp, mleaf], "impl_output": [r[0], icomp, ileaf]})
        else:
            if not r[2].startswith("L:Recursion"):
                findings.append({"kind": "counterexample", "class": "direct-eval-not-depth-limited", "symptom": "overrun", "input": prog, "cfg": cfg,
                                 "impl_output": {"status": r[0], "trace": r[1][-2:], "completion": r[2]},
                                 "expected": "RuntimeLimitError (Recursion): %d nested eval frames under recursion limit %d (the indirect form (0,eval)(c) is stopped)" % (K + 1, R)})
    run.cov["chain_cases"] = len(meta)
    run.cov["generator_chain_agree"] = agree


# ----------------------------------------------------------------------------------------------
# tie 2c: stack-size accounting (stack.len() at every check point), extracted VM model vs boa

# route -> number of arguments the native passes to the function it calls (JsObject::call pushes this, func, args)
STACK_ARGC = {"call": 0, "call-method": 0, "optional-call": 0, "apply": 0, "call-call": 0, "cb-Reflect.apply": 0, "coerce-valueOf": 0,
              "coerce-toString": 0, "getter": 0, "setter": 1, "proxy-get": 3, "proxy-has": 2, "cb-forEach": 3, "cb-map": 3, "cb-sort": 2,
              "cb-replace-string": 3, "iterator-for-of": 0}


# routes whose expression first runs a native constructor inside T (`new Proxy(target, handler)`): native_function_construct checks the
# limits with this, func, the arguments and new.target still on the stack (2 + 3); modelled as a re-entry into an empty function
STACK_PRE = {"proxy-get": 3, "proxy-has": 3}


def stack_stage(run, jsbin, modelbin, findings):
    """For each route and stack limit S the model (register counts read from the dump of the very program, this/func/args per
    frame) predicts, for every recursion limit R, which of Recursion / StackSize fires first; boa is run for the R values
    around the model's switch-over point and must give the same kind."""
    tpl = {name: t for name, t, _ in ROUTES.ROUTES}
    names = list(STACK_ARGC)
    if run.quick:
        names = [n for n in names if run.rng.random() < 0.45] or names[:3]
    progs = {n: ROUTES.wrap_rec(tpl[n]) for n in names}
    dumps = js_many(jsbin, [("dump=1 fresh=0", progs[n]) for n in names], chunk=20)
    mlines, plan = [], []
    for n, d in zip(names, dumps):
        if d is None or d[0] != "ok":
            continue
        blocks = CFG.parse_dump(d[1])
        main = blocks[0]
        tb = [b for b in blocks if b.name == "T"]
        if not tb:
            continue
        aux = [b for b in blocks if b is not main and b.name != "T" and "T" in b.bindings]
        shape = DEPTH_ROUTES[n]
        if shape == "hk" and len(aux) != 1:
            run.cov["discarded"] = run.cov.get("discarded", 0) + 1
            continue
        regs = (int(main.header["regs"]), int(tb[0].header["regs"]), int(aux[0].header["regs"]) if aux else 0)
        argc = STACK_ARGC[n]
        pre = "h3.%d.p," % STACK_PRE[n] if n in STACK_PRE else ""
        t_code = {"k": "%d;;o0:1,%sk1.%d,r" % (regs[1], pre, argc), "h": "%d;;o0:1,%sh1.%d.p,r" % (regs[1], pre, argc),
                  "hk": "%d;;o0:1,%sh2.%d.p,r" % (regs[1], pre, argc)}[shape]
        codes = "%d;;k1.0,r/%s/%d;;k1.0,r/0;;r" % (regs[0], t_code, regs[2])
        for S in ([run.rng.choice([24, 40, 64, 90])] if run.quick else [24, 40, 64, 90, 150]):
            for R in range(1, 70):
                mlines.append("V s.%s.%d.%d 100000 %d %d 0 1 %s %s" % (n, S, R, R, S, codes, ",".join(["1"] * (9 * R + 12))))
            plan.append((n, S, regs))
    mout = model_lines(modelbin, mlines) if mlines else {}
    jobs, meta = [], []
    for (n, S, regs) in plan:
        kinds = {R: (mout.get("s.%s.%d.%d" % (n, S, R)) or ["?"])[0] for R in range(1, 70)}
        sw = [R for R in range(1, 70) if kinds[R] == "L:StackSize"]
        if not sw:
            continue
        t = sw[0]
        for R in sorted(set(x for x in (2, t - 2, t - 1, t, t + 1, t + 3, 69) if 1 <= x < 70)):
            jobs.append(("rec=%d stack=%d" % (R, S), progs[n]))
            meta.append((n, S, R, kinds[R], t, regs))
    res = js_many(jsbin, jobs, chunk=10)
    agree = 0
    for (cfg, prog), (n, S, R, mk, t, regs), r in zip(jobs, meta, res):
        if r is None or r[0] != "ok":
            run.cov["discarded"] = run.cov.get("discarded", 0) + 1
            continue
        ik = re.match(r"L:\w+", r[2])
        ik = ik.group(0) if ik else r[2]
        run.count(("stack", n, S, R))
        if len(meta) and (R == t) and n == meta[0][0] and S == meta[0][1]:
            run.sample({"stack_case": {"route": n, "S": S, "R": R, "registers(main,T,aux)": regs, "model": mk, "impl": ik, "model_switch_R": t}})
        if ik == mk:
            agree += 1
        else:
            findings.append({"kind": "correspondence-broken", "class": "stack-size-accounting:" + n,
                             "obligation": "Model_C08 stack length at check_limits (2 + argc + register_count per frame, this/func/args of the pending call) vs boa: "
                                           "which of Recursion / StackSize fires first",
                             "input": prog, "cfg": cfg, "model_output": mk, "impl_output": [r[0], ik], "registers": regs, "model_switch_R": t})
    run.cov["stack_cases"] = len(meta)
    run.cov["stack_agree"] = agree


# ----------------------------------------------------------------------------------------------
# validation of the trusted successor rule and the dynamic form of the cut property (harness `lim`, depth-log hook)

def lim_batch(binpath, cfg, progs, timeout):
    inp = "cfg " + cfg + "\n" + "".join("run %d %s\n" % (i, esc(p)) for i, p in enumerate(progs))
    try:
        p = subprocess.run(["nice", "-n", "5", binpath], input=inp, stdout=subprocess.PIPE, stderr=subprocess.PIPE, text=True, timeout=timeout)
        out = p.stdout
    except subprocess.TimeoutExpired as ex:
        out = ex.stdout.decode("utf8", "replace") if isinstance(ex.stdout, bytes) else (ex.stdout or "")
    res = [None] * len(progs)
    for l in out.split("\n"):
        f = l.split("\t")
        if len(f) != 7:
            continue
        try:
            res[int(f[0])] = {"status": f[1], "completion": f[2], "executed": int(f[3]), "transitions": f[4].split(" ") if f[4] else [],
                              "repeats": f[5].split(" ") if f[5] else [], "dump": json.loads(f[6])}
        except (ValueError, IndexError):
            pass
    return res


def trace_stage(run, limbin, jobs, findings):
    """jobs: list of (cfg, program).  Every observed intra-activation transition must be an edge of the CFG the reader
    builds from the dump; no activation may revisit a pc without passing a cut instruction."""
    tasks = []
    for i in range(0, len(jobs), 6):
        tasks.append(jobs[i:i + 6])
    stats = Counter()
    edges_seen = set()

    def one(chunk):
        out = []
        for cfg, prog in chunk:     # one process per program: a crash must not hide the others
            out.append(lim_batch(limbin, cfg, [prog], 300)[0])
        return out
    with ThreadPoolExecutor(max_workers=min(8, vlib.NCPU)) as ex:
        results = list(ex.map(one, tasks))
    k = 0
    for chunk, rs in zip(tasks, results):
        for (cfg, prog), r in zip(chunk, rs):
            k += 1
            if r is None or r["status"] != "ok":
                stats["trace_no_result"] += 1
                continue
            run.count(("trace", cfg, prog))
            stats["trace_programs"] += 1
            stats["instructions_executed"] += r["executed"]
            blocks = {b.id: b for b in CFG.parse_dump(r["dump"])}
            graphs = {}
            for t in r["transitions"]:
                m = re.match(r"(\d+):(\d+)>(\d+)$", t)
                if not m:
                    continue
                bid, p1, p2 = int(m.group(1)), int(m.group(2)), int(m.group(3))
                if bid not in blocks:
                    stats["transitions_in_undumped_blocks"] += 1     # eval / Function code
                    continue
                if bid not in graphs:
                    nodes, _ = CFG.build_cfg(blocks[bid])
                    graphs[bid] = (nodes, {nd["pc"]: i for i, nd in enumerate(nodes)})
                nodes, index = graphs[bid]
                stats["transitions_checked"] += 1
                i1, i2 = index.get(p1), index.get(p2)
                shape = (blocks[bid].ins[i1][3] if i1 is not None else "?", (p2 - p1))
                edges_seen.add((tuple(x[3] for x in blocks[bid].ins), p1, p2))
                if i1 is None or i2 is None or i2 not in nodes[i1]["succ"]:
                    name = nodes[i1]["name"] if i1 is not None else "?"
                    findings.append({"kind": "correspondence-broken", "class": "cfg-successor-rule-incomplete:" + name,
                                     "obligation": "every executed transition pc -> pc' of an activation (depth-log hook) is an edge of the CFG gen/c08_cfg.py builds from the dump",
                                     "input": prog, "cfg": cfg, "block": blocks[bid].name, "transition": [p1, p2], "instruction": name})
            for rp in r["repeats"]:
                f = rp.split(":")
                if len(f) == 3 and int(f[0]) in blocks:
                    cls = classify("overrun", prog, "", "trace")
                    findings.append({"kind": "counterexample", "class": cls if cls != "trace:overrun" else "loop-without-counter-dynamic:" + f[2], "symptom": "overrun",
                                     "input": prog, "cfg": cfg, "block": blocks[int(f[0])].name, "pc": int(f[1]),
                                     "expected": "an activation passes IncrementLoopIteration (or suspends, or pops an iterator) between two visits of the same pc"})
                else:
                    stats["repeats_in_undumped_blocks"] += 1
    stats["distinct_edges_observed"] = len(edges_seen)
    run.cov["trace_validation"] = dict(stats)


# ----------------------------------------------------------------------------------------------
# tie 3: routes

def route_verdict(kind, tag, r, bound):
    """None if fine, else symptom."""
    if r is None:
        return "hang"
    status, trace, comp = r
    if status != "ok":
        return "panic"
    if sum(1 for t in trace if t == "b") > bound:
        return "overrun"
    where, lk = limit_of(comp)
    want = {"loop": "LoopIteration", "rec": "Recursion", "stack": "StackSize"}[kind]
    bad = [t for t in trace if t.startswith("caught") or t.startswith("finally") or t == "after"]
    if where is None and re.search(r'(^|jobs:)P:"EnginePanic', comp):
        # an engine error reaches the host, but it is not the RuntimeLimitError (js_expect wrapped it)
        return "misreported-as-engine-panic"
    if tag == "job":
        # the evaluation itself completes (its own finally blocks run normally); the job must report the error
        if where != "jobs":
            return "swallowed"
        bad = [t for t in trace if t.startswith("caught") or t == "finally T"]
    else:
        if where is None:
            return "swallowed" if not any(t.startswith("caught") for t in trace) else "caught"
        if where != "eval":
            return "wrong-completion"
    # generators and async functions run on their own value stack, so a small stack limit may let the recursion
    # limit fire first: for the stack kind any RuntimeLimitError is the expected report
    if lk != want and kind != "stack":
        return "wrong-completion"
    if any(t.startswith("caught") for t in bad):
        return "caught"
    if bad:
        return "finally-ran"
    if sum(1 for t in trace if t == "b") > bound:
        return "overrun"
    return None


def routes_stage(run, jsbin, findings, corpus_first):
    routes = ROUTES.ROUTES
    L, R = 3, 16
    jobs, meta = [], []
    for ri, (name, tpl, tag) in enumerate(routes):
        if run.quick:
            # every route with one body (rotating over all bodies, so each body incl. the `continue`-ending ones is used
            # several times per run) + the first route with every body
            nb = len(ROUTES.LOOP_BODIES)
            bodies = ROUTES.LOOP_BODIES if ri == 0 else [ROUTES.LOOP_BODIES[(ri + run.seed) % nb]]
            if run.rng.random() < 0.3:
                bodies = bodies + [ROUTES.LOOP_BODIES[run.rng.randrange(nb)]]
        else:
            bodies = ROUTES.LOOP_BODIES
        for bi, (bname, btpl) in enumerate(bodies):
            Lk = L if run.quick else run.rng.choice([0, 1, 2, 7])
            jobs.append(("loop=%d rec=64 stack=4096" % Lk, ROUTES.wrap_loop(tpl, btpl)))
            meta.append((name, tag, "loop", bname, Lk + 2))
        if tag == "sync":
            Rk = R if run.quick else run.rng.choice([2, 3, 16])
            jobs.append(("rec=%d stack=8192" % Rk, ROUTES.wrap_rec(tpl)))
            meta.append((name, tag, "rec", "-", Rk + 1))
            if (not run.quick) or run.rng.random() < 0.35:
                Sk = run.rng.choice([24, 40, 64, 100])
                jobs.append(("rec=400 stack=%d" % Sk, ROUTES.wrap_rec(tpl)))
                meta.append((name, tag, "stack", "-", 401))   # generators/async bodies run on their own stack: the recursion limit (400) may fire first
    res = js_many(jsbin, jobs, chunk=8)
    stats = Counter()
    for (cfg, prog), (name, tag, kind, bname, bound), r in zip(jobs, meta, res):
        run.count(("route", name, kind, bname))
        stats["route_cases_" + kind] += 1
        if r is None:
            # no result even alone within the timeout: counted, reported as a note (the machine may be overloaded); never compared
            stats["route_no_result"] += 1
            run.notes.append({"route_no_result": {"route": name, "kind": kind, "cfg": cfg}})
            continue
        sym = route_verdict(kind, tag, r, bound)
        if len(run.cov["samples"]) < 5 and kind != "loop":
            run.sample({"route_case": {"route": name, "kind": kind, "cfg": cfg, "completion": r[2], "b_lines": sum(1 for t in r[1] if t == "b")}})
        if sym is None:
            stats["route_ok"] += 1
            continue
        cls = classify(sym, prog, r[2], "route:" + name)
        findings.append({"kind": "counterexample", "class": cls, "route": name, "limit_kind": kind, "loop_body": bname, "symptom": sym,
                         "input": prog, "cfg": cfg, "impl_output": {"status": r[0], "trace_tail": r[1][-8:], "completion": r[2]},
                         "expected": "completion L:<kind> reported to the host%s, no caught/finally line, at most %d 'b' lines" % (" by run_jobs" if tag == "job" else "", bound)})
    # native loops over a user iterator: 300 steps under loop=3 - the property asks for work bounded by the limits
    njobs = [("loop=3 rec=64 stack=4096", ROUTES.wrap_native_loop(tpl, 300)) for _, tpl in ROUTES.NATIVE_LOOPS]
    nres = js_many(jsbin, njobs, chunk=8)
    for (nname, _), (cfg, prog), r in zip(ROUTES.NATIVE_LOOPS, njobs, nres):
        run.count(("native-loop", nname))
        stats["native_loop_cases"] += 1
        if r is None or r[0] != "ok":
            continue
        nb = sum(1 for t in r[1] if t == "b")
        where, _ = limit_of(r[2])
        if where is None and nb > 100:
            stats["native_loop_not_counted"] += 1
            findings.append({"kind": "counterexample", "class": "native-iteration-not-counted", "consumer": nname, "symptom": "overrun", "input": prog, "cfg": cfg,
                             "impl_output": {"status": r[0], "b_lines": nb, "completion": r[2]},
                             "expected": "RuntimeLimitError or a number of steps bounded by the limits (String.prototype.repeat charges its native iterations to the loop counter; iterator-consuming builtins do not)"})
    run.cov["routes"] = dict(stats)
    run.cov["routes"]["routes_in_table"] = len(routes)


# ----------------------------------------------------------------------------------------------
# search: limit grid x generated programs

def grid_stage(run, jsbin, findings, nprogs):
    g = PROGS.Gen(run.rng)
    progs = []
    feat = Counter()
    for _ in range(nprogs):
        t, fs, asy = g.program()
        progs.append((t, fs, asy))
        feat.update(fs)
    run.cov["generator_features"] = dict(feat)
    # the reference run gets a loop limit no generated program can reach (trip counts <= 4): a program that boa turns into
    # a runaway (a miscompiled loop, not a C08 matter) then ends quickly and is discarded and counted instead of timing out
    base = js_many(jsbin, [("loop=100000 jobs=1", t) for t, _, _ in progs], chunk=10)
    Ls = [0, 1, 2, 7, 100]
    Rs = [1, 2, 3, 16]
    Ss = [1, 8, 16, 32, 64, 1024]
    jobs, meta = [], []
    base_discarded = 0
    for k, (t, fs, asy) in enumerate(progs):
        if base[k] is None or base[k][0] != "ok" or limit_of(base[k][2])[0] is not None:
            base_discarded += 1
            run.notes.append({"reference_run_discarded": {"completion": None if base[k] is None else base[k][2], "program_tail": t[-300:]}})
            continue
        grid = [("loop", L, "loop=%d" % L) for L in Ls] + [("rec", R, "rec=%d" % R) for R in Rs]
        ssel = Ss if not run.quick else [run.rng.choice(Ss), run.rng.choice(Ss)]
        grid += [("stack", S, "stack=%d" % S) for S in sorted(set(ssel))]
        for (kind, v, cfg) in grid:
            jobs.append((cfg + " jobs=1", t))
            meta.append((k, kind, v))
            if asy:
                jobs.append((cfg + " jobs=0", t))
                meta.append((k, kind + "-nojobs", v))
    res = js_many(jsbin, jobs, chunk=10)
    stats = Counter()
    verdicts = {}
    for (cfg, t), (k, kind, v), r in zip(jobs, meta, res):
        b = base[k]
        run.count(("grid", t, kind, v))
        stats["grid_runs"] += 1
        if r is None:
            stats["grid_no_result"] += 1
            continue
        sym = None
        btrace = b[1]
        if kind.endswith("-nojobs"):
            # sync phase only: must be a prefix of the sync part of the unlimited trace
            cut = btrace.index("SYNC-END") + 1 if "SYNC-END" in btrace else len(btrace)
            where, lk = limit_of(r[2])
            if r[0] != "ok":
                sym = "panic"
            elif r[1] != btrace[:len(r[1])] or len(r[1]) > cut:
                sym = "not-prefix"
            stats["grid_nojobs"] += 1
        else:
            where, lk = limit_of(r[2])
            if r[0] != "ok":
                sym = "panic"
            elif where is None and re.search(r'(^|jobs:)P:"EnginePanic', r[2]):
                sym = "misreported-as-engine-panic"
            elif where is None:
                stats["grid_under_limit"] += 1
                if r[1] != btrace or r[2] != b[2]:
                    sym = "swallowed" if r[1] == btrace[:len(r[1])] and len(r[1]) < len(btrace) else "not-prefix"
            else:
                stats["grid_limit_hit"] += 1
                want = {"loop": "LoopIteration", "rec": "Recursion", "stack": "StackSize"}[kind]
                if lk != want and kind != "stack":
                    sym = "wrong-completion"
                elif where == "jobs" or not progs[k][2]:
                    if r[1] != btrace[:len(r[1])]:
                        sym = "not-prefix"
                # eval-phase error of a program with pending jobs: the jobs still run afterwards; covered by the -nojobs run
            if sym is None:
                # runs that already show another symptom (swallowed / misreported limit error) say nothing about monotonicity
                verdicts.setdefault((k, kind), []).append((v, where is not None))
        if sym:
            cls = classify(sym, t, r[2], "grid")
            findings.append({"kind": "counterexample", "class": cls, "symptom": sym, "input": t, "cfg": cfg,
                             "impl_output": {"status": r[0], "trace": r[1][-12:], "completion": r[2]},
                             "unlimited_output": {"trace_len": len(btrace), "completion": b[2]},
                             "expected": "limited run identical to the unlimited run, or a prefix of it ending with RuntimeLimitError"})
    # monotone: once a limit value lets the program through, every larger value does
    for (k, kind), vs in verdicts.items():
        vs.sort()
        seen_pass = False
        for v, hit in vs:
            if not hit:
                seen_pass = True
            elif seen_pass:
                findings.append({"kind": "counterexample", "class": "grid:not-monotone", "input": progs[k][0], "limit_kind": kind, "verdicts": vs,
                                 "expected": "limit error at value v implies limit error at every smaller value"})
                break
    stats["reference_runs_discarded"] = base_discarded
    stats["programs"] = len(progs)
    stats["programs_with_async"] = sum(1 for p in progs if p[2])
    run.cov["grid"] = dict(stats)
    run.cov["programs"] = len(progs)
    if progs:
        run.sample({"grid_program": progs[0][0][:600], "features": progs[0][1]})
    return [p[0] for p in progs]


# ----------------------------------------------------------------------------------------------

def load_corpus():
    d = os.path.join(vlib.CORPUS, PROP)
    out = []
    if os.path.isdir(d):
        for f in sorted(os.listdir(d)):
            if f.endswith(".json"):
                try:
                    out.append(json.load(open(os.path.join(d, f))))
                except Exception:
                    pass
    return out


def corpus_stage(run, jsbin, findings):
    items = load_corpus()
    if not items:
        return
    res = js_many(jsbin, [(it["cfg"], it["input"]) for it in items], chunk=4)
    for it, r in zip(items, res):
        run.count(("corpus", it["input"], it["cfg"]))
        if r is None:
            continue
        sym = route_verdict(it.get("limit_kind", "loop"), it.get("tag", "sync"), r, it.get("bound", 10 ** 9))
        if sym:
            findings.append({"kind": "counterexample", "class": classify(sym, it["input"], r[2], "corpus:" + it.get("name", "?")), "symptom": sym,
                             "input": it["input"], "cfg": it["cfg"], "impl_output": {"status": r[0], "trace_tail": r[1][-8:], "completion": r[2]},
                             "expected": "completion L:<kind> reported to the host, no caught/finally line"})
    run.cov["corpus_cases"] = len(items)


def main():
    run = Run(PROP, "proof")
    run.cov["rule"] = ("cases: (cfg) one certified-check run per dumped code block and cut configuration, distinct by the block's CFG shape; (form) loop form x L x trip "
                       "count, model VM vs boa; (route) route x limit kind x loop body, wrapped in try/catch/finally at 3 levels; (grid) generated terminating program x "
                       "limit value; non-trivial = every case (each block has >= 1 instruction, each program runs under a limit); distinct = distinct key")
    os.makedirs(os.path.join(vlib.OCAML, PROP, "_build"), exist_ok=True)
    broken = None
    pr = vlib.proof_stage(PROP, ["C08"], "C08/Props_C08.v", extra_targets=["C08/Extract_C08.vo"])
    run.set_proof(pr, TRUSTED)
    if not pr["ok"]:
        broken = pr["broken"]
    if pr["ok"] and not run.quick:
        # thorough: re-check the compiled theories with the independent checker
        rcc, outc, errc = vlib.sh(["coqchk", "-silent", "-o"] + vlib.coq_qflags() + ["C08.Props_C08"], cwd=vlib.COQ, timeout=1800)
        run.cov["coqchk"] = "ok" if rcc == 0 and "Axioms: <none>" in (outc + errc).replace("\n", " ").replace("  ", " ") else (outc + errc)[-400:]
        if rcc != 0:
            broken = {"kind": "proof", "detail": {"error": "coqchk failed: " + (outc + errc)[-800:]}}
    rc, out, err = vlib.sh(["sh", os.path.join(vlib.OCAML, PROP, "build.sh")], timeout=900)
    modelbin = os.path.join(vlib.OCAML, PROP, "_build", "c08_model")
    if rc != 0 or not os.path.exists(modelbin):
        if broken is None:
            vlib.infra_error(PROP, "ocaml driver build failed: " + (out + err)[-400:])
        modelbin = None
    ok, paths, blog = vlib.harness_build(["js", "lim"])
    if not ok:
        if re.search(r"^error", blog, re.M):
            run.violation({"kind": "correspondence-broken", "obligation": "harness `js`/`lim` no longer compile against /repo", "log": blog[-3000:]}, found_input=False)
            return run.finish()
        vlib.infra_error(PROP, "harness build failed: " + blog[-400:])
    jsbin = paths["js"]
    findings = []
    enlarged = (not run.quick) or broken is not None
    # corpus first
    corpus_stage(run, jsbin, findings)
    # generated programs (used by the CFG tie and by the search)
    grid_programs = grid_stage(run, jsbin, findings, 10 if (run.quick and not enlarged) else 60)
    if modelbin:
        cfg_programs = [("fixed", t) for t in PROGS.FIXED] + [("gen", t) for t in grid_programs]
        cfg_programs += [("route", ROUTES.wrap_loop(tpl, b[1])) for (_, tpl, _), b in zip(ROUTES.ROUTES[::7], ROUTES.LOOP_BODIES * 3)]
        cfg_stage(run, jsbin, modelbin, cfg_programs, findings)
        forms_stage(run, jsbin, modelbin, findings)
        depth_stage(run, jsbin, modelbin, findings)
        stack_stage(run, jsbin, modelbin, findings)
        chain_stage(run, jsbin, modelbin, findings)
    tjobs = [("loop=100000 jobs=1", t) for t in grid_programs[:(8 if run.quick else 40)]]
    tjobs += [("loop=%d jobs=1" % run.rng.choice([2, 7]), t) for t in grid_programs[:(4 if run.quick else 20)]]
    tjobs += [("rec=%d" % run.rng.choice([7, 16]), ROUTES.wrap_rec(tpl)) for (_, tpl, tag) in ROUTES.ROUTES[run.rng.randrange(5)::(9 if run.quick else 2)] if tag == "sync"]
    tjobs += [("loop=3", ROUTES.wrap_loop(ROUTES.ROUTES[0][1], b[1])) for b in ROUTES.LOOP_BODIES[::(3 if run.quick else 1)]]
    trace_stage(run, paths["lim"], tjobs, findings)
    routes_stage(run, jsbin, findings, None)
    # verdicts
    seen_cls = set()
    found_input = False
    for f in findings:
        cls = f.get("class")
        if cls in seen_cls:
            continue
        seen_cls.add(cls)
        f["how_to_rerun"] = "./check replay <this file>   (runs the input under the recorded cfg with harness/target/debug/js)"
        is_input = f["kind"] == "counterexample"
        found_input = found_input or is_input
        run.violation(f, found_input=is_input or f.get("class", "").startswith(("loop-counter-semantics", "recursion-depth-accounting", "stack-size-accounting")))
    run.cov["findings_by_class"] = dict(Counter(f.get("class") for f in findings))
    if broken is not None:
        if not found_input:
            run.violation({"kind": "proof-broken", "obligation": "coq/C08/Props_C08.v", "detail": broken,
                           "search": "enlarged route table and limit grid found no failing input"}, found_input=False)
        else:
            run.notes.append({"proof_broken": broken})
    run.assumptions = TRUSTED
    return run.finish()


def replay(obj):
    ok, paths, _ = vlib.harness_build(["js"])
    r = js_batch(paths["js"], obj.get("cfg", ""), [obj.get("input", "")], 300)[0]
    print(json.dumps({"cfg": obj.get("cfg"), "result": r, "expected": obj.get("expected")}, indent=1))
    return 0
