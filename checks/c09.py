"""C09 — the collector frees exactly the unreachable objects, exactly once
   (+ the collector-level half of C10: collection is unobservable, nothing is left behind).

Proof:   coq/C09/Props_C09.v (20 theorems) and coq/C09/Props_C10gc.v (6 theorems) over the hand-written, phase-by-phase
         model coq/C09/GcModel.v: representation invariant over all histories, is_rooted exact, marking = abstract
         reachability, collect frees exactly the unreachable nodes once and re-establishes the invariant (when no
         unreachable box has a resurrecting finalizer; refuted otherwise), reachable sub-heap preserved, drop-all empties.
         The header bit layout coq/Gen/GcHeader.v is regenerated from gc_header.rs on every run (tools/gen_c09.py) and
         coq/C09/HeaderRefine.v re-proves that the mark bit and the count are independent components.
Tie:     the extracted model (ocaml/C09, ExtrOcamlBasic only, build output in ocaml/C09/_build/) and the real boa_gc
         (harness `gcops`) run the same operation histories; every observation line is compared (Finalize / Drop logs in
         order, upgrade / value / weak-map results, heap statistics incl. bytes and collection count, and the tear-down).
         Exhaustive bounded histories + seeded random histories (cycles, self references, ephemeron keys reachable only
         from their own values, ephemeron chains, weak-map cycles, finalizers that clone handles, malformed lines).
Search:  gen/c09_oracle.py replays the harness output alone against an abstract heap graph and checks the property itself
         (never freed while reachable, unreachable => finalized and freed once, upgrade iff live, no leak after dropping
         everything, no panic); also histories with collections inserted / under boa_gc::verif::set_stress must give the
         same non-weak observations (C10, collector level).
Known:   class `finalizer-resurrection` (design.d/C09.md, finding 1): computed from the failing case = the failure happens
         at or after a collection whose finalizers put handles into the root list.
"""
import os
import re
import subprocess
import sys
import time
from concurrent.futures import ProcessPoolExecutor, ThreadPoolExecutor

import vlib
from vlib import Run, log

sys.path.insert(0, os.path.join(vlib.VERIF, "gen"))
sys.path.insert(0, os.path.join(vlib.VERIF, "tools"))
import c09_oracle  # noqa: E402

PROP = "C09"
WORKDIR = os.path.join(vlib.WORK, "C09")
RESET_LINE = "reset | 0 0 0 0 0"
TRUSTED = [
    "Coq 8.16.1 kernel + vm_compute (no native_compute)",
    "coq/C09/GcModel.v is a hand transliteration of core/gc/src (lib.rs Collector::*, pointers/*.rs, internals/*.rs): tied to the code only by the differential runs of this check",
    "tools/rs2v.py + tools/gen_c09.py (gc_header.rs -> coq/Gen/GcHeader.v; refuses anything outside the subset); Rust facts used: u32::BITS = 32, !x on u32 = x xor 0xFFFFFFFF, wrapping_add = + mod 2^32",
    "extraction (ExtrOcamlBasic only) + OCaml 4.13 + ocaml/C09/driver.ml (parsing, printing, enumeration, random generation)",
    "harness/src/bin/gcops.rs (payload: handles spread over Vec/Option/struct-in-GcRefCell/enum/Box/tuple/BTreeMap and nested ephemeron values via derive(Trace, Finalize); handle tables, Drop/Finalize logs), boa_gc::verif::stats hook",
    "modelled, not verified: memory safety of the unsafe blocks, Box allocation, hashbrown (table order is unobservable here), ref-count overflow at 2^31 handles (panic path), GcRefCell borrow flags (no borrow is held across an operation)",
    "gen/c09_oracle.py (abstract reachability oracle) and this driver",
]


def sh(cmd, inp=None, timeout=3000):
    p = subprocess.run(cmd, input=inp, stdout=subprocess.PIPE, stderr=subprocess.PIPE, text=True, timeout=timeout)
    return p.returncode, p.stdout, p.stderr


# ----------------------------------------------------------------------------------------------
# builds

def build_driver():
    rc, out, err = sh(["bash", os.path.join(vlib.OCAML, "C09", "build.sh")], timeout=1200)
    if rc != 0:
        return None, (out + err)[-2000:]
    return out.strip().split("\n")[-1], ""


def proof_stages():
    """Returns (pr09, pr10, translator_info_or_error)."""
    import gen_c09
    tinfo = None
    try:
        text, tinfo = gen_c09.generate(vlib.REPO)
        vlib.write_if_changed(os.path.join(vlib.COQ, "Gen", "GcHeader.v"), text)
    except Exception as e:  # Unsupported or anything else
        return None, None, {"error": "%s: %s" % (type(e).__name__, e)}
    pr09 = vlib.proof_stage("C09", ["Common", "C09"], "C09/Props_C09.v", extra_targets=["C09/GcModel.vo"])
    pr10 = vlib.proof_stage("C09", ["Common", "C09"], "C09/Props_C10gc.v")
    return pr09, pr10, tinfo


def collector_proof_stage():
    """For checks/c10.py: the vlib.proof_stage result of the collector-level C10 theorems
    (coq/C09/Props_C10gc.v: collect_preserves_reachable, schedule_independent, drop_all_then_collect_empties)."""
    import gen_c09
    try:
        text, _ = gen_c09.generate(vlib.REPO)
        vlib.write_if_changed(os.path.join(vlib.COQ, "Gen", "GcHeader.v"), text)
    except Exception as e:
        return {"ok": False, "theorems": [], "axioms": {}, "obligations": 3, "discharged": 0,
                "broken": {"kind": "translator", "detail": {"error": "%s: %s" % (type(e).__name__, e)}},
                "checker_cmd": "tools/gen_c09.py"}
    return vlib.proof_stage("C09", ["Common", "C09"], "C09/Props_C10gc.v")


# ----------------------------------------------------------------------------------------------
# running histories

def split_histories(text):
    """text: operation lines with `reset` separators -> list of lists of op strings."""
    hs, cur = [], []
    for l in text.split("\n"):
        l = l.strip()
        if not l:
            continue
        if l == "reset":
            hs.append(cur)
            cur = []
        else:
            cur.append(l)
    if cur:
        hs.append(cur)
    return hs


def calibrate(gcops):
    """Box sizes as the allocator accounts them (bytes_allocated deltas on the real heap)."""
    rc, out, _ = sh([gcops], "new 0\nwmnew\nweak 0\neph 0 0\nquit\n")
    b = [int(l.split(" | ")[1].split()[3]) for l in out.strip().split("\n")]
    sn = b[0]
    su = b[2] - b[1]
    sm = b[1] - b[0] - su
    sv = b[3] - b[2]
    return (sn, sm, su, sv)


def model_run(driver, sizes, text):
    rc, out, err = sh([driver, "run"] + [str(x) for x in sizes], text)
    if rc != 0:
        raise RuntimeError("model driver failed: " + err[-500:])
    return out


def impl_run(gcops, text):
    """Runs the harness; returns (stdout, returncode)."""
    p = subprocess.run([gcops], input=text, stdout=subprocess.PIPE, stderr=subprocess.PIPE, text=True, timeout=3000)
    return p.stdout, p.returncode


class Mismatch:
    def __init__(self, ops, index, model, impl, kind):
        self.ops, self.index, self.model, self.impl, self.kind = ops, index, model, impl, kind

    def obj(self):
        return {"ops": self.ops[: self.index + 1], "at": self.index, "model": self.model, "impl": self.impl, "kind": self.kind}


def model_blocks(model_out):
    """The model's output split per history: each block is the text of its observation lines including the final
    `reset | ...` line (the model predicts the statistics after the harness's tear-down as well)."""
    blocks, cur = [], []
    for l in model_out.split("\n"):
        if not l:
            continue
        cur.append(l)
        if l.startswith("reset |"):
            blocks.append("\n".join(cur) + "\n")
            cur = []
    if cur:
        blocks.append("\n".join(cur) + "\n")
    return blocks


def measure(out, stats):
    """Measured features of the compared observation lines (what the collections in this batch actually did)."""
    g = d = nd = us = un = inv = 0
    for l in out.split("\n"):
        if l.startswith("fin ["):
            g += 1
            k = l.index(" drop [") + 7
            body = l[k:l.index("]", k)]
            if body:
                d += 1
                nd += body.count(",") + 1
        elif l.startswith("some "):
            us += 1
        elif l.startswith("none") or l.startswith("cleared"):
            un += 1
        elif l.startswith("inv"):
            inv += 1
    for k, v in (("collections", g), ("collections_freeing", d), ("nodes_freed", nd), ("weak_some", us), ("weak_none", un), ("rejected_ops", inv)):
        stats[k] = stats.get(k, 0) + v


def compare_batch(gcops, hists, mblocks, stats, oracle=True, max_poison=None, rng=None):
    """hists: list of op lists; mblocks: the model's output block (text) per history.
    Returns (mismatches, property_violations).  Histories the model marks POISON (the Rust code panics or
    leaves a dangling handle: the model stops tracking) are run one per process, truncated at that point."""
    mism, viol = [], []
    clean_idx = [i for i, b in enumerate(mblocks) if " POISON" not in b]
    poison_idx = [i for i, b in enumerate(mblocks) if " POISON" in b]
    stats["histories"] = stats.get("histories", 0) + len(hists)
    stats["poisoned_by_model"] = stats.get("poisoned_by_model", 0) + len(poison_idx)
    # clean histories: one process, restart after an early exit
    pos = 0
    while pos < len(clean_idx):
        idxs = clean_idx[pos:]
        text = "".join("\n".join(hists[i]) + "\nreset\n" for i in idxs)
        out, rc = impl_run(gcops, text)
        want = "".join(mblocks[i] for i in idxs)
        if out == want:
            stats["ops"] = stats.get("ops", 0) + sum(len(hists[i]) + 1 for i in idxs)
            measure(out, stats)
            if oracle:
                lines = out.split("\n")
                k = 0
                for i in idxs:
                    n = len(hists[i]) + 1
                    v = c09_oracle.check_history(hists[i], lines[k:k + n])
                    k += n
                    if v:
                        viol.append((hists[i], v, lines[k - n:k]))
            break
        # find the first differing history
        olines = out.split("\n")
        if olines and olines[-1] == "":
            olines.pop()
        k = 0
        advanced = False
        for j, i in enumerate(idxs):
            n = len(hists[i]) + 1
            mlines = mblocks[i].split("\n")[:-1]
            got = olines[k:k + n]
            if got != mlines:
                d = 0
                while d < len(got) and d < len(mlines) and got[d] == mlines[d]:
                    d += 1
                mism.append(Mismatch(hists[i], min(d, len(hists[i]) - 1), mlines[d] if d < len(mlines) else "<none>",
                                     got[d] if d < len(got) else "<missing: harness exited %d>" % rc, "correspondence"))
                if oracle:
                    v = c09_oracle.check_history(hists[i], got)
                    if v:
                        viol.append((hists[i], v, got))
                pos += j + 1
                advanced = True
                break
            stats["ops"] = stats.get("ops", 0) + n
            if oracle:
                v = c09_oracle.check_history(hists[i], got)
                if v:
                    viol.append((hists[i], v, got))
            k += n
        if not advanced:
            break
        if len(mism) > 50:
            break
    # poisoned histories
    if max_poison is not None and len(poison_idx) > max_poison:
        poison_idx = sorted(rng.sample(poison_idx, max_poison))
    stats["poisoned_run"] = stats.get("poisoned_run", 0) + len(poison_idx)

    def one(i):
        ml = mblocks[i].split("\n")[:-1]
        cut = next(k for k, l in enumerate(ml) if l.endswith(" POISON"))
        ops = (hists[i] + ["reset"])[:cut + 1]
        out, rc = impl_run(gcops, "\n".join(ops) + "\nquit\n")
        return i, cut, ml, ops, out.split("\n")[:-1], rc
    with ThreadPoolExecutor(max_workers=max(2, vlib.NCPU // 2)) as ex:
        for i, cut, ml, ops, got, rc in ex.map(one, poison_idx):
            stats["ops"] = stats.get("ops", 0) + len(ops)
            want = ml[:cut] + [ml[cut][:-len(" POISON")]]
            ok = got[:cut] == want[:cut] and len(got) == cut + 1
            if ok and got[cut] != want[cut]:
                # the model predicts a panic (ref-count underflow) or a dangling handle: the only
                # admissible differences are a harness line that reports exactly that
                ok = got[cut].startswith("panic")
            if not ok:
                d = 0
                while d < len(got) and d < len(want) and got[d] == want[d]:
                    d += 1
                mism.append(Mismatch(ops, min(d, len(ops) - 1), want[d] if d < len(want) else "<none>",
                                     got[d] if d < len(got) else "<missing>", "correspondence-poisoned"))
            v = c09_oracle.check_history(ops, got) if oracle else None
            if v:
                viol.append((ops, v, got))
            else:
                # the model says the implementation misbehaves here although the abstract oracle did not
                # see it in the log (a dangling handle inside the heap): keep it as a model-level finding
                stats["poison_not_visible_in_log"] = stats.get("poison_not_visible_in_log", 0) + 1
                stats.setdefault("poison_not_visible_examples", [])
                if len(stats["poison_not_visible_examples"]) < 3:
                    stats["poison_not_visible_examples"].append({"ops": ops, "impl_last": got[-1] if got else ""})
    return mism, viol


KNOWN_CLASS = "finalizer-resurrection"


def resurrecting_nodes(ops):
    """ids of the nodes allocated with a resurrecting finalizer (F > 0), from the operation list alone."""
    out, n = set(), 0
    for o in ops:
        w = o.split()
        if not w:
            continue
        if w[0] in ("new", "newc"):
            if len(w) > 1 and w[1].isdigit() and int(w[1]) > 0:
                out.add(n)
            n += 1
        elif w[0] == "wmnew":
            n += 1
    return out


def taint_index(ops, lines):
    """Index of the first collection in which a finalizer put handles into the root list (`res [..]` non-empty), or
    which panicked after running the finalizer of a node allocated with F > 0; None if there is none.  From that
    collection on boa's reference counts no longer match its handles (design.d/C09.md, finding 1)."""
    rn = None
    for i, (o, l) in enumerate(zip(ops, lines)):
        if o.split()[:1] != ["gc"]:
            continue
        res = l.split(" | ")[0]
        m = re.search(r" res \[([0-9,]+)\]", res)
        if m:
            return i
        if res.startswith("panic"):
            if rn is None:
                rn = resurrecting_nodes(ops)
            m = re.search(r"fin \[([0-9,]*)\]", res)
            fins = [int(x) for x in m.group(1).split(",")] if m and m.group(1) else []
            if any(f in rn for f in fins):
                return i
    return None


def classify(ops, at, lines):
    """Stable class label of a failing case, computed from the case itself: the failure happens at or after a
    collection whose finalizers resurrected something."""
    t = taint_index(ops, lines)
    if t is not None and t <= at:
        return KNOWN_CLASS
    return None


# ----------------------------------------------------------------------------------------------
# shrinking (delta debugging on the operation list)

def shrink(ops, still_fails, budget=400):
    ops = list(ops)
    n = 2
    calls = 0
    while len(ops) >= 2 and calls < budget:
        chunk = max(1, len(ops) // n)
        reduced = False
        for start in range(0, len(ops), chunk):
            cand = ops[:start] + ops[start + chunk:]
            calls += 1
            if cand and still_fails(cand):
                ops = cand
                n = max(n - 1, 2)
                reduced = True
                break
            if calls >= budget:
                break
        if not reduced:
            if chunk == 1:
                break
            n = min(len(ops), n * 2)
    return ops


def fails_correspondence(gcops, driver, sizes):
    def f(ops):
        text = "\n".join(ops) + "\nreset\n"
        mb = model_blocks(model_run(driver, sizes, text))
        st = {}
        mism, _ = compare_batch(gcops, [ops], mb, st, oracle=False)
        return bool(mism)
    return f


def fails_oracle(gcops, kind, cls):
    def f(ops):
        out, rc = impl_run(gcops, "\n".join(ops) + "\nreset\nquit\n")
        lines = out.split("\n")[:-1]
        v = c09_oracle.check_history(ops, lines)
        return bool(v) and v[1] == kind and classify(ops, v[0], lines) == cls
    return f


# ----------------------------------------------------------------------------------------------
# C10 (collector level) on the implementation: collections at arbitrary points change no non-weak observation

WEAK_OPS = ("upg", "val", "gc", "stress")


def nonweak_view(ops, lines):
    """The observations a mutator without weak references can make: results of every operation except the
    collection log, upgrade/value results, and the heap statistics."""
    out = []
    for o, l in zip(ops, lines):
        w = o.split()[0]
        if w in ("gc", "stress"):
            continue
        out.append((o, l.split(" | ")[0]))
    return out


def schedule_check(run, gcops, hists, stats):
    """For histories without weak-observing operations and without resurrecting finalizers: the run without
    any collection, the run with collections inserted at random points, and the runs under set_stress(k)
    must agree on every non-weak observation."""
    bad = []
    jobs = []
    for ops in hists:
        base = [o for o in ops if o.split()[0] not in WEAK_OPS and not re.match(r"(new|newc) [1-9]", o)]
        if len(base) < 3:
            continue
        variants = [("none", base)]
        ins = []
        for o in base:
            if run.rng.random() < 0.3:
                ins.append("gc")
            ins.append(o)
        variants.append(("inserted", ins))
        for k in (1, 2, 3, 7):
            variants.append(("stress%d" % k, ["stress %d" % k] + base))
        jobs.append((base, variants))
    text = ""
    for base, variants in jobs:
        for name, v in variants:
            text += "\n".join(v) + "\nreset\n"
    if not jobs:
        return bad
    out, rc = impl_run(gcops, text)
    lines = out.split("\n")
    k = 0
    for base, variants in jobs:
        views = []
        for name, v in variants:
            got = lines[k:k + len(v) + 1]
            k += len(v) + 1
            view = [x for x in nonweak_view(v, got)]
            leak = got[len(v)] if len(got) > len(v) else "<missing>"
            views.append((name, view, leak))
            stats["schedule_runs"] = stats.get("schedule_runs", 0) + 1
        ref = views[0]
        for name, view, leak in views:
            if view != ref[1] or leak != RESET_LINE:
                bad.append({"ops": base, "variant": name, "reference": ref[1][:40], "got": view[:40], "reset": leak})
                break
        if rc != 0 and k >= len(lines) - 1:
            break
    return bad


def random_job(job):
    """One batch of seeded random histories (generated by the driver from the model state), in its own process."""
    prof, count, nops, maxbox, seed, driver, gcops, sizes = job
    rc, text, err = sh([driver, "gen", str(seed), str(count), str(nops), str(maxbox), prof])
    hists = split_histories(text)
    mb = model_blocks(model_run(driver, sizes, text))
    st = {}
    import random as _r
    mism, viol = compare_batch(gcops, hists, mb, st, oracle=True, max_poison=None, rng=_r.Random(seed))
    return hists, mism, viol, st, job[:5]


def enum_shard(job):
    """One shard of the bounded enumeration, in its own process: enumerate, run the model, run the implementation,
    compare every line, run the property oracle.  Returns (mismatches, violations, stats, enumerator summary, #histories)."""
    mode, depth, fins, i, shards, seed, driver, gcops, sizes, max_poison = job
    if mode == "enum":
        cmd = [driver, "enum", "3", "2", str(depth), "0", fins, "2", str(i), str(shards)]
    else:
        cmd = [driver, "enumg", "3", "2", str(depth), fins, "2", str(i), str(shards)]
    rc, text, err = sh(cmd)
    if not text.strip():
        return [], [], {}, err, 0
    hists = split_histories(text)
    mb = model_blocks(model_run(driver, sizes, text))
    if len(mb) != len(hists):
        raise RuntimeError("model answered %d histories of %d" % (len(mb), len(hists)))
    st = {}
    import random as _r
    mism, viol = compare_batch(gcops, hists, mb, st, oracle=True, max_poison=max_poison, rng=_r.Random(seed))
    st["nontrivial"] = sum(1 for h in hists if "gc" in h)
    return mism[:20], viol[:200], st, err, len(hists)


# ----------------------------------------------------------------------------------------------

def _main():
    run = Run(PROP, "proof")
    os.makedirs(WORKDIR, exist_ok=True)
    run.cov["rule"] = ("a case is one operation history run on the extracted model and on the real boa_gc, all observation lines compared; "
                       "order: corpus, targeted family (weak cell reachable only through another ephemeron's value, inner allocated before/after outer: 320 histories), "
                       "random, exhaustive, schedule runs; a failure outside the known class skips the later phases; "
                       "exhaustive part: histories over <=3 strong boxes / <=2 ephemeron boxes, finalizer kinds {0,1} (quick: all sequences of <=4 valid operations + the "
                       "memoised state-space frontier at <=5, i.e. a branch is pruned when the same model state was already expanded with at least the remaining depth; "
                       "thorough: all sequences of <=5, memoised <=7 with plain finalizers and <=6 with kinds {0,1}); "
                       "random part: seeded histories (valid operations chosen from the model state + 2% malformed lines + macro shapes); "
                       "distinct = distinct operation sequences; non-trivial = contains at least one collection with a non-empty heap")
    broken = None
    # 1+2 translator, proofs, gates
    pr09, pr10, tinfo = proof_stages()
    if pr09 is None:
        broken = {"kind": "translator", "detail": tinfo}
        run.cov.update({"obligations": 0, "discharged": 0, "checker_cmd": "tools/gen_c09.py", "trusted_base": TRUSTED})
    else:
        run.set_proof(pr09, TRUSTED)
        run.cov["translator"] = tinfo
        run.cov["theorems_C10gc"] = pr10["theorems"]
        run.cov["print_assumptions_C10gc"] = {t: (a if a else ["Closed under the global context"]) for t, a in pr10["axioms"].items()}
        run.cov["obligations"] = pr09["obligations"] + pr10["obligations"]
        run.cov["discharged"] = pr09["discharged"] + pr10["discharged"]
        if not pr09["ok"]:
            broken = pr09["broken"]
        elif not pr10["ok"]:
            broken = pr10["broken"]
    # 3 harness + model driver
    ok, paths, blog = vlib.harness_build(["gcops"])
    if not ok:
        if re.search(r"^error", blog, re.M):
            run.violation({"kind": "correspondence-broken", "obligation": "harness `gcops` no longer compiles against /repo", "log": blog[-3000:]},
                          found_input=False)
            return run.finish()
        vlib.infra_error(PROP, "harness build failed: " + blog[-400:])
    gcops = paths["gcops"]
    driver, derr = build_driver()
    if driver is None:
        if broken is None:
            vlib.infra_error(PROP, "model driver build failed: " + derr[-400:])
        run.violation({"kind": "proof-broken", "obligation": "coq/C09 no longer compiles; the model could not be extracted", "detail": broken},
                      found_input=False)
        return run.finish()
    sizes = calibrate(gcops)
    run.cov["box_sizes"] = {"node": sizes[0], "map": sizes[1], "eph_unit": sizes[2], "eph_gc": sizes[3]}
    stats = {}
    all_mism, all_viol = [], []

    def batch(text, label, oracle=True, max_poison=None):
        hists = split_histories(text)
        mb = model_blocks(model_run(driver, sizes, text))
        if len(mb) != len(hists):
            raise RuntimeError("model answered %d histories of %d" % (len(mb), len(hists)))
        st = {}
        mism, viol = compare_batch(gcops, hists, mb, st, oracle=oracle, max_poison=max_poison, rng=run.rng)
        for k, v in st.items():
            if isinstance(v, int):
                stats[label + "_" + k] = stats.get(label + "_" + k, 0) + v
            else:
                stats.setdefault(label + "_" + k, v)
        for h in hists:
            run.count(tuple(h), nontrivial=("gc" in h))
        return hists, mb, mism, viol

    # 4a corpus
    cdir = os.path.join(vlib.CORPUS, "C09")
    if os.path.isdir(cdir):
        for f in sorted(os.listdir(cdir)):
            if f.endswith(".ops"):
                text = open(os.path.join(cdir, f)).read()
                if not text.rstrip().endswith("reset"):
                    text = text.rstrip() + "\nreset\n"
                _, _, mism, viol = batch(text, "corpus")
                all_mism += mism
                all_viol += viol
    # 4b targeted family: a weak cell reachable only through another ephemeron's value, inner allocated before / after
    #    the outer (gen/c09_family.py) - the shape that needs the pending-ephemeron fix-point and that the bounded
    #    universe (<= 2 ephemeron boxes) cannot contain
    import c09_family
    tf = time.time()
    fam = c09_family.family()
    _, _, mism, viol = batch("".join("\n".join(h) + "\nreset\n" for h in fam), "family")
    all_mism += mism
    all_viol += viol
    stats["family_wall_s"] = round(time.time() - tf, 1)
    run.sample({"family_history": fam[0]})

    def new_failure():
        """A failure outside the known class has been found: the remaining (less discriminating, longer) phases are skipped."""
        if all_mism:
            return True
        return any(classify(ops, v[0], got) is None for ops, v, got in all_viol)
    # 4c random
    rand_hists = []
    if not new_failure():
        t1 = time.time()
        plans = ([("nores", 64, 400, 24), ("res", 16, 300, 16), ("nores", 4, 5000, 200)] if run.quick else
                 [("nores", 600, 600, 30), ("res", 300, 400, 20), ("nores", 40, 5000, 200), ("nores", 200, 1500, 80), ("res", 100, 1500, 60)])
        gen_jobs = []
        for prof, count, nops, maxbox in plans:
            per = max(1, count // 8)
            for j in range(0, count, per):
                gen_jobs.append((prof, min(per, count - j), nops, maxbox, run.rng.getrandbits(30)))

        dist = {}
        with ProcessPoolExecutor(max_workers=vlib.NCPU) as ex:
            for hists, mism, viol, st, job in ex.map(random_job, [j + (driver, gcops, sizes) for j in gen_jobs]):
                all_mism += mism
                all_viol += viol
                rand_hists += hists
                for k, v in st.items():
                    if isinstance(v, int):
                        stats["random_" + k] = stats.get("random_" + k, 0) + v
                for h in hists:
                    run.count(tuple(h), nontrivial=("gc" in h))
                    for o in h:
                        w = o.split()[0]
                        dist[w] = dist.get(w, 0) + 1
        stats["random_wall_s"] = round(time.time() - t1, 1)
        stats["random_op_distribution"] = dict(sorted(dist.items(), key=lambda kv: -kv[1]))
        stats["random_longest_history"] = max((len(h) for h in rand_hists), default=0)
        if rand_hists:
            run.sample({"history_prefix": rand_hists[0][:25]})
    # 4d exhaustive
    enum_plans = []
    if not new_failure():
        #   memoised ("enumg") = a branch is pruned when the same model state was already expanded with at least the
        #   remaining depth; every explored transition still occurs in some history (the state-space frontier)
        #   quick:    every sequence of <= 4 valid operations (no pruning) + the memoised frontier at <= 5, finalizer kinds {0,1}
        #   thorough: every sequence of <= 5 (no pruning, kinds {0,1}); memoised <= 7 with plain finalizers and <= 6 with kinds {0,1}
        if run.quick:
            enum_plans = [("enum", 4, "0,1", vlib.NCPU), ("enumg", 5, "0,1", vlib.NCPU)]
        else:
            enum_plans = [("enum", 5, "0,1", 2 * vlib.NCPU), ("enumg", 7, "0", 2 * vlib.NCPU), ("enumg", 6, "0,1", 2 * vlib.NCPU)]
        t0 = time.time()
        enum_jobs = []
        for mode, depth, fins, shards in enum_plans:
            for i in range(shards):
                enum_jobs.append((mode, depth, fins, i, shards, run.rng.getrandbits(30), driver, gcops, sizes, 40 if run.quick else 150))
        enum_info = []
        ex_hist = 0
        with ProcessPoolExecutor(max_workers=vlib.NCPU) as ex:
            for (mism, viol, st, err, n), job in zip(ex.map(enum_shard, enum_jobs), enum_jobs):
                all_mism += mism
                all_viol += viol
                enum_info.append(err.strip())
                for k, v in st.items():
                    if isinstance(v, int):
                        stats["exhaustive_" + k] = stats.get("exhaustive_" + k, 0) + v
                    else:
                        stats.setdefault("exhaustive_" + k, v)
                ex_hist += n
                run.cov["evaluations"] += n
                # the enumerated histories are pairwise distinct by construction; non-trivial = contains a collection
                run._distinct.update(("ex", job[0], job[1], job[2], job[3], j) for j in range(st.get("nontrivial", 0)))
        stats["exhaustive_plans"] = [{"mode": m, "depth": d, "finalizer_kinds": f, "shards": sh} for m, d, f, sh in enum_plans]
        stats["exhaustive_enum"] = enum_info[:2] + enum_info[-2:]
        stats["exhaustive_wall_s"] = round(time.time() - t0, 1)
    # 5 C10 collector level on the implementation
    sched_bad = []
    if not new_failure():
        t2 = time.time()
        sched_bad = schedule_check(run, gcops, [h for h in rand_hists if len(h) <= 700][: (60 if run.quick else 400)], stats)
        stats["schedule_wall_s"] = round(time.time() - t2, 1)
    stats["later_phases_skipped_after_failure"] = new_failure()
    run.cov["stats"] = stats
    run.cov["programs"] = 0
    # verdicts
    reported = set()
    stats["violating_histories"] = len(all_viol)
    stats["violating_histories_known_class"] = 0
    for ops, v, got in all_viol:
        cls = classify(ops, v[0], got)
        if cls:
            stats["violating_histories_known_class"] += 1
        key = cls if cls else (None, v[1])
        if key in reported:
            continue
        reported.add(key)
        small = shrink(ops[: v[0] + 1], fails_oracle(gcops, v[1], cls))
        if cls != KNOWN_CLASS:       # the witness of the known class is already in the corpus
            save_corpus(small, "oracle-" + v[1])
        io = impl_run(gcops, "\n".join(small) + "\nreset\nquit\n")[0].split("\n")[:-1]
        run.violation({"kind": "counterexample", "class": cls, "oracle": v[1], "detail": v[2], "ops": small, "original_length": len(ops),
                       "impl_output": io,
                       "how_to_rerun": "printf '%s\\nreset\\n' | harness/target/debug/gcops" % "\\n".join(small)})
    for sb in sched_bad[:3]:
        run.violation({"kind": "counterexample", "class": None, "oracle": "schedule-independence", "detail": sb,
                       "ops": sb["ops"], "how_to_rerun": "./check replay <this file>"})
    seen_m = 0
    stats["mismatching_histories"] = len(all_mism)
    for m in all_mism:
        ops = m.ops[: m.index + 1]
        lines = impl_run(gcops, "\n".join(ops) + "\nquit\n")[0].split("\n")[:-1]
        cls = classify(ops, m.index, lines)
        key = cls if cls else (None, "corr", seen_m)
        if key in reported or seen_m >= 3:
            continue
        reported.add(key)
        seen_m += 1
        fc = fails_correspondence(gcops, driver, sizes)

        def still(c, cls=cls, fc=fc):
            if not fc(c):
                return False
            ls = impl_run(gcops, "\n".join(c) + "\nquit\n")[0].split("\n")[:-1]
            return classify(c, len(c) - 1, ls) == cls
        small = shrink(ops, still)
        save_corpus(small, "corr")
        mb = model_blocks(model_run(driver, sizes, "\n".join(small) + "\nreset\n"))
        io, _ = impl_run(gcops, "\n".join(small) + "\nquit\n")
        run.violation({"kind": "correspondence-broken", "class": cls,
                       "obligation": "coq/C09/GcModel.v (extracted) vs boa_gc through harness gcops",
                       "ops": small, "model_output": mb[0].split("\n") if mb else [], "impl_output": io.split("\n")[:-1],
                       "first_difference": m.obj(), "how_to_rerun": "./check replay <this file>"}, found_input=True)
    if broken is not None and not all_viol and not all_mism and not sched_bad:
        run.violation({"kind": "proof-broken", "obligation": "coq/C09/Props_C09.v / Props_C10gc.v", "detail": broken,
                       "search": "exhaustive %r + %d random histories + schedule runs found no failing input" % (enum_plans, len(rand_hists))},
                      found_input=False)
    elif broken is not None:
        run.notes.append({"proof_broken": broken})
    run.assumptions = TRUSTED
    return run.finish()


def main():
    try:
        return _main()
    except (subprocess.TimeoutExpired, OSError, RuntimeError) as e:
        # a tool timed out / crashed (machine overload, missing binary): infrastructure, not a verdict
        vlib.infra_error(PROP, "%s: %s" % (type(e).__name__, str(e)[:300]))


def save_corpus(ops, tag):
    import hashlib
    d = os.path.join(vlib.CORPUS, "C09")
    os.makedirs(d, exist_ok=True)
    h = hashlib.sha1("\n".join(ops).encode()).hexdigest()[:10]
    p = os.path.join(d, "%s-%s.ops" % (tag, h))
    if not os.path.exists(p):
        with open(p, "w") as f:
            f.write("\n".join(ops) + "\nreset\n")


def replay(obj):
    """Re-run the operation history of a replay file on the implementation (and on the model): prints both outputs,
    the oracle's verdict and the class; exit code 1 if the failure reproduces."""
    ok, paths, _ = vlib.harness_build(["gcops"])
    driver, _ = build_driver()
    ops = obj.get("ops", [])
    sizes = calibrate(paths["gcops"])
    text = "\n".join(ops) + "\nreset\n"
    out, rc = impl_run(paths["gcops"], text + "quit\n")
    lines = out.split("\n")[:-1]
    print("implementation (exit %d):" % rc)
    print(out)
    bad = False
    if driver:
        mb = model_blocks(model_run(driver, sizes, text))
        print("model:")
        print(mb[0] if mb else "<none>")
        st = {}
        mism, _ = compare_batch(paths["gcops"], [ops], mb, st, oracle=False)
        if mism:
            print("model/implementation mismatch:", mism[0].obj())
            bad = True
    v = c09_oracle.check_history(ops, lines)
    print("oracle:", v)
    if v:
        print("class:", classify(ops, v[0], lines))
        bad = True
    return 1 if bad else 0
