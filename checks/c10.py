"""C10 — garbage collection is unobservable to scripts and leaves nothing behind.

Proof: coq/C09/Props_C10gc.v (collector level, over the C09 model of boa_gc: a collection changes nothing that is
reachable from a live handle, observations through held handles are independent of where collections are placed, and
dropping every handle then collecting empties the heap).  Those theorems are about the *collector*; whether each of
the engine's hand-written Trace impls reports all of its edges is outside any model smaller than the engine, so that
part is decided by running the engine and is labelled search.

Tie / search (implementation alone, the property's own oracle): a program is run with no collection at all
(`nogc=1`: the host functions gc()/gcstress() are no-ops and the stress schedule is off) and under collection
schedules — a forced full collection at every k-th allocation for k in {1,2,3,7,64}, explicit gc() calls placed at
random points by the generator, and (thorough) the schedule already active while the context builds its intrinsics.
Everything printed except weak observations must be identical; weak observations (`W:<tag>:live|dead`,
`F:<held>`) must be sound: never `dead` / finalised for a target the program still holds (tags `S…`), every
registration reported at most once.  After the context is dropped and a collection ran, the collector's box,
ephemeron and weak-map counts must be back where they were before the context was created.
"""
import glob
import json
import os
import re
import subprocess
from concurrent.futures import ThreadPoolExecutor

import vlib
from vlib import Run, log

import c10_gen

PROP = "C10"
TRUSTED = [
    "Coq 8.16.1 kernel + vm_compute (no native_compute)",
    "coq/C09/GcModel.v: hand-written model of core/gc (tied to the code by the C09 correspondence, not by this check)",
    "boa_gc::verif hook (cfg boa_verif): stress schedule in Allocator::manage_state, heap statistics",
    "harness/src/bin/gcjs.rs (host functions gc/gcstress, leak accounting after a warm-up context, catch_unwind), gen/c10_gen.py, this driver",
    "completeness of the engine's ~120 hand-written Trace impls is NOT modelled: decided only on the programs run (search)",
]
SCHEDULES = [1, 2, 3, 7, 64]


def esc(text):
    return json.dumps(text)[1:-1]


def run_batch(binpath, cfg, progs, timeout):
    """progs: list of (id, text).  Returns {id: fields}; ids missing from the output died with the process."""
    inp = "cfg %s\n" % cfg + "".join("run %s %s\n" % (i, esc(t)) for i, t in progs)
    try:
        p = subprocess.run([binpath], input=inp, stdout=subprocess.PIPE, stderr=subprocess.PIPE, text=True, timeout=timeout)
        out, rc = p.stdout, p.returncode
    except subprocess.TimeoutExpired as ex:
        out = ex.stdout.decode("utf8", "replace") if isinstance(ex.stdout, bytes) else (ex.stdout or "")
        rc = 124
    res = {}
    for line in out.split("\n"):
        f = line.split("\t")
        if len(f) >= 6:
            res[f[0]] = f
    return res, rc


def run_sharded(binpath, cfg, progs, timeout, shards):
    shards = max(1, min(shards, len(progs)))
    parts = [progs[i::shards] for i in range(shards)]
    res, dead = {}, []
    with ThreadPoolExecutor(max_workers=shards) as ex:
        for part, (r, rc) in zip(parts, ex.map(lambda pt: run_batch(binpath, cfg, pt, timeout), parts)):
            res.update(r)
            missing = [i for i, _ in part if i not in r]
            if missing:
                # the process died (abort / stack overflow / timeout) at the first missing case; re-run the others singly
                dead.append((missing[0], rc))
                for i, t in part:
                    if i in missing[1:]:
                        r2, rc2 = run_batch(binpath, cfg, [(i, t)], timeout)
                        if i in r2:
                            res[i] = r2[i]
                        else:
                            dead.append((i, rc2))
    return res, dead


def split_trace(tr):
    lines = json.loads(tr)
    isweak = lambda x: x.startswith("W:") or x.startswith("F:") or x.startswith("F!:")
    weak = [x for x in lines if isweak(x)]
    rest = [x for x in lines if not isweak(x)]
    return rest, weak


def weak_unsound(weak):
    """Weak observations that the property forbids."""
    bad = []
    seen = {}
    for w in weak:
        if w.startswith("W:S") and w.endswith(":dead"):
            bad.append("weak reference to a strongly held target reported dead: " + w)
        if w.startswith("F:") and not w.startswith("F!:"):
            seen[w] = seen.get(w, 0) + 1
            if w.startswith("F:S"):
                bad.append("finalization callback for a strongly held target: " + w)
    for w, n in seen.items():
        if n > 1:
            bad.append("finalization callback ran %d times for one registration: %s" % (n, w))
    return bad


def classify(kind, detail):
    """Stable class of a failure, computed from the failure itself."""
    if kind == "panic":
        m = re.search(r"([a-z_/]+\.rs)", detail)
        return "panic-" + (m.group(1).replace("/", "-") if m else "unknown")
    return None


def main():
    run = Run(PROP, "proof")
    quick = run.quick
    run.cov["rule"] = ("a case = (program, schedule); programs are random nestings of 24 scenario templates (closures, suspended generators, "
                       "promise chains/async, classes with field initialisers, Map/Set mutation during iteration, bound functions/arguments, "
                       "template objects, array callbacks, ropes/slices, JSON reviver/replacer, proxies, destructuring with iterator close, "
                       "typed arrays, error causes, accessors, WeakRef/WeakMap/FinalizationRegistry, eval/Function, async generators, regexps, "
                       "with, spread, sort comparators, symbol keys, labelled loops/switch closures) with gc() calls at random points; schedules: "
                       "collection at every k-th allocation, k in {1,2,3,7,64}; distinct = distinct (program text, schedule); non-trivial = the "
                       "run performed at least one collection while the program was running")
    broken = None
    # 1-3: collector-level theorems (model regenerated header included)
    import gen_c09
    try:
        text, _ = gen_c09.generate(vlib.REPO)
        vlib.write_if_changed(os.path.join(vlib.COQ, "Gen", "GcHeader.v"), text)
    except Exception as e:
        broken = {"kind": "translator", "detail": {"error": "%s: %s" % (type(e).__name__, e)}}
    if broken is None:
        pr = vlib.proof_stage(PROP, ["Common", "C09", "Gen"], "C09/Props_C10gc.v")
        run.set_proof(pr, TRUSTED)
        if not pr["ok"]:
            broken = pr["broken"]
    else:
        run.cov.update({"obligations": 0, "discharged": 0, "checker_cmd": "tools/gen_c09.py", "trusted_base": TRUSTED})
    # 4: harness
    ok, paths, blog = vlib.harness_build(["gcjs"])
    if not ok:
        if re.search(r"^error", blog, re.M):
            run.violation({"kind": "correspondence-broken", "obligation": "harness `gcjs` no longer compiles against /repo", "log": blog[-3000:]},
                          found_input=False)
            return run.finish()
        vlib.infra_error(PROP, "harness build failed: " + blog[-400:])
    binp = paths["gcjs"]
    enlarged = (not quick) or broken is not None
    # 5: programs
    progs = []
    for f in sorted(glob.glob(os.path.join(vlib.CORPUS, PROP, "*.js"))):
        progs.append(("c" + os.path.basename(f)[:-3], open(f).read()))
    ncorpus = len(progs)
    ngen = 90 if quick else 1200
    if broken is not None:
        ngen *= 3
    feats = {}
    sizes = []
    for i in range(ngen):
        size = run.rng.choice([2, 4, 6, 9]) if not quick else run.rng.choice([2, 4, 6])
        text, ft = c10_gen.gen_program(run.rng, size=size, depth=run.rng.choice([1, 2, 3]))
        progs.append(("g%d" % i, text))
        sizes.append(len(text))
        for k, v in ft.items():
            feats[k] = feats.get(k, 0) + v
    # FinalizationRegistry clean-up callbacks that throw (stand-alone programs; see gen_fr_throw_program)
    for i in range(16 if quick else 120):
        text, ft = c10_gen.gen_fr_throw_program(run.rng)
        progs.append(("f%d" % i, text))
        for k, v in ft.items():
            feats[k] = feats.get(k, 0) + v
    # second stream: programs of the shared C01 grammar (preset C10: closures, generators, classes, destructuring,
    # exceptions ...), so that the core-language lowering is exercised under collection schedules too
    nprogen = 0
    try:
        import progen
        import jsast
        for i in range(40 if quick else 500):
            pr = progen.gen_program(run.rng, preset="C10", size=run.rng.choice([20, 40, 60]))
            if pr.get("meta", {}).get("early_error"):
                continue
            progs.append(("p%d" % i, jsast.to_js(pr)))
            nprogen += 1
    except Exception as e:   # the shared generator is optional for this check
        run.notes.append({"progen_stream_skipped": "%s: %s" % (type(e).__name__, e)})
    run.cov["input_distribution"] = {"corpus_programs": ncorpus, "generated_programs": ngen, "progen_programs": nprogen, "scenario_uses": feats,
                                     "text_bytes_min_median_max": [min(sizes), sorted(sizes)[len(sizes) // 2], max(sizes)] if sizes else []}
    texts = dict(progs)
    tmo = 600 if quick else 3000
    base, dead0 = run_sharded(binp, "gc=0 nogc=1 init=0", progs, tmo, vlib.NCPU)
    failures = []   # (class, replay dict)

    def fail(kind, pid, sched, detail, extra=None):
        obj = {"kind": "counterexample", "class": classify(kind, detail), "what": kind, "program_id": pid, "schedule": sched,
               "input": texts.get(pid, ""), "detail": detail,
               "how_to_rerun": "printf 'cfg %s\\nrun x %%s\\n' \"$(python3 -c 'import json,sys;print(json.dumps(open(sys.argv[1]).read())[1:-1])' prog.js)\" | harness/target/debug/gcjs" % sched}
        if extra:
            obj.update(extra)
        failures.append(obj)

    for pid, rc in dead0:
        fail("process-died", pid, "gc=0 nogc=1", "harness process ended (exit %s) while running this program without any collection" % rc)
    usable = []
    for pid, _ in progs:
        b = base.get(pid)
        if b is None:
            continue
        if b[1] != "ok":
            fail("panic", pid, "gc=0 nogc=1", b[3])
            continue
        if b[4] != "0,0,0":
            fail("leak", pid, "gc=0 nogc=1", "boxes,ephemerons,weakmaps left after drop+collect: " + b[4])
        usable.append(pid)
    # schedules
    plan = {}
    for pid in usable:
        if enlarged:
            ks = SCHEDULES
        else:
            ks = [1] + run.rng.sample(SCHEDULES[1:], 1)
        for k in ks:
            plan.setdefault(k, []).append((pid, texts[pid]))
    weak_stats = {"live": 0, "dead": 0, "finalized": 0}
    nontrivial = 0
    for k in sorted(plan):
        cfg = "gc=%d nogc=0 init=0" % k
        res, dead = run_sharded(binp, cfg, plan[k], tmo, vlib.NCPU)
        for pid, rc in dead:
            fail("process-died", pid, cfg, "harness process ended (exit %s) under this schedule; it survives the run without collections" % rc)
        for pid, _ in plan[k]:
            r = res.get(pid)
            if r is None:
                continue
            b = base[pid]
            cols = int(r[5]) if r[5].isdigit() else 0
            run.count((pid if pid[0] == "c" else texts[pid], k), nontrivial=cols > 0)
            if r[1] != "ok":
                fail("panic", pid, cfg, r[3], {"baseline_completion": b[3]})
                continue
            rest, weak = split_trace(r[2])
            brest, bweak = split_trace(b[2])
            if rest != brest or r[3] != b[3]:
                d = next((i for i, (x, y) in enumerate(zip(rest, brest)) if x != y), min(len(rest), len(brest)))
                fail("trace-differs", pid, cfg, "first differing line %d: with collections %r / without %r; completion %s / %s" % (
                    d, rest[d] if d < len(rest) else None, brest[d] if d < len(brest) else None, r[3], b[3]))
            for w in weak_unsound(weak):
                fail("weak-observation-unsound", pid, cfg, w)
            for w in weak_unsound(bweak):
                fail("weak-observation-unsound", pid, "gc=0 nogc=1", w)
            for w in weak:
                if w.endswith(":live"):
                    weak_stats["live"] += 1
                elif w.endswith(":dead"):
                    weak_stats["dead"] += 1
                else:
                    weak_stats["finalized"] += 1
            if r[4] != "0,0,0":
                fail("leak", pid, cfg, "boxes,ephemerons,weakmaps left after drop+collect: " + r[4])
            if len(run.cov["samples"]) < 4 and cols > 0:
                run.sample({"program_bytes": len(texts[pid]), "schedule": cfg, "collections_during_run": cols, "trace_lines": len(rest),
                            "weak_lines": weak[:4], "completion": r[3], "leak": r[4]})
    run.cov["weak_observations"] = weak_stats
    # schedule active while the context is built (thorough / enlarged only: slow)
    if enlarged:
        sub = [(pid, texts[pid]) for pid in usable[:: max(1, len(usable) // 24)]][:24]
        for k in (1, 5):
            cfg = "gc=%d nogc=0 init=1" % k
            res, dead = run_sharded(binp, cfg, sub, 3000, vlib.NCPU)
            for pid, rc in dead:
                fail("process-died", pid, cfg, "harness process ended (exit %s) with the schedule active during context creation" % rc)
            for pid, _ in sub:
                r = res.get(pid)
                if r is None:
                    continue
                run.count((texts[pid], k, "init"))
                b = base[pid]
                if r[1] != "ok":
                    fail("panic", pid, cfg, r[3])
                    continue
                if split_trace(r[2])[0] != split_trace(b[2])[0] or r[3] != b[3]:
                    fail("trace-differs", pid, cfg, "trace with collections during context creation differs from the run without collections")
                if r[4] != "0,0,0":
                    fail("leak", pid, cfg, "boxes,ephemerons,weakmaps left after drop+collect: " + r[4])
    # verdicts
    seen = set()
    for f in failures:
        key = (f["what"], f["class"], f["program_id"])
        if key in seen:
            continue
        seen.add(key)
        if len(seen) <= 8:
            run.violation(f)
    if broken is not None and not failures:
        run.violation({"kind": "proof-broken", "obligation": "C09/Props_C10gc.v", "detail": broken,
                       "search": "enlarged program/schedule sweep found no failing input"}, found_input=False)
    elif broken is not None:
        run.notes.append({"proof_broken": broken})
    run.assumptions = TRUSTED
    return run.finish()


def replay(obj):
    ok, paths, _ = vlib.harness_build(["gcjs"])
    sched = obj.get("schedule", "gc=1")
    for cfg in ("gc=0 nogc=1 init=0", sched):
        res, rc = run_batch(paths["gcjs"], cfg, [("x", obj.get("input", ""))], 600)
        print(cfg, "->", "\t".join(res.get("x", ["<no output, exit %s>" % rc])))
    return 0
