"""C13 — Number <-> text conversions are exact.

Proof   : coq/C13/Props_C13.v — theorems about the executable specification functions of coq/C13/Model_C13.v
          (ECMA-262 Number::toString, StringToNumber, toFixed/toExponential/toPrecision, parseInt over exact integers)
          and refutation witnesses for boa's hand-written digit algorithms (coq/C13/Code_C13.v).
Tie     : the same definitions extracted with ExtrOcamlBasic (ocaml/C13/_build/numdrv, built by ocaml/C13/build.sh) and the
          engine (harness `numops`: String(x), x.toString(r), toFixed/toExponential/toPrecision, Number(s), parseFloat,
          parseInt, source literals through five evaluation paths, JSON.parse) run on the same generated lines; every
          answer is compared after canonicalisation (strings as code units, numbers as bit patterns, error class).
          A second, independent transliteration of the same clauses (gen/c13_oracle.py, Python integers) is run on every
          case too: a disagreement between the two specifications is a defect of this machinery, logged, never an alarm.
Search  : the property's own oracle on the implementation alone: round trips Number(String(x)) / parseFloat / eval for
          structured + random doubles, parseInt(x.toString(r), r) for safe integers in every radix (inside the harness),
          and exact-arithmetic acceptance of toFixed / toExponential / toPrecision / toString(radix) outputs (Python).
Known deviations get a class label computed from the failing case (see `classify`).
"""
import collections
import os
import re
import subprocess
import sys
import time
from concurrent.futures import ThreadPoolExecutor

import vlib
from vlib import Run, log

sys.path.insert(0, os.path.join(vlib.VERIF, "gen"))
import c13_gen as G          # noqa: E402
import c13_oracle as O       # noqa: E402

PROP = "C13"
MODEL_DIR = os.path.join(vlib.OCAML, "C13", "_build")
MODEL_BIN = os.path.join(MODEL_DIR, "numdrv")
TRUSTED = [
    "Coq 8.16.1 kernel + vm_compute (no native_compute); extraction with ExtrOcamlBasic only, OCaml 4.13 (ocaml/C13/numdrv.ml reader/printer)",
    "coq/C13/Model_C13.v is a hand transliteration of ECMA-262 6.1.6.1.20, 7.1.4.1.1, 21.1.3.2/.3/.5, 19.2.4/.5, 12.9.3 (+B.1.1); cross-checked on every case against gen/c13_oracle.py",
    "modelled by their specification, not verified: ryu-js (Number::toString, toFixed), fast-float2 (decimal StringToNumber, parseFloat, lexer), core::fmt float formatting, num-bigint to_f64 (lexer integers), f64 arithmetic = IEEE-754",
    "code-level theorems (*_fixed_model_eq_spec) assume of the third-party pieces only: format!(\"{n:.767e}\") / format!(\"{:.1100}\") print the decimal expansion correctly rounded (half-even) at the requested digit, BigUint::to_f64 and `u64 as f64` round to nearest-even; that 768 digits are the complete expansion is proved (double_has_768_digits)",
    "harness/src/bin/numops.rs (observation through the public API and scripts, catch_unwind), Python driver and generators",
    "V8 (node) only to withhold an alarm of unknown class when it agrees with boa against the specification model",
]

JSON_RANGE_LIMIT = 0x7FE1CCF385EBC8A0     # 1e308: serde_json (validation step of JSON.parse) rejects numbers near/over the range
MIN_BLOCK_EXP = 980      # biased exponent below which ryu-js d2fixed skips leading 9-digit blocks (|x| < 2^-43)


# ----------------------------------------------------------------------------------------------
# running the two sides

def run_lines(binpath, lines, workers, timeout=3000):
    """run the lines through `workers` processes; lines are dealt round-robin (the expensive long-string cases sit
    together in the generated order) and the answers are put back in order"""
    n = len(lines)
    if n == 0:
        return []
    w = max(1, min(workers, n))
    parts = [lines[i::w] for i in range(w)]

    def one(p):
        r = subprocess.run([binpath], input="\n".join(p) + "\n", stdout=subprocess.PIPE, stderr=subprocess.PIPE,
                           text=True, timeout=timeout, errors="replace")
        o = r.stdout.split("\n")
        if o and o[-1] == "":
            o.pop()
        if len(o) != len(p):
            o = o + ["<missing rc=%d>" % r.returncode] * (len(p) - len(o))
        return o[:len(p)]
    out = [None] * n
    with ThreadPoolExecutor(max_workers=w) as ex:
        for i, o in enumerate(ex.map(one, parts)):
            out[i::w] = o
    return out


def build_model():
    ml = os.path.join(MODEL_DIR, "numtext.ml")
    if not os.path.exists(ml):
        return False, "extraction output ocaml/C13/_build/numtext.ml missing"
    rc, out, err = vlib.sh(["sh", os.path.join(vlib.OCAML, "C13", "build.sh")], timeout=900)
    if rc != 0 or not os.path.exists(MODEL_BIN):
        return False, (out + err)[-1500:]
    return True, ""


# ----------------------------------------------------------------------------------------------
# wire helpers

def unwire(s):
    """inverse of G.wire (the \\uXXXX wire format) -> str of code units"""
    out = []
    i = 0
    while i < len(s):
        c = s[i]
        if c == "\\" and i + 1 < len(s):
            n = s[i + 1]
            if n == "u" and i + 6 <= len(s):
                out.append(chr(int(s[i + 2:i + 6], 16)))
                i += 6
                continue
            if n in "nrt":
                out.append({"n": "\n", "r": "\r", "t": "\t"}[n])
                i += 2
                continue
            if n in "\"\\":
                out.append(n)
                i += 2
                continue
        out.append(c)
        i += 1
    return "".join(out)


def show_str(s):
    """the S:"..." rendering used by both sides (bh::json_units)"""
    o = ['S:"']
    for ch in s:
        c = ord(ch)
        if c == 0x22:
            o.append('\\"')
        elif c == 0x5c:
            o.append("\\\\")
        elif 0x20 <= c <= 0x7e:
            o.append(ch)
        else:
            o.append("\\u%04x" % c)
    o.append('"')
    return "".join(o)


def show_num(b):
    return "N:nan" if b == O.NAN or (isinstance(b, int) and (b & ~O.SIGN) > O.INF) else "N:%016x" % b


def opt_arg(a):
    """digit-count / radix argument as the specification sees it after ToIntegerOrInfinity"""
    if a == "u":
        return None
    if a in ("inf", "-inf"):
        return a
    if a == "nan":
        return 0
    return int(float(a))


def to_int32(a):
    if a in ("u", "inf", "-inf", "nan"):
        return 0
    v = int(float(a)) % (1 << 32)
    return v - (1 << 32) if v >= (1 << 31) else v


# ----------------------------------------------------------------------------------------------
# the second specification (Python) — cross-check of the extracted one

def py_spec(line):
    op, _, rest = line.partition(" ")
    try:
        if op == "tostr":
            return show_str(O.to_string(int(rest, 16)))
        if op == "rt":
            b = int(rest, 16)
            r = O.string_to_number(O.to_string(b))
            return show_num(r)
        if op in ("fixed", "exp", "prec", "radix"):
            h, a = rest.split()
            b = int(h, 16)
            d = opt_arg(a)
            if op == "fixed":
                if d in ("inf", "-inf"):
                    return "T:RangeError"
                r = O.to_fixed(b, d)
            elif op == "exp":
                r = O.to_exponential(b, d)
            elif op == "prec":
                r = O.to_precision(b, d)
            else:
                d = 10 if d is None else d
                if d in ("inf", "-inf") or not (2 <= d <= 36):
                    return "T:RangeError"
                if d == 10:
                    r = O.to_string(b)
                else:
                    r = O.radix_int(b, d)
                    if r is None:
                        return "-"
            return r if r.startswith("T:") else show_str(r)
        if op == "num":
            return show_num(O.string_to_number(unwire(rest)))
        if op == "pf":
            return show_num(O.parse_float(unwire(rest)))
        if op == "pi":
            s, _, r = rest.rpartition(" ")
            v, _lat = O.parse_int(unwire(s), to_int32(r))
            return show_num(v)
        if op == "lit":
            s = unwire(rest)
            sl = O.numeric_literal(s, False)
            st = O.numeric_literal(s, True)
            f = lambda x: x if isinstance(x, str) else show_num(x)
            return " | ".join([f(sl), f(st), f(sl), f(sl), f(O.json_number(s))])
    except Exception as e:      # the oracle must never take the check down
        return "?py %s" % type(e).__name__
    return "?op"


# ----------------------------------------------------------------------------------------------
# acceptance and classification of one case

P53 = 1 << 53


def radix_value_ok(bits, r, out):
    """exact-arithmetic acceptance of x.toString(r) where ECMA-262 leaves the digits to the implementation
    (non-integers, integers above 2^53 in a radix that is not a power of two): the digit string, read back
    exactly in radix r, must round to x"""
    m = re.fullmatch(r'S:"(-?)([0-9a-z]+)(?:\.([0-9a-z]+))?"', out)
    if not m:
        return False
    neg = m.group(1) == "-"
    ip, fp = m.group(2), m.group(3) or ""
    try:
        num = int(ip + fp, r)
    except ValueError:
        return False
    den = r ** len(fp)
    got = O.round_nneg(num, den) | (O.SIGN if neg else 0)
    want = bits if (bits & ~O.SIGN) else 0
    return got == want


def exact_radix_pow2(bits, r):
    """exact (finite) expansion of a finite double in a power-of-two radix"""
    u = bits & ~O.SIGN
    a, b = O.ratio(u)
    ip, rem = divmod(a, b)
    s = G.to_radix(ip, r)
    if rem:
        s += "."
        while rem:
            rem *= r
            d, rem = divmod(rem, b)
            s += O.DIGITS[d]
    return ("-" if (bits & O.SIGN) and u else "") + s


def exact_sig(bits):
    s, e = G.exact_decimal(bits)
    return s.rstrip("0"), e


def classify(line, spec, impl):
    """class label of a deviation, computed from the case itself (never from the mere fact that it fails).
    None = not a known class."""
    op, _, rest = line.partition(" ")
    if op in ("fixed", "exp", "prec"):
        h, a = rest.split()
        bits = int(h, 16)
        u = bits & ~O.SIGN
        d = opt_arg(a)
        if not (0 < u < O.INF) or not isinstance(d, int):
            return None
        sig, e10 = exact_sig(bits)
        nsig = len(sig)
        if op == "prec" and 1 <= d <= 100 and nsig - e10 > 100:
            # the digits come from format!("{:.100}"): the value has significant digits beyond the 100th fraction digit
            return "toprecision-value-beyond-100-fraction-digits"
        if op == "exp" and 0 <= d <= 100 and nsig == d + 2 and sig[-1] == "5":
            # exact decimal tie at the requested digit: core::fmt rounds half to even, ECMA-262 picks the larger n
            return "toexponential-exact-tie"
        if op == "fixed" and 0 <= d <= 100 and (u >> 52) < MIN_BLOCK_EXP:
            return "tofixed-magnitude-below-2pow-43"
        return None
    if op == "num":
        t = O.trim(unwire(rest))
        if len(t) > 1 and t[0] in "+-" and t[1:].lower() in ("inf", "infinity") and t[1:] != "Infinity":
            return "stringtonumber-signed-inf-alias"
        if len(t) > 2 and t[0] == "0" and t[1] in "xXoObB":
            if t[2] == "+":
                return "stringtonumber-radix-prefix-plus-sign"
            base = {"x": 16, "o": 8, "b": 2}[t[1].lower()]
            try:
                if int(t[2:], base) >= P53:
                    return "stringtonumber-radix-prefix-above-2pow53"
            except ValueError:
                return None
        return None
    if op == "pi":
        s, _, r = rest.rpartition(" ")
        R = to_int32(r)
        t = O.trim(unwire(s), True, False)
        if t[:1] in ("+", "-"):
            t = t[1:]
        strip = True
        if R != 0:
            if R < 2 or R > 36:
                return None
            if R != 16:
                strip = False
        else:
            R = 10
        if strip and t[:2] in ("0x", "0X"):
            t = t[2:]
            R = 16
        z = ""
        for ch in t:
            dv = O.DIGITS.find(ch.lower()) if ch.isascii() else -1
            if dv < 0 or dv >= R:
                break
            z += ch
        if not z:
            return None
        # from_js_str_radix: exact u64 path only for radix <= 16 and at most 16 digits, else `result * radix + digit` in f64
        if (R > 16 or len(z) > 16) and int(z, R) >= P53:
            return "parseint-float-accumulation-above-2pow53"
        return None
    if op == "lit":
        s = unwire(rest)
        if re.match(r"^0[0-7]+[eE][+-]?[0-9]", s) or re.match(r"^0[bB][01_]+[eE][+-]?[0-9]", s) or re.match(r"^0[oO][0-7_]+[eE][+-]?[0-9]", s):
            # the lexer accepts an ExponentPart after a binary / octal / legacy-octal integer and reads the digits as decimal
            return "literal-non-decimal-integer-with-exponent"
        return None
    return None


def pi_latitude(line):
    """ECMA-262 parseInt step 14 leaves mathInt to the implementation for radices other than 2,4,8,10,16,32 and
    past the 20th significant decimal digit"""
    _, _, rest = line.partition(" ")
    s, _, r = rest.rpartition(" ")
    _, lat = O.parse_int(unwire(s), to_int32(r))
    return lat


def exp_undefined_ok(line, spec, impl):
    """x.toExponential(undefined): any n with the minimal number of digits whose decimal rounds to x is allowed"""
    ms = re.fullmatch(r'S:"(-?)(\d)(?:\.(\d+))?e([+-]\d+)"', spec)
    mi = re.fullmatch(r'S:"(-?)(\d)(?:\.(\d+))?e([+-]\d+)"', impl)
    if not ms or not mi or ms.group(1) != mi.group(1):
        return False
    ds, di = ms.group(2) + (ms.group(3) or ""), mi.group(2) + (mi.group(3) or "")
    if len(ds) != len(di) or di[0] == "0" or (len(di) > 1 and di[-1] == "0"):
        return False
    bits = int(line.split(" ")[1], 16)
    e = int(mi.group(4)) - (len(di) - 1)
    return O.round_nneg(*O.pow10_ratio(int(di), e)) == (bits & ~O.SIGN)


def close_bits(a, b, ulps):
    try:
        x, y = int(a[2:], 16), int(b[2:], 16)
    except ValueError:
        return False
    return (x >> 63) == (y >> 63) and abs(x - y) <= ulps


def node_says(line):
    """V8's answer for one case in the same rendering (only to withhold an alarm); None if unavailable"""
    op, _, rest = line.partition(" ")
    js = r"""
const line = process.argv[1];
function unw(s){let o='';for(let i=0;i<s.length;i++){if(s[i]==='\\'&&i+1<s.length){const n=s[i+1];
 if(n==='u'){o+=String.fromCharCode(parseInt(s.substr(i+2,4),16));i+=5;continue}
 if(n==='n'){o+='\n';i++;continue} if(n==='r'){o+='\r';i++;continue} if(n==='t'){o+='\t';i++;continue}
 if(n==='"'||n==='\\'){o+=n;i++;continue}} o+=s[i]} return o}
function S(s){let o='S:"';for(let i=0;i<s.length;i++){const c=s.charCodeAt(i);if(c===0x22)o+='\\"';else if(c===0x5c)o+='\\\\';
 else if(c>=0x20&&c<=0x7e)o+=s[i];else o+='\\u'+c.toString(16).padStart(4,'0')}return o+'"'}
function N(x){if(typeof x!=='number')return '?:'+typeof x;if(x!==x)return 'N:nan';const b=new BigUint64Array(new Float64Array([x]).buffer)[0];return 'N:'+b.toString(16).padStart(16,'0')}
function D(h){return new Float64Array(new BigUint64Array([BigInt('0x'+h)]).buffer)[0]}
function A(a){return a==='u'?undefined:a==='inf'?Infinity:a==='-inf'?-Infinity:a==='nan'?NaN:Number(a)}
function G(f){try{return f()}catch(e){return 'T:'+e.constructor.name}}
const sp=line.indexOf(' ');const op=line.slice(0,sp);const rest=line.slice(sp+1);
let r;
if(op==='tostr')r=G(()=>S(String(D(rest))));
else if(op==='rt')r=G(()=>N(Number(String(D(rest)))));
else if(op==='fixed'||op==='exp'||op==='prec'||op==='radix'){const [h,a]=rest.split(' ');const x=D(h);
 r=G(()=>S(op==='fixed'?x.toFixed(A(a)):op==='exp'?x.toExponential(A(a)):op==='prec'?x.toPrecision(A(a)):x.toString(A(a))))}
else if(op==='num')r=G(()=>N(Number(unw(rest))));
else if(op==='pf')r=G(()=>N(parseFloat(unw(rest))));
else if(op==='pi'){const i=rest.lastIndexOf(' ');r=G(()=>N(parseInt(unw(rest.slice(0,i)),A(rest.slice(i+1)))))}
else if(op==='lit'){const s=unw(rest);const E=(f)=>{try{return N(f())}catch(e){return 'T:'+e.constructor.name}};
 r=[E(()=>(0,eval)('('+s+')')),E(()=>(0,eval)('"use strict"; ('+s+')')),E(()=>eval('('+s+')')),E(()=>new Function('return ('+s+')')()),E(()=>JSON.parse(s))].join(' | ')}
console.log(r);
"""
    try:
        p = subprocess.run(["node", "-e", js, line], stdout=subprocess.PIPE, stderr=subprocess.PIPE, text=True, timeout=20)
        if p.returncode != 0:
            return None
        return p.stdout.strip()
    except Exception:
        return None


# ----------------------------------------------------------------------------------------------
# case generation

def gen_cases(run, thorough):
    rng = run.rng
    if thorough:
        n_pow2, n_pow10, n_tie, n_small, n_rand, n_int = 700, 300, 800, 800, 2000, 800
        n_strd, n_mut, n_pi, n_litd, n_litmut = 800, 1500, 2000, 700, 1000
    else:
        n_pow2, n_pow10, n_tie, n_small, n_rand, n_int = 24, 16, 40, 40, 70, 40
        n_strd, n_mut, n_pi, n_litd, n_litmut = 50, 90, 150, 50, 80
    ds, tags = G.structured_doubles(rng, n_pow2, n_pow10)
    if not thorough:
        # quick tier: the 16 special patterns + a seeded sample of the structured families (all of them in thorough)
        idx = list(range(16)) + sorted(rng.sample(range(16, len(ds)), 200))
        ds, tags = [ds[i] for i in idx], [tags[i] for i in idx]
    fam = collections.Counter(tags)
    extra = [("tie", G.tie_doubles(rng, n_tie)), ("short-decimal", G.small_decimal_doubles(rng, n_small)),
             ("random-bits", G.random_doubles(rng, n_rand)), ("integer", G.int_doubles(rng, n_int))]
    for t, l in extra:
        ds += l
        fam[t] += len(l)
    lines = []
    meta = []
    for b in ds:
        u = b & ~O.SIGN
        huge = O.INF > u > (0x46 << 56)     # above ~2^100: the extracted radix model walks the whole exponent, keep few
        for op, l in G.double_ops(rng, b, thorough and rng.random() < 0.15):
            if op == "radix" and huge and rng.random() < 0.8:
                continue
            lines.append(l)
            meta.append("double")
    strs = G.number_strings(rng, rng.sample(ds, min(n_strd, len(ds))), n_mut)
    sfam = collections.Counter()
    for k, t in strs:
        w = G.wire(t)
        lines.append("num " + w)
        meta.append(k)
        lines.append("pf " + w)
        meta.append(k)
        sfam[k] += 1
    for s, r in G.parse_int_cases(rng, n_pi):
        lines.append("pi %s %s" % (G.wire(s), r))
        meta.append("parseint")
    lfam = collections.Counter()
    for k, t in G.literal_cases(rng, rng.sample(ds, min(n_litd, len(ds))), n_litmut):
        lines.append("lit " + G.wire(t))
        meta.append(k)
        lfam[k] += 1
    dist = {"doubles_by_family": dict(fam), "number_strings_by_stream": dict(sfam), "literals_by_stream": dict(lfam),
            "lines_by_op": dict(collections.Counter(l.split(" ", 1)[0] for l in lines))}
    return lines, meta, dist


def corpus_lines():
    d = os.path.join(vlib.CORPUS, PROP)
    out = []
    if os.path.isdir(d):
        for f in sorted(os.listdir(d)):
            if f.endswith(".txt"):
                for l in open(os.path.join(d, f), encoding="utf8"):
                    l = l.rstrip("\n")
                    if l and not l.startswith("#"):
                        out.append(l)
    return out


# ----------------------------------------------------------------------------------------------
# judging

def split_model(m):
    if "\t" in m:
        a, b = m.split("\t", 1)
        return a, b
    return m, "-"


def judge(line, spec, impl):
    """-> ('ok'|'open'|'latitude'|'discard'|'deviation', detail)"""
    op = line.split(" ", 1)[0]
    if impl.startswith("P:") or impl.startswith("<missing"):
        return "deviation", "panic"
    if op == "lit":
        sp = spec.split(" | ")
        im = impl.split(" | ")
        if len(sp) != 5 or len(im) != 5:
            return "discard", "shape"
        # the JSON path: out-of-range numbers are rejected by serde_json (C18's finding, DESIGN section 5 #19): not judged here
        res = "ok"
        for k in range(5):
            a, b = sp[k], im[k]
            if not (b.startswith("N:") or b == "T:SyntaxError"):
                return "discard", "not-a-literal"
            if k == 4 and b == "T:SyntaxError" and a.startswith("N:") and a != "N:nan" and (int(a[2:], 16) & ~O.SIGN) >= JSON_RANGE_LIMIT:
                continue
            if a != b:
                res = "deviation"
        return res, ""
    if op == "radix":
        h, a = line.split(" ")[1:3]
        bits = int(h, 16)
        u = bits & ~O.SIGN
        d = opt_arg(a)
        r = 10 if d is None else d
        if spec != "-" and (spec.startswith("T:") or r == 10 or u >= O.INF or u == 0):
            return ("ok", "") if spec == impl else ("deviation", "")
        if not isinstance(r, int) or not (2 <= r <= 36):
            return ("ok", "") if spec == impl else ("deviation", "")
        iv = O.ratio(u)
        is_int = iv[0] % iv[1] == 0
        exact_required = is_int and (iv[0] // iv[1] <= P53 or r in (2, 4, 8, 16, 32))
        if exact_required:
            return ("ok", "") if spec == impl else ("deviation", "")
        if r in (2, 4, 8, 16, 32):
            # every f64 operation of the digit loop is exact for a power-of-two radix: the finite exact expansion is expected
            want = show_str(exact_radix_pow2(bits, r))
            return ("ok", "") if want == impl else ("deviation", "")
        return ("open", "") if radix_value_ok(bits, r, impl) else ("open-noroundtrip", "")
    if spec == "-":
        return "open", ""
    if spec == impl:
        return "ok", ""
    if op == "exp" and line.endswith(" u") and exp_undefined_ok(line, spec, impl):
        # toExponential(undefined): "the least significant digit of n is not necessarily uniquely determined" (21.1.3.2 step 10.b note)
        return "latitude", "toexponential-undefined-last-digit"
    if op == "pi":
        lat = pi_latitude(line)
        if lat is not None:
            if lat[1] is not None and impl == show_num(lat[1]):
                return "latitude", lat[0]
            if lat[0] == "odd-radix-approximated" and close_bits(spec, impl, 1 << 12):
                return "latitude", lat[0]
    return "deviation", ""


def main():
    run = Run(PROP, "proof")
    thorough = not run.quick
    run.cov["rule"] = ("one case = one protocol line (operation + double bit pattern / string + digit count or radix); generated from "
                       "structured doubles (powers of 2 and 10 +-ulp, subnormals, 2^53 neighbourhood, notation thresholds, dyadic ties, "
                       "short decimals, integers, uniform-over-bits), digit counts placed at the end of the exact decimal expansion "
                       "(exact ties) + random 0..100 + out-of-range, radices 2..36, number strings spelled from the doubles (exponent forms, "
                       "leading/trailing zeros, whitespace), exact midpoints between adjacent doubles with tie-breaking tails, an edge list "
                       "and mutations (malformed stream); distinct = distinct line; non-trivial = the specification fixes the answer and it "
                       "is not a RangeError/NaN-by-argument case")
    os.makedirs(MODEL_DIR, exist_ok=True)
    broken = None
    # 1-2. proofs + gates (+ extraction)
    pr = vlib.proof_stage(PROP, ["Common", "C13"], "C13/Props_C13.v", extra_targets=["C13/Extract_C13.vo"])
    run.set_proof(pr, TRUSTED)
    if not pr["ok"]:
        broken = pr["broken"]
    model_ok = False
    if broken is None or os.path.exists(os.path.join(MODEL_DIR, "numtext.ml")):
        model_ok, mlog = build_model()
        if not model_ok and broken is None:
            broken = {"kind": "model-build", "detail": {"error": mlog}}
    # 3. harness
    ok, paths, blog = vlib.harness_build(["numops"])
    if not ok:
        if re.search(r"^error", blog, re.M):
            run.violation({"kind": "correspondence-broken", "obligation": "harness `numops` no longer compiles against /repo",
                           "log": blog[-3000:]}, found_input=False)
            return run.finish()
        vlib.infra_error(PROP, "harness build failed: " + blog[-400:])
    numops = paths["numops"]
    workers = max(2, min(vlib.NCPU, 12))
    # 4. corpus, then generated cases
    corpus = corpus_lines()
    lines, meta, dist = gen_cases(run, thorough)
    lines = corpus + lines
    meta = ["corpus"] * len(corpus) + meta
    run.cov["distribution"] = dist
    t0 = time.time()
    # the code-level models of toFixed/toExponential/toPrecision expand 768 / 1100 exact digits per case: every corpus line and
    # every 8th generated line asks for them, the others ('~' prefix) for the specification answer only
    mlines = []
    for k, l in enumerate(lines):
        heavy = l.startswith(("exp ", "prec ", "fixed "))
        mlines.append("~" + l if heavy and meta[k] != "corpus" and k % 8 else l)
    try:
        with ThreadPoolExecutor(max_workers=2) as ex:
            fi = ex.submit(run_lines, numops, lines, workers)
            fm = ex.submit(run_lines, MODEL_BIN, mlines, workers) if model_ok else None
            impl = fi.result()
            model = fm.result() if fm else None
    except (subprocess.TimeoutExpired, OSError) as e:
        vlib.infra_error(PROP, "running the harness / model driver failed: %s" % e)
    run.cov["correspondence_wall_s"] = round(time.time() - t0, 1)
    stats = collections.Counter()
    deviations = collections.OrderedDict()     # class -> list of cases
    unknown = []
    spec_defects = []
    code_diffs = []
    for k, line in enumerate(lines):
        op = line.split(" ", 1)[0]
        py = py_spec(line)
        if model is not None:
            spec, code = split_model(model[k])
            if spec != py and not (op == "radix" and (spec == "-" or py == "-")):
                # two transliterations of the same clauses disagree: defect of this machinery, not of boa
                stats["spec_cross_check_mismatch"] += 1
                if len(spec_defects) < 10:
                    spec_defects.append({"line": line[:300], "coq_spec": spec[:300], "python_spec": py[:300]})
                continue
        else:
            spec, code = py, "-"
        verdict, detail = judge(line, spec, impl[k])
        trivial = spec.startswith("T:RangeError") or verdict in ("open", "discard", "open-noroundtrip")
        run.count(line, nontrivial=not trivial)
        stats[op + ":" + verdict] += 1
        if code != "-" and verdict in ("ok", "deviation"):
            agrees = code == impl[k]
            stats["code_model:" + ("agrees" if agrees else "differs")] += 1
            if not agrees and len(code_diffs) < 5:
                code_diffs.append({"line": line[:200], "code_model": code[:200], "impl": impl[k][:200], "spec": spec[:200]})
        if k % 997 == 3:
            run.sample({"line": line[:200], "spec": spec[:200], "impl": impl[k][:200], "verdict": verdict})
        if verdict == "deviation":
            cls = "panic" if detail == "panic" else classify(line, spec, impl[k])
            case = {"line": line, "spec": spec, "impl": impl[k], "code_model": code, "stream": meta[k]}
            if cls is None or cls == "panic":
                unknown.append(case)
            else:
                deviations.setdefault(cls, []).append(case)
    run.cov["verdicts"] = dict(stats)
    if code_diffs:
        # the code-level models of Deep_Code_C13.v transliterate the repaired hand-written algorithms: a difference means
        # that the code no longer is what the ..._model_eq_spec theorems are about
        run.notes.append({"code_level_model_differs_from_impl": code_diffs})
    if spec_defects:
        run.notes.append({"model_defect_spec_cross_check": spec_defects})
        log("C13: %d case(s) where the Coq and Python specifications disagree (not judged)" % stats["spec_cross_check_mismatch"])
    # 5. search: the property's own oracle on the implementation alone
    found = []
    enlarged = bool(thorough or broken or unknown or code_diffs)
    nrt = 300000 if enlarged else 12000
    nint = 150000 if enlarged else 8000
    jobs = []
    nj = 8 if enlarged else 4
    for j in range(nj):
        jobs.append("sweep-rt %d %d" % ((run.seed * 31 + j) & 0x7fffffff, nrt // nj))
        jobs.append("sweep-int %d %d" % ((run.seed * 17 + j) & 0x7fffffff, nint // nj))
    t1 = time.time()
    sw = run_lines(numops, jobs, len(jobs))
    for j, o in zip(jobs, sw):
        m = re.match(r"ok (\d+)", o)
        if m:
            n = int(m.group(1))
            run.cov["evaluations"] += n
            run.cov["sweep_inputs"] = run.cov.get("sweep_inputs", 0) + n
            run._distinct.add(("sweep", j))
        else:
            found.append({"job": j, "result": o})
    # exact-arithmetic acceptance of the digit-generating methods on many more doubles (Python oracle, implementation only)
    nsearch = 40000 if enlarged else 2500
    sl = []
    for b in G.random_doubles(run.rng, nsearch // 4) + G.small_decimal_doubles(run.rng, nsearch // 8) + G.tie_doubles(run.rng, nsearch // 8):
        h = G.hx(b)
        sl.append("fixed %s %d" % (h, run.rng.randrange(0, 101)))
        sl.append("exp %s %d" % (h, run.rng.randrange(0, 101)))
        sl.append("prec %s %d" % (h, run.rng.randrange(1, 101)))
        sl.append("radix %s %d" % (h, run.rng.randrange(2, 37)))
    so = run_lines(numops, sl, workers)
    for line, out in zip(sl, so):
        spec = py_spec(line)
        verdict, detail = judge(line, spec, out)
        run.count(line, nontrivial=verdict not in ("open", "discard", "open-noroundtrip"))
        stats["search:" + line.split(" ", 1)[0] + ":" + verdict] += 1
        if verdict == "deviation":
            cls = "panic" if detail == "panic" else classify(line, spec, out)
            case = {"line": line, "spec": spec, "impl": out, "code_model": "-", "stream": "search"}
            if cls is None or cls == "panic":
                unknown.append(case)
            else:
                deviations.setdefault(cls, []).append(case)
    run.cov["verdicts"] = dict(stats)
    run.cov["search_wall_s"] = round(time.time() - t1, 1)
    run.cov["programs"] = 0
    # verdicts
    for f in found:
        run.violation({"kind": "counterexample", "class": None, "input": f["job"], "impl_output": f["result"],
                       "obligation": "Number(String(x)) = x / parseInt(x.toString(r), r) = x",
                       "how_to_rerun": "echo '%s' | harness/target/debug/numops" % f["job"]})
    for cls, cases in deviations.items():
        c = min(cases, key=lambda c: len(c["line"]))
        run.cov.setdefault("deviation_classes", {})[cls] = len(cases)
        run.violation({"kind": "counterexample", "class": cls, "input": c["line"], "model_output": c["spec"], "impl_output": c["impl"],
                       "code_level_model_output": c["code_model"], "cases_in_class_this_run": len(cases),
                       "more_inputs": [x["line"][:200] for x in cases[1:6]],
                       "obligation": "boa's answer = the ECMA-262 answer computed by the extracted specification (coq/C13/Model_C13.v)",
                       "how_to_rerun": "printf '%%s\\n' '%s' | harness/target/debug/numops ; same line | ocaml/C13/_build/numdrv" % c["line"][:500]})
    withheld = 0
    for c in unknown[:8]:
        v8 = node_says(c["line"]) if not c["impl"].startswith("P:") else None
        if v8 is not None and v8 == c["impl"] and v8 != c["spec"]:
            withheld += 1
            run.notes.append({"model_defect_v8_agrees_with_boa": {"line": c["line"][:300], "spec": c["spec"][:300], "impl": c["impl"][:300]}})
            continue
        run.violation({"kind": "counterexample", "class": None, "input": c["line"], "model_output": c["spec"], "impl_output": c["impl"],
                       "v8_output": v8, "code_level_model_output": c["code_model"], "stream": c["stream"],
                       "obligation": "boa's answer = the ECMA-262 answer computed by the extracted specification (coq/C13/Model_C13.v)",
                       "how_to_rerun": "printf '%%s\\n' '%s' | harness/target/debug/numops" % c["line"][:500]})
    if withheld:
        run.cov["alarms_withheld_by_v8"] = withheld
    if code_diffs and not run.violations:
        c = code_diffs[0]
        run.violation({"kind": "correspondence-broken", "input": c["line"], "model_output": c["code_model"], "impl_output": c["impl"],
                       "spec_output": c["spec"], "cases": stats["code_model:differs"],
                       "obligation": "code-level model of the hand-written digit algorithms (coq/C13/Deep_Code_C13.v, theorems *_model_eq_spec) = engine",
                       "search": "the engine still agrees with the specification on every case of the enlarged search",
                       "how_to_rerun": "printf '%%s\\n' '%s' | harness/target/debug/numops ; same line | ocaml/C13/_build/numdrv" % c["line"][:500]},
                      found_input=False)
    if broken is not None and not run.violations and not run.known:
        run.violation({"kind": "proof-broken", "obligation": "coq/C13/Props_C13.v", "detail": broken,
                       "search": "enlarged round-trip / integer-radix sweeps and the generated correspondence found no failing input"},
                      found_input=False)
    elif broken is not None:
        run.notes.append({"proof_broken": broken})
    run.assumptions = TRUSTED
    return run.finish()


def replay(obj):
    ok, paths, _ = vlib.harness_build(["numops"])
    inp = obj.get("input", "")
    out = run_lines(paths["numops"], [inp], 1)
    print("impl : " + "\n".join(out))
    if os.path.exists(MODEL_BIN) and not inp.startswith("sweep"):
        print("model: " + "\n".join(run_lines(MODEL_BIN, [inp], 1)))
        print("spec2: " + py_spec(inp))
        print("class: %s" % classify(inp, "", ""))
    return 0
