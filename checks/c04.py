"""C04 — binding placement and operand shortcuts are unobservable.

Proof   : coq/C04/Props_C04.v over the executable model of boa's scope analysis (coq/C04/Model_C04.v):
          escape_sound, local_only_same_function, analysis_preserves_resolution, escapes_monotone,
          eval_entered_scopes_escape, chain_walk_fuel_irrelevant, and the two refutations
          eval_under_method_refuted / eval_named_function_expression_refuted (on-tree findings).
Tie     : per generated program, the (scope id, function flag, binding name, BindingFlags) dump of the real analyzer
          (harness `scopes`, cfg(boa_verif) hook Scope::verif_dump) against the extracted model
          (ocaml/C04/_build/c04_model) run on the same AST; plus the model's own re-check of escape_sound's conclusion.
Search  : the same program under all 16 subsets of {force ESCAPES, no const cache, no loop hoist, no fused branch}
          (harness `js`, cfg sw=<bits> esc=0|1) must give 16 identical traces, equal to the extracted JSRef trace
          (ocaml/_build/jsref; unsupported / out-of-fuel discarded; node only to withhold a JSRef-mismatch alarm).
A failing program is shrunk (statement / expression deletion keeping the difference) and classified by a predicate
over the shrunk program (`class`).
"""
import copy
import json
import os
import re
import subprocess
import sys
import time
from concurrent.futures import ThreadPoolExecutor

import vlib
from vlib import Run, log

sys.path.insert(0, os.path.join(vlib.VERIF, "gen"))
sys.path.insert(0, os.path.join(vlib.VERIF, "tools"))
import jsast as A          # noqa: E402
import c04_gen as G        # noqa: E402

PROP = "C04"
MODEL_BIN = os.path.join(vlib.OCAML, "C04", "_build", "c04_model")
JSREF_BIN = os.path.join(vlib.OCAML, "_build", "jsref")
NODE_RUN = os.path.join(vlib.VERIF, "tools", "node_run.js")
JSREF_FUEL = 300000
LOOP_LIMIT = 200000
CONFIGS = [(esc, sw) for esc in (0, 1) for sw in range(8)]       # sw bits: 1 no const cache, 2 no loop hoist, 4 no fused branch
TRUSTED = [
    "Coq 8.16.1 kernel + vm_compute (no native_compute); extraction with ExtrOcamlBasic only, OCaml 4.13",
    "coq/C04/Model_C04.v is a hand transliteration of core/ast/src/scope.rs + scope_analyzer.rs (collector, *_declaration_instantiation, "
    "contains(DirectEval), BindingEscapeAnalyzer) for the compact syntax `node`; tied to the code only by the per-program flag correspondence",
    "not modelled: optimize_scope_indices (environment index renumbering), this_escaped, annex-B function-in-block hoisting, modules, "
    "analyze_scope_eval (scope analysis of eval code at run time); computed keys of class methods are not visited by boa and are absent from the model",
    "the theorems speak about the scope-annotated skeleton `sk` that the model's collector emits: occurrences the collector drops are invisible to them",
    "register-vs-environment placement and the three operand shortcuts are NOT proved semantically equivalent; they are covered by the 16-subset "
    "metamorphic search against the extracted JSRef only (DESIGN.md 4/C04: Reg.v belongs to C01)",
    "ocaml/C04/c04_driver.ml (S-expression reader, printer), gen/c04_gen.py (generator + jsast->node converter), harness/src/bin/scopes.rs "
    "(AST walk collecting every Scope through public getters), harness/src/bin/js.rs, the JSRef interpreter (coq/JSRef, owned by C01)",
    "V8 (node 20) only inside the false-alarm filter for boa-vs-JSRef mismatches",
]


# ------------------------------------------------------------------------------------------------
# process helpers

def run_batch(cmd, lines, timeout=1800):
    p = subprocess.run(cmd, input="\n".join(lines) + "\n", stdout=subprocess.PIPE, stderr=subprocess.PIPE, text=True,
                       timeout=timeout, errors="replace")
    return p.stdout.split("\n")


def by_id(out_lines):
    res = {}
    for l in out_lines:
        if not l:
            continue
        parts = l.split("\t")
        res[parts[0]] = parts[1:]
    return res


class Proc:
    """an interactive `js` harness process (one case per line, one answer per line)"""

    def __init__(self, binpath, esc, sw):
        self.p = subprocess.Popen([binpath], stdin=subprocess.PIPE, stdout=subprocess.PIPE, stderr=subprocess.DEVNULL, text=True, bufsize=1)
        self.p.stdin.write("cfg sw=%d esc=%d loop=%d\n" % (sw, esc, LOOP_LIMIT))
        self.p.stdin.flush()

    def run(self, text):
        self.p.stdin.write("run x %s\n" % A.escape_line(text))
        self.p.stdin.flush()
        l = self.p.stdout.readline()
        if not l:
            return ("dead",)
        return tuple(l.rstrip("\n").split("\t")[1:])

    def close(self):
        try:
            self.p.stdin.close()
            self.p.wait(timeout=5)
        except Exception:
            self.p.kill()


# ------------------------------------------------------------------------------------------------
# flag correspondence

def parse_boa_dump(s):
    """`uid index fn this [name idx flags]*;...` -> {uid: (fn, sorted [(name, flags)])}"""
    out = {}
    for sc in s.split(";"):
        if not sc:
            continue
        head, _, rest = sc.partition(" [")
        h = head.split()
        binds = []
        if rest:
            for b in ("[" + rest).split("] ["):
                b = b.strip("[] ")
                f = b.split()
                binds.append((f[0], int(f[2])))
        out[int(h[0])] = (int(h[2]), sorted(binds))
    return out


def parse_model_dump(s, names):
    inv = {v: k for k, v in names.items()}
    out = {}
    for sc in s.split(";"):
        if not sc:
            continue
        head, _, rest = sc.partition(" [")
        h = head.split()
        binds = []
        if rest:
            for b in ("[" + rest).split("] ["):
                f = b.strip("[] ").split()
                binds.append((inv.get(int(f[0]), "#%s" % f[0]), int(f[1])))
        out[int(h[0])] = (int(h[2]), sorted(binds))
    return out


def compare_scopes(boa, model):
    """-> list of differences (empty = corresponds)"""
    diffs = []
    for uid, (fn, binds) in boa.items():
        if uid not in model:
            diffs.append("scope %d dumped by boa is missing in the model" % uid)
            continue
        mfn, mb = model[uid]
        if mfn != fn:
            diffs.append("scope %d: function flag boa=%d model=%d" % (uid, fn, mfn))
        if mb != binds:
            diffs.append("scope %d: bindings boa=%r model=%r" % (uid, binds, mb))
    for uid, (mfn, mb) in model.items():
        if uid not in boa and mb:
            diffs.append("scope %d with bindings %r exists only in the model" % (uid, mb))
    return diffs


# ------------------------------------------------------------------------------------------------
# shrinking + classification

def is_stmt(x):
    return isinstance(x, tuple) and x and isinstance(x[0], str) and x[0].startswith("S") and x[0] != "S"


def is_expr(x):
    return isinstance(x, tuple) and x and isinstance(x[0], str) and x[0].startswith("E") and len(x[0]) > 1 and x[0][1].isupper()


def walk(obj, path, out_lists, out_exprs):
    if isinstance(obj, dict):
        for k, v in obj.items():
            walk(v, path + (k,), out_lists, out_exprs)
    elif isinstance(obj, list):
        if obj and all(is_stmt(x) for x in obj):
            out_lists.append(path)
        for i, v in enumerate(obj):
            walk(v, path + (i,), out_lists, out_exprs)
    elif isinstance(obj, tuple):
        if is_expr(obj):
            out_exprs.append(path)
        for i, v in enumerate(obj):
            if i > 0 or not isinstance(v, str):
                walk(v, path + (i,), out_lists, out_exprs)


def get_at(obj, path):
    for k in path:
        obj = obj[k]
    return obj


def set_at(obj, path, fn):
    """rebuild obj with fn applied to the value at path (tuples are rebuilt)"""
    if not path:
        return fn(obj)
    k = path[0]
    if isinstance(obj, dict):
        o = dict(obj)
        o[k] = set_at(obj[k], path[1:], fn)
        return o
    if isinstance(obj, list):
        o = list(obj)
        o[k] = set_at(obj[k], path[1:], fn)
        return o
    o = list(obj)
    o[k] = set_at(obj[k], path[1:], fn)
    return tuple(o)


def shrink(p, differs, budget=400):
    """greedy statement deletion, then expression simplification, keeping `differs(program)` true"""
    tests = 0
    changed = True
    while changed and tests < budget:
        changed = False
        lists, _ = [], []
        walk(p, (), lists, _)
        # larger lists first, later statements first (uses before declarations)
        for lp in sorted(lists, key=lambda q: -len(get_at(p, q))):
            def stmt_list_at(q):
                # paths go stale when an enclosing statement was deleted: re-validate every time
                try:
                    l = get_at(p, q)
                except (KeyError, IndexError, TypeError):
                    return None
                return l if isinstance(l, list) and l and all(is_stmt(x) for x in l) else None
            cur = stmt_list_at(lp)
            if cur is None:
                continue
            i = len(cur) - 1
            while i >= 0 and tests < budget:
                cand = set_at(p, lp, lambda l: l[:i] + l[i + 1:])
                tests += 1
                try:
                    ok = differs(cand)
                except Exception:
                    ok = False
                if ok:
                    p = cand
                    changed = True
                i -= 1
                cur = stmt_list_at(lp)
                if cur is None:
                    break
                i = min(i, len(cur) - 1)
    # one pass of expression simplification: replace an expression by a child expression or a literal
    done = False
    rounds = 0
    while not done and tests < budget and rounds < 6:
        done = True
        rounds += 1
        exprs = []
        walk(p, (), [], exprs)
        for ep in exprs:
            try:
                e = get_at(p, ep)
            except (KeyError, IndexError, TypeError):
                continue
            if not is_expr(e) or e[0] in ("ENum", "EStr", "EBool", "ENull", "EId"):
                continue
            kids = [c for c in e[1:] if is_expr(c)] + [A.num(0)]
            for c in kids:
                if tests >= budget:
                    break
                cand = set_at(p, ep, lambda _e, c=c: c)
                tests += 1
                try:
                    ok = differs(cand)
                except Exception:
                    ok = False
                if ok:
                    p = cand
                    done = False
                    break
    return p, tests


def has_node(obj, pred):
    if isinstance(obj, dict):
        return any(has_node(v, pred) for v in obj.values())
    if isinstance(obj, (list, tuple)):
        if isinstance(obj, tuple) and pred(obj):
            return True
        return any(has_node(v, pred) for v in obj)
    return False


def assigned_ids(e):
    out = set()

    def go(x):
        if isinstance(x, tuple) and x:
            if x[0] == "EAssign" and x[1][0] == "PId":
                out.add(tuple(x[1][1]))
            if x[0] in ("EOpAssign", "ELogAssign") and x[2][0] == "EId":
                out.add(tuple(x[2][1]))
            if x[0] == "EUpdate" and x[3][0] == "EId":
                out.add(tuple(x[3][1]))
            for v in x:
                go(v)
        elif isinstance(x, list):
            for v in x:
                go(v)
    go(e)
    return out


def operand_overwritten(t):
    """an identifier operand followed, in the same operator / array / template, by an operand that assigns it"""
    if not (isinstance(t, tuple) and t):
        return False
    if t[0] in ("EBinary", "ELogical"):
        ops = [t[2], t[3]]
    elif t[0] == "EArray":
        ops = [el[1] for el in t[1] if el[0] != "AHole"]
    elif t[0] == "ETemplate":
        ops = list(t[2])
    elif t[0] == "ECall":
        ops = [a[1] for a in t[2]]
    else:
        return False
    for i, o in enumerate(ops):
        if isinstance(o, tuple) and o[0] == "EId":
            for later in ops[i + 1:]:
                if tuple(o[1]) in assigned_ids(later):
                    return True
    return False


def assign_before_declaration(obj):
    """some statement list writes an identifier in a statement that precedes the let/const declaring it"""
    if isinstance(obj, dict):
        return any(assign_before_declaration(v) for v in obj.values())
    if isinstance(obj, list):
        if obj and all(is_stmt(x) for x in obj):
            for j, st in enumerate(obj):
                if st[0] == "SDecl" and st[1] in ("KLet", "KConst"):
                    declared = {tuple(p[1]) for (p, _d) in st[2] if p[0] == "PId"}
                    if declared and any(declared & assigned_ids(e) for e in obj[:j]):
                        return True
        return any(assign_before_declaration(v) for v in obj)
    if isinstance(obj, tuple):
        return any(assign_before_declaration(v) for v in obj)
    return False


def bits_that_matter(results):
    """which of the four switches change the outcome: label like esc+hoist"""
    names = {"esc": None, "cache": 1, "hoist": 2, "fused": 4}
    out = []
    for nm, bit in names.items():
        m = False
        for (esc, sw), r in results.items():
            other = (1 - esc, sw) if bit is None else (esc, sw ^ bit)
            if results[other] != r:
                m = True
        if m:
            out.append(nm)
    return "+".join(out) or "none"


PROJECTION = {(0, 7): "esc", (1, 6): "cache", (1, 5): "hoist", (1, 3): "fused"}


def classify(shrunk, model_report, results, projected=None):
    """stable class label: a predicate over the (shrunk) failing case, suffixed by the switches that change its outcome
    (`projected`: the program was shrunk for the effect of that single switch against the conservative configuration)"""
    bits = projected or bits_that_matter(results)
    # hoist family: the loop-hoist switch matters and with hoisting disabled all configurations agree
    hoistish = "hoist" in bits_that_matter(results).split("+") and len({r for (esc_, sw_), r in results.items() if sw_ & 2}) == 1 \
        and projected in (None, "hoist", "fused")
    # the suffix names the placement switches only (esc / cache); hoist and fused are leftovers of other statements
    bits = "+".join(b for b in bits.split("+") if b in ("esc", "cache")) or bits
    if model_report is not None and model_report.get("reach_ok") == "0":
        return "eval-under-method-definition" if model_report.get("honest") == "0" else "eval-named-function-expression-name"
    if hoistish:      # (without fusion the hoisted register is unused, so `fused` may matter too)
        if has_node(shrunk, lambda t: t[0] == "SWith"):
            return "loop-hoist-const-under-with"
        if has_node(shrunk, lambda t: t[0] == "SDoWhile"):
            return "loop-hoist-dowhile-reads-before-body"
        return "loop-hoist-const-read-before-other-operand"
    if any(r[0] == "panic" or (len(r) > 2 and r[2].startswith("P:")) for r in results.values()):
        return "panic@" + bits
    if assign_before_declaration(shrunk):
        return "tdz-assign-before-init@" + bits
    if has_node(shrunk, lambda t: t[0] == "SSwitch" and any(s[0] == "SDecl" and s[1] in ("KLet", "KConst") for (_c, b) in t[2] for s in b)):
        return "switch-case-lexical-read-before-init@" + bits
    if has_node(shrunk, operand_overwritten):
        return "local-operand-overwritten-by-later-operand@" + bits
    if has_node(shrunk, lambda t: t[0] == "EUpdate" and t[1] is False and t[3][0] == "EId"):
        return "postfix-update-on-local-returns-unconverted-value@" + bits
    return "unclassified@" + bits


# ------------------------------------------------------------------------------------------------
# shortcut decisions: the rules modelled in coq/C04/Deep2_C04.v against the registers named by boa's bytecode

def gen_operand(rng, depth, force=None):
    """-> (sexp for the model's `ex`, JavaScript) over the locals a (0) and b (1).
    Shapes: literal, this, identifier, assignment / compound assignment / update, binary operator, member access,
    computed member access (the key is code), optional chains, calls, array / object / template literals, comma,
    conditional.  `force` picks the top-level shape."""
    x = rng.random()
    kind = force
    if kind is None:
        if depth <= 0 or x < 0.25:
            kind = "atom"
        else:
            kind = rng.choice(["asg", "asg", "bin", "mem", "idx", "idx", "call", "arr", "obj", "tpl", "comma", "cond", "optidx", "optcall"])
    sub = lambda: gen_operand(rng, depth - 1)
    if kind == "atom":
        k = rng.randrange(4)
        if k == 0:
            return "(0)", str(rng.randrange(0, 9))
        if k == 1:
            return "(1)", "this"
        v = rng.randrange(2)
        return "(2 %d)" % v, rng.choice(["%s", "%s", "(%s)"]) % "ab"[v]
    if kind == "asg":
        v = 0 if rng.random() < 0.7 else 1            # mostly the left operand's own local
        form = rng.randrange(3)
        if form == 2 or depth <= 0:
            return "(3 %d (0))" % v, "(%s%s)" % ("ab"[v], rng.choice(["++", "--"]))
        sx, js = sub()
        return "(3 %d %s)" % (v, sx), "(%s %s %s)" % ("ab"[v], "=" if form == 0 else rng.choice(["+=", "*=", "|="]), js)
    if kind == "bin":
        (s1, j1), (s2, j2) = sub(), sub()
        return "(4 %s %s)" % (s1, s2), "(%s %s %s)" % (j1, rng.choice(["+", "-", "*", "<", "&", "==", "**", ">=", "in", "instanceof"]), j2)
    if kind == "mem":
        s1, j1 = sub()
        return "(5 %s)" % s1, "%s%s" % (wrap_target(j1), rng.choice([".p", ".length", "?.p"]))
    if kind in ("idx", "optidx"):
        (s1, j1), (s2, j2) = sub(), gen_operand(rng, depth - 1, force="asg" if rng.random() < 0.6 else None)
        return "(6 %s %s)" % (s1, s2), "%s%s[%s]" % (wrap_target(j1), "?." if kind == "optidx" else "", j2)
    if kind in ("call", "optcall"):
        (s1, j1), (s2, j2), (s3, j3) = sub(), sub(), gen_operand(rng, depth - 1, force="asg" if rng.random() < 0.5 else None)
        return "(7 (7 %s %s) %s)" % (s1, s2, s3), "%s%s(%s, %s)" % (wrap_target(j1), "?." if kind == "optcall" else "", j2, j3)
    if kind == "cond":
        (s1, j1), (s2, j2), (s3, j3) = sub(), sub(), sub()
        return "(8 %s %s %s)" % (s1, s2, s3), "(%s ? %s : %s)" % (j1, j2, j3)
    (s1, j1), (s2, j2) = sub(), gen_operand(rng, depth - 1, force="asg" if rng.random() < 0.5 else None)
    js = {"arr": "[%s, %s]", "obj": "({k: %s, m: %s})", "tpl": "`${%s}-${%s}`", "comma": "(%s, %s)"}[kind] % (j1, j2)
    return "(7 %s %s)" % (s1, s2), js


def sexp_parse(s):
    toks = s.replace("(", " ( ").replace(")", " ) ").split()
    pos = [0]

    def item():
        if toks[pos[0]] == "(":
            pos[0] += 1
            out = []
            while toks[pos[0]] != ")":
                out.append(item())
            pos[0] += 1
            return out
        pos[0] += 1
        return int(toks[pos[0] - 1])
    return item()


def harmless_target_only(e):
    """the right-operand test of a rule that accepts property accesses by looking at the target chain only and never at
    a computed key (Deep2_C04.v: snapshot_member_fastpath) — used to count the probes on which such a rule differs"""
    return e[0] in (0, 1, 2) or (e[0] in (5, 6) and harmless_target_only(e[1]))


def wrap_target(js):
    return js if re.fullmatch(r"[ab]|\(.*\)|\[.*\]|`.*`", js, re.S) else "(%s)" % js


def dump_blocks(trace_json):
    """verif_dump lines -> {block name: [instruction text]}"""
    blocks, cur = {}, None
    for l in json.loads(trace_json):
        if l.startswith("block "):
            m = re.search(r"name=(.*)$", l)
            cur = (m.group(1) if m else "") + "#%d" % len(blocks)
            blocks[cur] = []
        elif l.startswith("ins ") and cur is not None:
            blocks[cur].append(l.split(" ", 4)[4])
    return blocks


def reg_of(field, ins):
    m = re.search(field + r": RegisterOperand\((\d+)\)", ins)
    return int(m.group(1)) if m else None


def shortcut_decisions(run, js_bin, n_ops):
    """-> (list of disagreements, stats)"""
    probes = []           # (id, kind, model line, js, aux)
    shapes = [None, "atom", "asg", "mem", "idx", "atom", "optidx", "call", "idx", "optcall", "arr", "mem", "obj", "tpl", "atom", "comma", "cond", "bin"]
    for k in range(n_ops):
        sx, js = gen_operand(run.rng, 3, force=shapes[k % len(shapes)])
        op = run.rng.choice(["+", "-", "*", "**", "<", "<=", ">", "&", "|", "^", "===", "!=", "%", ">>", "in", "instanceof"])
        if k % 3 == 2 and op in ("<", "<=", ">"):
            # relational operator in branch position: the fused compare-and-branch path
            prog = "function f(){ let a = 1; let b = 2; if (a %s %s) { return 1; } return 0; }" % (op, js)
        else:
            prog = "function f(){ let a = 1; let b = 2; return a %s %s; }" % (op, js)
        e_ = sexp_parse(sx)
        probes.append(("op%d" % k, "op", "dec-op op%d (4 (2 0) %s)" % (k, sx), prog,
                       harmless_target_only(e_) and e_[0] in (5, 6)))
    for k, opn in enumerate(["++", "--"]):
        probes.append(("upd%d" % k, "upd", None, "function f(){ let a = 1; let q = a%s; return q; }" % opn, None))
    k = 0
    for loop in ("while", "for", "do"):
        for under_with in (0, 1):
            for lhs_eff in (0, 1):
                lhs = "(i = i + 0)" if lhs_eff else "i"
                body = {"while": "while (%s < c) { i++; }", "for": "for (; %s < c; ) { i++; }", "do": "do { i++; } while (%s < c);"}[loop] % lhs
                if under_with:
                    body = "with ({}) { %s }" % body       # (not a name: no binding is read in front of the loop unless hoisted)
                js = "function outer(){ const c = 3; return function inner(o){ let i = 0; %s return i; }; }" % body
                probes.append(("h%d" % k, "hoist", "dec-hoist h%d %d %d %d" % (k, lhs_eff, 1 if loop == "do" else 0, under_with), js, None))
                k += 1
    out = by_id(run_batch([js_bin], ["cfg dump=1"] + ["run %s %s" % (p[0], A.escape_line(p[3])) for p in probes]))
    BIN = re.compile(r"^(\w+) \{ [^}]*lhs: RegisterOperand\((\d+)\), rhs: RegisterOperand\((\d+)\) \}")
    mlines, boa = [], {}
    bad = []
    for (pid, kind, mline, js, _aux) in probes:
        o = out.get(pid)
        if o is None or o[0] != "ok":
            bad.append({"probe": js, "boa": o, "model": None, "what": "no code-block dump"})
            continue
        blocks = dump_blocks(o[1])
        if kind in ("op", "upd"):
            ins = next((v for name, v in blocks.items() if name.startswith("f#")), [])
            if not ins:
                bad.append({"probe": js, "boa": None, "model": None, "what": "block f not found"})
                continue
            ra = reg_of("dst", ins[0])
            if kind == "op":
                bins = [BIN.match(i) for i in ins]
                bins = [m for m in bins if m]
                if not bins or ra is None:
                    bad.append({"probe": js, "boa": ins[:12], "model": None, "what": "no binary instruction"})
                    continue
                boa[pid] = "0" if int(bins[-1].group(2)) == ra else "1"
                mlines.append(mline)
            else:
                seq = None
                for i1, i2 in zip(ins, ins[1:]):
                    if i1.startswith("Move ") and (i2.startswith("Inc ") or i2.startswith("Dec ")) and reg_of("src", i1) == ra:
                        seq = "Move %d %d;Inc %d %d" % (reg_of("dst", i1), reg_of("src", i1), reg_of("dst", i2), reg_of("src", i2))
                        mlines.append("dec-upd %s %d %d" % (pid, ra, reg_of("dst", i1)))
                boa[pid] = seq
                if seq is None:
                    bad.append({"probe": js, "boa": ins[:12], "model": None, "what": "no Move;Inc/Dec pair on the local"})
        else:
            ins = next((v for name, v in blocks.items() if any(i.startswith("IncrementLoopIteration") for i in v)), None)
            if ins is None:
                bad.append({"probe": js, "boa": None, "model": None, "what": "loop block not found"})
                continue
            first = next(k_ for k_, i in enumerate(ins) if i.startswith("IncrementLoopIteration"))
            boa[pid] = "1" if any(re.match(r"GetName", i) for i in ins[:first]) else "0"
            mlines.append(mline)
    model = by_id(run_batch([MODEL_BIN], mlines)) if mlines else {}
    by = {p[0]: p for p in probes}
    n = 0
    for pid, b in boa.items():
        if b is None:
            continue
        m = model.get(pid, ["missing"])[0]
        n += 1
        run.count(("decision", by[pid][3]))
        if m != b:
            bad.append({"probe": by[pid][3], "boa": b, "model": m,
                        "what": {"op": "left operand: 1 = copied to a temporary, 0 = the local's register is the operand",
                                 "upd": "postfix update lowering", "hoist": "1 = const operand read in front of the loop"}[by[pid][1]]})
    return bad, {"probes": len(probes), "compared": n, "operand_probes": n_ops,
                 "operand_probes_where_a_target_only_member_rule_differs": sum(1 for p in probes if p[1] == "op" and p[4]),
                 "of_which_key_assigns_the_left_local": sum(1 for p in probes if p[1] == "op" and p[4] and re.search(r"\[[^\]]*\ba\b\s*(\+\+|--|=|\+=|\*=|\|=)", p[3])),
                 "copied": sum(1 for p, b in boa.items() if p.startswith("op") and b == "1"),
                 "direct": sum(1 for p, b in boa.items() if p.startswith("op") and b == "0"),
                 "hoisted": sum(1 for p, b in boa.items() if p.startswith("h") and b == "1")}


def build_model():
    rc, out, err = vlib.sh(["sh", os.path.join(vlib.OCAML, "C04", "build.sh")], timeout=900)
    return rc == 0 and os.path.exists(MODEL_BIN), (out + err)[-2000:]


def ensure_jsref():
    if os.path.exists(JSREF_BIN):
        return True
    vlib.coq_make(["JSRef/Extract.vo"])
    vlib.sh(["bash", os.path.join(vlib.OCAML, "build.sh")], timeout=1800)
    return os.path.exists(JSREF_BIN)


CTORS = set()


def from_json(o):
    """JSON round trip of a jsast program: lists that start with a constructor name become tuples again"""
    if not CTORS:
        import gen_wire
        CTORS.update(gen_wire.CTOR_TAG.keys())
    if isinstance(o, dict):
        return {k: from_json(v) for k, v in o.items()}
    if isinstance(o, list):
        if o and isinstance(o[0], str) and o[0] in CTORS:
            return tuple(from_json(v) for v in o)
        return [from_json(v) for v in o]
    return o


def classify_text(text, results):
    """class predicate for corpus cases that exist as JavaScript text only (same labels as `classify`)"""
    bits = bits_that_matter(results)
    hoistish = "hoist" in bits.split("+") and len({r for (esc_, sw_), r in results.items() if sw_ & 2}) == 1
    bits = "+".join(b for b in bits.split("+") if b in ("esc", "cache")) or bits
    panic = any(r[0] == "panic" or (len(r) > 2 and r[2].startswith("P:")) for r in results.values())
    if "eval(" in text and panic:
        m = re.search(r"function\s+(\w+)\s*\([^)]*\)\s*\{[^{}]*eval\([^)]*\b\1\b", text)
        return "eval-named-function-expression-name" if m else "eval-under-method-definition"
    if hoistish:
        if "with (" in text or "with(" in text:
            return "loop-hoist-const-under-with"
        if re.search(r"\bdo\b", text):
            return "loop-hoist-dowhile-reads-before-body"
        return "loop-hoist-const-read-before-other-operand"
    if panic:
        return "panic@" + bits
    if re.search(r"case[^:]*:\s*(let|const)\b", text):
        return "switch-case-lexical-read-before-init@" + bits
    if re.search(r"\b(\w+)\s*(\*\*|[-+*/%<>=!&|^]+)\s*\(\s*(\+\+|--)?\1\b\s*(=[^=]|\+=|-=|\*=|\+\+|--)", text):
        return "local-operand-overwritten-by-later-operand@" + bits
    if re.search(r"\w(\+\+|--)", text):
        return "postfix-update-on-local-returns-unconverted-value@" + bits
    return "unclassified@" + bits


def corpus_cases():
    out = []
    d = os.path.join(vlib.CORPUS, PROP)
    if os.path.isdir(d):
        for f in sorted(os.listdir(d)):
            if f.endswith(".json"):
                try:
                    o = json.load(open(os.path.join(d, f)))
                    out.append((re.sub(r"\W", "", f[:-5]), o))
                except Exception as e:
                    log("corpus file %s unreadable: %s" % (f, e))
    return out


def chunks(l, n):
    k = max(1, (len(l) + n - 1) // n)
    return [l[i:i + k] for i in range(0, len(l), k)]


def run_configs(js_bin, texts, ids):
    """-> {id: {(esc, sw): (status, trace, completion)}}"""
    lines = ["run %s %s" % (i, A.escape_line(t)) for i, t in zip(ids, texts)]

    def one(cfg):
        esc, sw = cfg
        out = run_batch([js_bin], ["cfg sw=%d esc=%d loop=%d" % (sw, esc, LOOP_LIMIT)] + lines)
        return cfg, by_id(out)
    res = {i: {} for i in ids}
    with ThreadPoolExecutor(max_workers=min(16, vlib.NCPU)) as ex:
        for cfg, m in ex.map(one, CONFIGS):
            for i in ids:
                res[i][cfg] = tuple(m.get(i, ["missing", "", ""]))
    return res


def run_parallel(cmd, lines, nproc):
    parts = chunks(lines, nproc)
    with ThreadPoolExecutor(max_workers=nproc) as ex:
        outs = list(ex.map(lambda part: run_batch(cmd, part), parts))
    m = {}
    for o in outs:
        m.update(by_id(o))
    return m


def main():
    run = Run(PROP, "proof")
    run.cov["rule"] = ("a case = one generated program (gen/c04_gen.py: 1-3 functions/generators with default-parameter closures, loops with per-iteration "
                       "bindings and closures, switch-case lexicals, try/catch, with, direct eval, classes/object methods, operand reuse, compound "
                       "assignment/update) used twice: (a) flag correspondence — every Scope of the analyzed AST (id, function flag, binding names, "
                       "BindingFlags) from boa vs the extracted model; (b) 16 switch subsets on boa must give one trace, equal to the extracted JSRef "
                       "trace. distinct = distinct program text; non-trivial = the program has >= 1 non-global binding that stays local (register) "
                       "and >= 1 that escapes, i.e. the analysis made both decisions")
    os.makedirs(os.path.join(vlib.OCAML, "C04", "_build"), exist_ok=True)
    broken = None
    # 1-3 proofs, gates, extraction
    pr = vlib.proof_stage(PROP, ["C04"], "C04/Props_C04.v", extra_targets=["C04/Extract_C04.vo"])
    run.set_proof(pr, TRUSTED)
    if not pr["ok"]:
        broken = pr["broken"]
    ok, blog = build_model()
    if not ok and broken is None:
        broken = {"kind": "proof", "detail": {"error": "extracted model does not build: " + blog[-800:]}}
    model_ok = ok
    # 4 harness
    ok, paths, hlog = vlib.harness_build(["scopes", "js"])
    if not ok:
        if re.search(r"^error", hlog, re.M):
            run.violation({"kind": "correspondence-broken", "obligation": "harness `scopes`/`js` no longer compile against /repo",
                           "log": hlog[-3000:]}, found_input=False)
            return run.finish()
        vlib.infra_error(PROP, "harness build failed: " + hlog[-400:])
    have_ref = ensure_jsref()
    if not have_ref:
        run.notes.append("ocaml/_build/jsref missing: JSRef comparison skipped, metamorphic 16-subset search only")
    have_node = vlib.sh(["node", "--version"])[0] == 0

    # 5 cases: seeds + corpus first, then generated
    cases = []     # (id, program or None, js text, features)
    # (gen/c04_gen.py: seed_programs() are stored, with their ASTs, as corpus/C04/*.json)
    for name, o in corpus_cases():
        if o.get("prog") is not None:
            cp = from_json(o["prog"])
            cases.append(("corpus-" + name, cp, A.to_js(cp), ["corpus"]))
        else:
            cases.append(("corpus-" + name, None, o["js"], ["corpus"]))
    n = 60 if run.quick else 600
    import random
    for k in range(n):
        sub = random.Random(run.rng.getrandbits(64))
        p, feats = G.generate(sub)
        cases.append(("g%d" % k, p, A.to_js(p), feats))
    ids = [c[0] for c in cases]
    texts = [c[2] for c in cases]
    feat_count = {}
    for c in cases:
        for f in c[3]:
            feat_count[f] = feat_count.get(f, 0) + 1
    run.cov["feature_distribution"] = dict(sorted(feat_count.items()))
    run.cov["programs"] = len(cases)
    run.cov["program_bytes_avg"] = int(sum(len(t) for t in texts) / max(1, len(texts)))

    # (a) flag correspondence
    t0 = time.time()
    model_reports = {}
    corr_bad = []
    stats = {"scopes": 0, "bindings": 0, "local": 0, "escaping_nonglobal": 0, "unsupported_by_converter": 0, "boa_rejects": 0,
             "model_reach_not_ok": 0, "model_honest_false": 0}
    conv = {}
    for (i, p, t, f) in cases:
        if p is None:
            continue
        try:
            sx, names = G.to_c04(p)
            conv[i] = (sx, names, 1 if p["p_strict"] else 0)
        except G.Unsupported:
            stats["unsupported_by_converter"] += 1
    boa_sc = run_parallel([paths["scopes"]], ["run %s %s" % (i, A.escape_line(t)) for i, t in zip(ids, texts)], min(8, vlib.NCPU))
    model_sc = {}
    if model_ok:
        model_sc = run_parallel([MODEL_BIN], ["run %s %d %s" % (i, conv[i][2], conv[i][0]) for i in ids if i in conv], min(8, vlib.NCPU))
    nontrivial = {}
    for (i, p, t, f) in cases:
        b = boa_sc.get(i)
        if b is None or b[0] != "ok":
            stats["boa_rejects"] += 1
            if b is not None and b[0] == "panic":
                corr_bad.append({"id": i, "js": t, "diffs": ["boa's scope analysis panics: " + b[1]]})
            continue
        bd = parse_boa_dump(b[1])
        loc = sum(1 for uid, (fn, bs) in bd.items() for (nm, fl) in bs if uid != 0 and not fl & 8)
        esc = sum(1 for uid, (fn, bs) in bd.items() for (nm, fl) in bs if uid != 0 and fl & 8)
        stats["scopes"] += len(bd)
        stats["bindings"] += sum(len(bs) for (_fn, bs) in bd.values())
        stats["local"] += loc
        stats["escaping_nonglobal"] += esc
        nontrivial[i] = loc > 0 and esc > 0
        if i not in conv or not model_ok:
            continue
        m = model_sc.get(i)
        if m is None or m[0] != "ok":
            corr_bad.append({"id": i, "js": t, "diffs": ["model failed: %r" % (m,)]})
            continue
        rep = {"honest": m[2], "wf": m[3], "ev_ok": m[4], "occ_ok": m[5], "reach_ok": m[6], "sem_hyp": m[7] if len(m) > 7 else "?"}
        model_reports[i] = rep
        if rep["reach_ok"] == "0":
            stats["model_reach_not_ok"] += 1
        if rep["honest"] == "0":
            stats["model_honest_false"] += 1
        diffs = compare_scopes(bd, parse_model_dump(m[1], conv[i][1]))
        if rep["wf"] != "1":
            diffs.append("model: collector produced a table whose outer pointers do not decrease")
        if rep["occ_ok"] != "1":
            diffs.append("model: escape_sound's conclusion fails on this program (theorem/model inconsistency)")
        if rep["honest"] != "1":
            diffs.append("model: a contains_direct_eval flag is not truthful on this program (theorem collect_flags_truthful / model inconsistency)")
        if rep["ev_ok"] != "1":
            diffs.append("model: eval_entered_scopes_escape's conclusion fails on this program")
        if rep["sem_hyp"] != "1":
            diffs.append("model: the hypothesis sem_hyp of local_single_activation (decreasing outer pointers, skeleton laid out on the table, "
                         "global root with escaping bindings) is false on this program")
        if rep["reach_ok"] != "1":
            diffs.append("analysis defect: a non-global binding that the code of a direct eval can name stays a register (eval_reach_ok = false)")
        run.count(("flags", t), nontrivial=nontrivial[i])
        if diffs:
            corr_bad.append({"id": i, "js": t, "diffs": diffs[:6]})
        elif len(run.cov["samples"]) < 2:
            run.sample({"case": t[:400], "boa_scopes": b[1][:300], "model_scopes": m[1][:300], "model_report": rep})
    run.cov["flag_correspondence"] = dict(stats, wall_s=round(time.time() - t0, 1), mismatches=len(corr_bad))

    # (a') shortcut decisions of the bytecompiler vs the rules of Deep2_C04.v
    dec_bad = []
    if model_ok:
        t0 = time.time()
        dec_bad, dstats = shortcut_decisions(run, paths["js"], 120 if run.quick else 600)
        run.cov["shortcut_decisions"] = dict(dstats, mismatches=len(dec_bad), wall_s=round(time.time() - t0, 1))
        for d in dec_bad[:3]:
            run.violation({"kind": "correspondence-broken", "input": d["probe"], "detail": d,
                           "obligation": "decision of compile_expr_operand / compile_update / try_hoist_loop_condition read off the code-block dump "
                                         "= the rule modelled in coq/C04/Deep2_C04.v (snapshot_new / postfix_code_new / hoist_ok_new)",
                           "how_to_rerun": "printf 'cfg dump=1\\nrun x <program>\\n' | harness/target/debug/js"}, found_input=False)

    # (b) 16 subsets + JSRef
    t0 = time.time()
    res = run_configs(paths["js"], texts, ids)
    ref = {}
    if have_ref:
        wl = []
        for (i, p, t, f) in cases:
            if p is not None:
                wl.append("run %s %d %s" % (i, JSREF_FUEL, A.encode_prog(p)))
        ref = run_parallel([JSREF_BIN], wl, min(16, vlib.NCPU))
    sstats = {"all16_equal": 0, "differ": 0, "limit_discarded": 0, "syntax_error": 0, "jsref_equal": 0, "jsref_discarded": 0,
              "jsref_mismatch": 0, "model_defect_withheld": 0, "uncaught_error_completions": 0}
    failing = []
    ref_mismatch = []
    for (i, p, t, f) in cases:
        r = res[i]
        vals = set(r.values())
        if any(len(v) > 2 and v[2].startswith("L:") for v in vals) or any(v[0] in ("missing", "dead") for v in vals):
            sstats["limit_discarded"] += 1
            continue
        run.count(("meta", t), nontrivial=nontrivial.get(i, False))
        if len(vals) != 1:
            sstats["differ"] += 1
            failing.append(i)
            continue
        sstats["all16_equal"] += 1
        v = next(iter(vals))
        if len(v) > 2 and v[2].startswith("E:"):
            sstats["syntax_error"] += 1
        if len(v) > 2 and v[2].startswith("T:"):
            sstats["uncaught_error_completions"] += 1
        rr = ref.get(i)
        if rr is None or rr[0] != "ok":
            sstats["jsref_discarded"] += 1
            continue
        if (rr[1], rr[2]) == (v[1], v[2]) and v[0] == "ok":
            sstats["jsref_equal"] += 1
        else:
            ref_mismatch.append(i)
    # node filter for JSRef mismatches
    case_by_id = {c[0]: c for c in cases}
    if ref_mismatch:
        nd = {}
        if have_node:
            nd = by_id(run_batch(["node", NODE_RUN], ["run %s %s" % (i, A.escape_line(case_by_id[i][2])) for i in ref_mismatch], timeout=600))
        for i in ref_mismatch:
            v = res[i][(0, 0)]
            rr = ref[i]
            nv = nd.get(i)
            if nv is not None and (nv[1], nv[2]) == (v[1], v[2]) and (nv[1], nv[2]) != (rr[1], rr[2]):
                sstats["model_defect_withheld"] += 1
                run.notes.append({"model_defect": {"js": case_by_id[i][2][:600], "boa_and_v8": [v[1][:300], v[2]], "jsref": [rr[1][:300], rr[2]]}})
                continue
            sstats["jsref_mismatch"] += 1
            is_panic = v[0] == "panic" or v[2].startswith("P:")
            sig = "trace"
            try:
                ta, tb = json.loads(v[1]), json.loads(rr[1])
                k = next((j for j, (x_, y_) in enumerate(zip(ta, tb)) if x_ != y_), None)
                if k is None and v[2] != rr[2]:
                    sig = "completion-%s-for-%s" % (v[2].split(":")[1] if v[2].startswith("T:") else v[2][:1], rr[2].split(":")[1] if rr[2].startswith("T:") else rr[2][:1])
                elif k is not None and re.fullmatch(r"\w*Error", ta[k]) and re.fullmatch(r"\w*Error", tb[k]):
                    sig = "%s-for-%s" % (ta[k], tb[k])
            except Exception:
                pass
            obj = {"kind": "counterexample", "class": "boa-panic-in-all-configurations" if is_panic else "all-configurations-differ-from-jsref:" + sig,
                   "input": case_by_id[i][2], "impl_output": {"trace": v[1], "completion": v[2]},
                   "model_output": {"trace": rr[1], "completion": rr[2]}, "v8_output": nv,
                   "obligation": "trace(P) under every switch subset = JSRef trace",
                   "how_to_rerun": "./check replay <this file>"}
            # All 16 placements agree with each other: whatever this is (a spec deviation, a panic), it is not a
            # placement/shortcut effect, so it is not a C04 violation (C04 does not demand spec conformance; C01/C02 do).
            # It is recorded in the evidence, never reported as VIOLATION of C04.
            sstats.setdefault("uniform_deviation_classes", {})
            sstats["uniform_deviation_classes"][obj["class"]] = sstats["uniform_deviation_classes"].get(obj["class"], 0) + 1
            if len([n for n in run.notes if "uniform_deviation" in n]) < 5:
                run.notes.append({"uniform_deviation": {"class": obj["class"], "js": obj["input"][:600], "boa": obj["impl_output"], "jsref": obj["model_output"]}})
    run.cov["search"] = dict(sstats, wall_s=round(time.time() - t0, 1), configs=len(CONFIGS))

    # shrink + classify the programs whose 16 traces are not all equal
    t0 = time.time()
    classes = {}
    max_shrink = 8 if run.quick else 40

    def jobs_for(i):
        """which pair(s) of configurations the shrinker keeps different: one job per single switch whose effect shows
        against the fully conservative configuration (so that a program with two independent defects is split into
        two minimal programs), else the first differing pair"""
        r = res[i]
        cons = (1, 7)
        singles = [c_ for c_ in ((0, 7), (1, 6), (1, 5), (1, 3)) if r[c_] != r[cons]]
        if singles and not i.startswith("corpus-"):
            return [(i, c_, cons) for c_ in singles]
        base = r[(0, 0)]
        return [(i, (0, 0), next(c_ for c_ in CONFIGS if r[c_] != base))]

    def handle(job):
        (i, first, other) = job
        (_i, p, t, f) = case_by_id[i]
        shrunk, shrunk_js, tests = p, t, 0
        if p is not None and not i.startswith("corpus-"):        # corpus cases are minimized already
            pa, pb = Proc(paths["js"], first[0], first[1]), Proc(paths["js"], other[0], other[1])
            try:
                def differs(q):
                    try:
                        txt = A.to_js(q)
                    except Exception:
                        return False
                    a = pa.run(txt)
                    b = pb.run(txt)
                    if a[0] == "dead" or b[0] == "dead":
                        return False
                    if len(a) > 2 and (a[2].startswith("E:") or a[2].startswith("L:")):
                        return False
                    if len(b) > 2 and (b[2].startswith("E:") or b[2].startswith("L:")):
                        return False
                    return a != b
                try:
                    shrunk, tests = shrink(p, differs, budget=300 if run.quick else 500)
                    shrunk_js = A.to_js(shrunk)
                except Exception as ex_:          # a shrinker problem must never hide the (unshrunk) counterexample
                    log("shrink failed on %s: %r" % (i, ex_))
                    shrunk, shrunk_js = p, t
            finally:
                pa.close()
                pb.close()
        return i, shrunk, shrunk_js, first, tests

    # corpus cases first, then round-robin over the switch signatures (rare signatures get their turn)
    by_sig = {}
    for i in failing:
        by_sig.setdefault("corpus" if i.startswith("corpus-") else bits_that_matter(res[i]), []).append(i)
    order = list(by_sig.pop("corpus", []))
    sigs = sorted(by_sig, key=lambda s_: len(by_sig[s_]))
    while any(by_sig.values()):
        for s_ in sigs:
            if by_sig[s_]:
                order.append(by_sig[s_].pop(0))
    max_shrink = max(max_shrink, len([i for i in order if i.startswith("corpus-")]) + (10 if run.quick else 60))
    failing = order
    todo = [j for i in failing[:max_shrink] for j in jobs_for(i)]
    with ThreadPoolExecutor(max_workers=min(12, vlib.NCPU)) as ex:
        shrunk_all = list(ex.map(handle, todo))
    # re-run the shrunk programs under all 16 configurations and the model (for the class predicate)
    if shrunk_all:
        shrunk_all = [(i, sp, sjs, other, tests, "s%d-%s" % (k, i)) for k, (i, sp, sjs, other, tests) in enumerate(shrunk_all)]
        sids = [x[5] for x in shrunk_all]
        sres = run_configs(paths["js"], [x[2] for x in shrunk_all], sids)
        srep = {}
        if model_ok:
            ml = []
            for (i, sp, sjs, other, tests, sid_) in shrunk_all:
                if sp is not None:
                    try:
                        sx, names = G.to_c04(sp)
                        ml.append("run %s %d %s" % (sid_, 1 if sp["p_strict"] else 0, sx))
                    except G.Unsupported:
                        pass
            for k, m in by_id(run_batch([MODEL_BIN], ml)).items():
                if m and m[0] == "ok":
                    srep[k] = {"honest": m[2], "reach_ok": m[6]}
        for (i, sp, sjs, other, tests, sid_) in shrunk_all:
            r16 = sres[sid_]
            if len(set(r16.values())) == 1:
                r16, sjs, sp = res[i], case_by_id[i][2], case_by_id[i][1]      # shrinking lost the difference under 16 configs: keep the original
            if sp is None:
                cls = classify_text(sjs, r16)
            else:
                cls = classify(sp, srep.get(sid_) or model_reports.get(i), r16, PROJECTION.get(other))
            classes[cls] = classes.get(cls, 0) + 1
            groups = {}
            for c, v in r16.items():
                groups.setdefault("%s|%s" % (v[1] if len(v) > 1 else "", v[2] if len(v) > 2 else v[0]), []).append("esc=%d,sw=%d" % c)
            rr = ref.get(i)
            obj = {"kind": "counterexample", "class": cls, "input": sjs, "original_input": case_by_id[i][2] if sjs != case_by_id[i][2] else None,
                   "impl_output": groups, "model_output": ({"trace": rr[1], "completion": rr[2]} if rr and rr[0] == "ok" and sjs == case_by_id[i][2] else None),
                   "switches_that_matter": bits_that_matter(r16), "shrink_tests": tests,
                   "obligation": "16 switch subsets give one trace",
                   "how_to_rerun": "./check replay <this file>   (or: printf 'cfg sw=S esc=E\\nrun x <escaped text>\\n' | harness/target/debug/js)"}
            run.violation(obj)
    for i in failing[max_shrink:]:
        cls = "unshrunk@" + bits_that_matter(res[i])
        classes[cls] = classes.get(cls, 0) + 1
        run.notes.append({"unshrunk_difference": case_by_id[i][2][:300]})
    run.cov["difference_classes"] = classes
    run.cov["shrink_wall_s"] = round(time.time() - t0, 1)

    # correspondence failures: a concrete disagreeing program each; the property oracle already ran on it above
    for cb in corr_bad[:5]:
        found = cb["id"] in failing
        run.violation({"kind": "correspondence-broken", "input": cb["js"], "detail": cb["diffs"],
                       "obligation": "Scope dump of boa's analyzer = extracted Model_C04.analyze on the same AST",
                       "search": "16-subset metamorphic run of this program: %s" % ("traces differ" if found else "no difference"),
                       "how_to_rerun": "./check replay <this file>"}, found_input=found)
    if broken is not None and not failing and not corr_bad:
        run.violation({"kind": "proof-broken", "obligation": "C04/Props_C04.v", "detail": broken,
                       "search": "16-subset metamorphic search over %d programs found no failing input" % len(cases)}, found_input=False)
    elif broken is not None:
        run.notes.append({"proof_broken": broken})
    if not run.cov["samples"] and cases:
        run.sample({"case": cases[-1][2][:400], "configs": {("esc=%d,sw=%d" % c): list(v) for c, v in list(res[cases[-1][0]].items())[:2]}})
    run.assumptions = TRUSTED
    return run.finish()


def replay(obj):
    ok, paths, _ = vlib.harness_build(["scopes", "js"])
    text = obj.get("input", "")
    res = run_configs(paths["js"], [text], ["x"])["x"]
    groups = {}
    for c, v in res.items():
        groups.setdefault("\t".join(v), []).append("esc=%d,sw=%d" % c)
    for k, cs in groups.items():
        print("%s\n    <- %s" % (k, " ".join(cs)))
    out = run_batch([paths["scopes"]], ["run x %s" % A.escape_line(text)])
    print("scopes: " + out[0])
    print("16 traces %s" % ("identical" if len(groups) == 1 else "DIFFER"))
    return 0 if len(groups) == 1 else 1


if __name__ == "__main__":
    sys.exit(main())
