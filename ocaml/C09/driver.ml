(* Driver of the extracted collector model (coq/C09/GcModel.v -> gen/gcmodel.ml).

   driver run SN SM SU SV          read operations (the harness `gcops` text format) from stdin, print the
                                   model's observation line for each, byte-for-byte what the harness prints.
                                   SN SM SU SV = sizes of a node box, a map box, a ()-valued and a Gc-valued
                                   ephemeron box (measured on the harness), to model `bytes_allocated`.
                                   A line whose state is poisoned (the Rust code would panic / dangle) gets the
                                   suffix " POISON"; the rest of that history is answered with "skip".
   driver enum MAXS MAXE DEPTH MEMO FINS CAP SHARD NSHARDS   enumerate operation histories over a bounded universe
                                   (MAXS strong boxes, MAXE ephemeron boxes, DEPTH operations); MEMO=1 prunes
                                   a branch when the same model state was already expanded with at least the
                                   remaining depth (every explored transition still occurs in some history).
                                   Histories are printed one operation per line, terminated by `reset`.
   driver enumg MAXS MAXE DEPTH FINS CAP SHARD NSHARDS   the memoised enumeration with one global table: every shard walks the
                                   whole tree and prints the histories whose index is SHARD modulo NSHARDS
   driver gen SEED COUNT NOPS MAXBOX PROFILE   COUNT seeded random histories of up to NOPS operations keeping at most
                                   MAXBOX strong boxes; PROFILE nores (no resurrecting finalizer) | res
   Everything that decides behaviour is the extracted `step`; this file only parses, prints and enumerates. *)
open Gcmodel

let rec pos_of_int n = if n = 1 then XH else if n land 1 = 0 then XO (pos_of_int (n lsr 1)) else XI (pos_of_int (n lsr 1))
let n_of_int n = if n <= 0 then N0 else Npos (pos_of_int n)
let rec int_of_pos = function XH -> 1 | XO p -> 2 * int_of_pos p | XI p -> 2 * int_of_pos p + 1
let int_of_n = function N0 -> 0 | Npos p -> int_of_pos p
let int_of_nat n = let rec go acc = function O -> acc | S m -> go (acc + 1) m in go 0 n
let nat_of_int n = let rec go acc k = if k <= 0 then acc else go (S acc) (k - 1) in go O n

let ids l = "[" ^ String.concat "," (List.map string_of_int l) ^ "]"
let sorted l = List.sort compare (List.map int_of_n l)
let plain l = List.map int_of_n l

let parse_op (w : string list) : op option =
  let num s = match int_of_string_opt s with Some k when k >= 0 -> Some (n_of_int k) | _ -> None in
  let fin s = match int_of_string_opt s with Some k when k >= 0 -> Some (nat_of_int k) | _ -> None in
  let a1 f = function [x] -> (match num x with Some a -> Some (f a) | None -> None) | _ -> None in
  let a2 f = function [x; y] -> (match num x, num y with Some a, Some b -> Some (f a b) | _ -> None) | _ -> None in
  let a3 f = function [x; y; z] -> (match num x, num y, num z with Some a, Some b, Some c -> Some (f a b c) | _ -> None) | _ -> None in
  match w with
  | [] -> None
  | "new" :: [x] -> (match fin x with Some f -> Some (Alloc f) | None -> None)
  | "newc" :: [x] -> (match fin x with Some f -> Some (AllocCyclic f) | None -> None)
  | "link" :: [x; y; k] when int_of_string_opt k <> None -> a2 (fun a b -> Link (a, b)) [x; y]   (* container shape: harness only *)
  | "link" :: r -> a2 (fun a b -> Link (a, b)) r
  | "unlink" :: r -> a2 (fun a b -> Unlink (a, b)) r
  | "load" :: r -> a2 (fun a b -> Load (a, b)) r
  | "clone" :: r -> a1 (fun a -> Clone a) r
  | "drop" :: r -> a1 (fun a -> Drop a) r
  | "weak" :: r -> a1 (fun a -> MkWeak a) r
  | "eph" :: r -> a2 (fun a b -> MkEph (a, b)) r
  | "clonee" :: r -> a1 (fun a -> CloneE a) r
  | "drope" :: r -> a1 (fun a -> DropE a) r
  | "storee" :: r -> a2 (fun a b -> StoreE (a, b)) r
  | "unstoree" :: r -> a2 (fun a b -> UnstoreE (a, b)) r
  | "loade" :: r -> a2 (fun a b -> LoadE (a, b)) r
  | "upg" :: r -> a1 (fun a -> Upgrade a) r
  | "val" :: r -> a1 (fun a -> EphValue a) r
  | ["wmnew"] -> Some WmNew
  | "wmins" :: r -> a3 (fun a b c -> WmInsert (a, b, c)) r
  | "wmrem" :: r -> a2 (fun a b -> WmRemove (a, b)) r
  | "wmget" :: r -> a2 (fun a b -> WmGet (a, b)) r
  | "read" :: r -> a1 (fun a -> Read a) r
  | ["gc"] -> Some Collect
  | _ -> None

let show_op = function
  | Alloc f -> Printf.sprintf "new %d" (int_of_nat f)
  | AllocCyclic f -> Printf.sprintf "newc %d" (int_of_nat f)
  | Link (a, b) -> Printf.sprintf "link %d %d" (int_of_n a) (int_of_n b)
  | Unlink (a, b) -> Printf.sprintf "unlink %d %d" (int_of_n a) (int_of_n b)
  | Load (a, b) -> Printf.sprintf "load %d %d" (int_of_n a) (int_of_n b)
  | Clone a -> Printf.sprintf "clone %d" (int_of_n a)
  | Drop a -> Printf.sprintf "drop %d" (int_of_n a)
  | MkWeak a -> Printf.sprintf "weak %d" (int_of_n a)
  | MkEph (a, b) -> Printf.sprintf "eph %d %d" (int_of_n a) (int_of_n b)
  | CloneE a -> Printf.sprintf "clonee %d" (int_of_n a)
  | DropE a -> Printf.sprintf "drope %d" (int_of_n a)
  | StoreE (a, b) -> Printf.sprintf "storee %d %d" (int_of_n a) (int_of_n b)
  | UnstoreE (a, b) -> Printf.sprintf "unstoree %d %d" (int_of_n a) (int_of_n b)
  | LoadE (a, b) -> Printf.sprintf "loade %d %d" (int_of_n a) (int_of_n b)
  | Upgrade a -> Printf.sprintf "upg %d" (int_of_n a)
  | EphValue a -> Printf.sprintf "val %d" (int_of_n a)
  | WmNew -> "wmnew"
  | WmInsert (a, b, c) -> Printf.sprintf "wmins %d %d %d" (int_of_n a) (int_of_n b) (int_of_n c)
  | WmRemove (a, b) -> Printf.sprintf "wmrem %d %d" (int_of_n a) (int_of_n b)
  | WmGet (a, b) -> Printf.sprintf "wmget %d %d" (int_of_n a) (int_of_n b)
  | Read a -> Printf.sprintf "read %d" (int_of_n a)
  | Collect -> "gc"

let show_out = function
  | OInv -> "inv"
  | OOk -> "ok"
  | ONode n -> Printf.sprintf "n %d" (int_of_n n)
  | ONodeE (n, e) -> Printf.sprintf "n %d e %d" (int_of_n n) (int_of_n e)
  | OEph e -> Printf.sprintf "e %d" (int_of_n e)
  | OMap (m, e) -> Printf.sprintf "m %d e %d" (int_of_n m) (int_of_n e)
  | OSome n -> Printf.sprintf "some %d" (int_of_n n)
  | ONone -> "none"
  | OUnit -> "unit"
  | OBool b -> if b then "t" else "f"
  | ORead (k, e) -> Printf.sprintf "kids %s ephs %s" (ids (sorted k)) (ids (sorted e))
  | OGc g ->
      let base = Printf.sprintf "fin %s drop %s res %s" (ids (plain g.g_fin)) (ids (plain g.g_drop)) (ids (sorted g.g_res)) in
      if g.g_held = [] then base else base ^ " FREED-WHILE-HELD " ^ ids (plain g.g_held)

let stats (sn, sm, su, sv) (s : state) =
  let nodes = List.length (List.filter (fun b -> not b.s_map) s.strongs) in
  let maps = List.length s.strongs - nodes in
  let eu = List.length (List.filter (fun e -> e.e_unit) s.weaks) in
  let ev = List.length s.weaks - eu in
  Printf.sprintf "%d %d %d %d %d" (List.length s.strongs) (List.length s.weaks) (List.length s.wmaps)
    (nodes * sn + maps * sm + eu * su + ev * sv) (int_of_nat s.colls)

(* `reset` of the harness, expressed with the extracted operations only: Drop / DropE of every external handle,
   finalizers switched off (the harness payload checks its TEARDOWN flag), two collections *)
let teardown (s : state) : state =
  let s = List.fold_left (fun s a -> if s.poisoned then s else fst (step s (Drop a))) s (List.sort compare s.ext_s) in
  let s = List.fold_left (fun s e -> if s.poisoned then s else fst (step s (DropE e))) s (List.sort compare s.ext_e) in
  if s.poisoned then s else begin
    let s = { s with strongs = List.map (fun b -> { b with s_fin = O }) s.strongs } in
    let s = fst (step s Collect) in
    if s.poisoned then s else fst (step s Collect)
  end

let split_ws (l : string) = List.filter (fun x -> x <> "") (String.split_on_char ' ' (String.trim l))

let run_mode sizes =
  let st = ref init and dead = ref false in
  let buf = Buffer.create 65536 in
  (try
     while true do
       let line = input_line stdin in
       let w = split_ws line in
       (match w with
        | [] -> ()
        | ["reset"] ->
            (* the harness drops every handle it holds, switches the payload finalizers to log-only (TEARDOWN)
               and collects twice; the statistics it prints count collections from this point (= 0) *)
            if !dead then Buffer.add_string buf "reset | 0 0 0 0 0\n"
            else begin
              let s1 = teardown !st in
              let z = { s1 with colls = O } in
              Buffer.add_string buf ("reset | " ^ stats sizes z);
              if s1.poisoned then Buffer.add_string buf " POISON";
              Buffer.add_char buf '\n'
            end;
            st := init; dead := false
        | ["quit"] -> raise End_of_file
        | "stress" :: _ -> Buffer.add_string buf ("ok | " ^ stats sizes !st ^ "\n")
        | _ ->
            if !dead then Buffer.add_string buf "skip\n"
            else begin
              let res = match parse_op w with
                | None -> "inv"
                | Some o -> let (s', out) = step !st o in st := s'; show_out out in
              Buffer.add_string buf res; Buffer.add_string buf " | "; Buffer.add_string buf (stats sizes !st);
              if !st.poisoned then (Buffer.add_string buf " POISON"; dead := true);
              Buffer.add_char buf '\n'
            end);
       if Buffer.length buf > 60000 then (print_string (Buffer.contents buf); Buffer.clear buf)
     done
   with End_of_file -> ());
  print_string (Buffer.contents buf)

(* ------------------------------------------------------------------------------------------------ *)
(* bounded enumeration *)

let uniq l = List.sort_uniq compare l
let count x l = List.length (List.filter (fun y -> y = x) l)

let key_of_state (s : state) : string =
  let b = Buffer.create 256 in
  let il l = List.iter (fun x -> Buffer.add_string b (string_of_int (int_of_n x)); Buffer.add_char b ',') l in
  List.iter (fun x ->
      Buffer.add_string b (Printf.sprintf "S%d:%d:%d:%b:" (int_of_n x.s_id) (int_of_nat x.s_rc) (int_of_nat x.s_fin) x.s_map);
      il x.s_kids; Buffer.add_char b '/'; il x.s_ephs; Buffer.add_char b ';') s.strongs;
  List.iter (fun x ->
      Buffer.add_string b (Printf.sprintf "E%d:%d:" (int_of_n x.e_id) (int_of_nat x.e_rc));
      (match x.e_data with
       | None -> Buffer.add_char b '-'
       | Some (k, v) -> Buffer.add_string b (string_of_int (int_of_n k)); Buffer.add_char b '>';
           (match v with Some v -> Buffer.add_string b (string_of_int (int_of_n v)) | None -> Buffer.add_char b 'u'));
      Buffer.add_char b ';') s.weaks;
  Buffer.add_char b 'W'; il s.wmaps;
  Buffer.add_char b 'X'; il (List.sort compare s.ext_s);
  Buffer.add_char b 'Y'; il (List.sort compare s.ext_e);
  Buffer.add_string b (Printf.sprintf "N%d,%d" (int_of_n s.next_s) (int_of_n s.next_e));
  Buffer.contents b

let candidates (s : state) maxs maxe fins cap : op list =
  let ns = int_of_n s.next_s and ne = int_of_n s.next_e in
  let acc = ref [] in
  let add o = acc := o :: !acc in
  let hs = uniq s.ext_s and he = uniq s.ext_e in
  let box a = List.find_opt (fun b -> b.s_id = a) s.strongs in
  let is_node a = match box a with Some b -> not b.s_map | None -> false in
  let is_map a = match box a with Some b -> b.s_map | None -> false in
  let nodes = List.filter is_node hs and maps = List.filter is_map hs in
  if ns < maxs then begin
    List.iter (fun f -> add (Alloc (nat_of_int f))) fins;
    if ne < maxe then begin
      List.iter (fun f -> add (AllocCyclic (nat_of_int f))) fins;
      add WmNew
    end
  end;
  List.iter (fun a ->
      if count a s.ext_s < cap then add (Clone a);
      add (Drop a)) hs;
  List.iter (fun a ->
      add (Read a);
      if ne < maxe then add (MkWeak a);
      let b = match box a with Some b -> b | None -> assert false in
      if List.length b.s_kids < cap then List.iter (fun x -> add (Link (a, x))) hs;
      List.iter (fun x -> add (Unlink (a, x)); if count x s.ext_s < cap then add (Load (a, x))) (uniq b.s_kids);
      if List.length b.s_ephs < cap then List.iter (fun e -> add (StoreE (a, e))) he;
      List.iter (fun e -> add (UnstoreE (a, e)); if count e s.ext_e < cap then add (LoadE (a, e))) (uniq b.s_ephs);
      if ne < maxe then List.iter (fun v -> add (MkEph (a, v))) nodes) nodes;
  List.iter (fun e ->
      if count e s.ext_e < cap then add (CloneE e);
      add (DropE e); add (Upgrade e); add (EphValue e)) he;
  List.iter (fun m ->
      List.iter (fun k ->
          add (WmRemove (m, k)); add (WmGet (m, k));
          if ne < maxe then List.iter (fun v -> add (WmInsert (m, k, v))) nodes) nodes) maps;
  add Collect;
  List.rev !acc

let enum_mode ?(global = false) maxs maxe depth memo fins cap shard nshards =
  let seen : (string, int) Hashtbl.t = Hashtbl.create 100000 in
  let histories = ref 0 and edges = ref 0 and poisoned = ref 0 in
  let out = Buffer.create 65536 in
  let emit (rev_ops : op list) =
    if rev_ops <> [] then begin
      (* global mode: every process walks the whole (memoised) tree and prints its share of the histories *)
      if (not global) || (!histories mod nshards = shard) then begin
        List.iter (fun o -> Buffer.add_string out (show_op o); Buffer.add_char out '\n') (List.rev rev_ops);
        Buffer.add_string out "reset\n";
        if Buffer.length out > 60000 then (print_string (Buffer.contents out); Buffer.clear out)
      end;
      incr histories
    end in
  let rec dfs (s : state) rev_ops left =
    if left = 0 then emit rev_ops
    else begin
      let expand =
        if memo then begin
          let k = key_of_state s in
          match Hashtbl.find_opt seen k with
          | Some d when d >= left -> false
          | _ -> Hashtbl.replace seen k left; true
        end else true in
      if not expand then emit rev_ops
      else
        List.iter (fun o ->
            incr edges;
            let (s', _) = step s o in
            if s'.poisoned then (incr poisoned; emit (o :: rev_ops))
            else dfs s' (o :: rev_ops) (left - 1)) (candidates s maxs maxe fins cap)
    end in
  (* sharding: the prefixes of length min 3 depth are numbered in DFS order; shard k owns those = k mod n *)
  let plen = min 3 depth in
  let counter = ref 0 in
  let rec prefixes (s : state) rev_ops k =
    if k = 0 then begin
      let mine = (!counter mod nshards) = shard in
      incr counter;
      if mine then dfs s rev_ops (depth - plen)
    end else
      List.iter (fun o ->
          let (s', _) = step s o in
          if s'.poisoned then begin
            let mine = (!counter mod nshards) = shard in
            incr counter;
            if mine then (incr poisoned; emit (o :: rev_ops))
          end else prefixes s' (o :: rev_ops) (k - 1)) (candidates s maxs maxe fins cap) in
  if global then dfs init [] depth else prefixes init [] plen;
  print_string (Buffer.contents out);
  Printf.eprintf "enum shard %d/%d: histories=%d edges=%d states=%d poisoned_leaves=%d\n" shard nshards !histories !edges (Hashtbl.length seen) !poisoned

(* ------------------------------------------------------------------------------------------------ *)
(* seeded random histories: picks among the operations that are valid in the current model state
   (plus a malformed stream), with macro patterns for the shapes the property singles out *)

let gen_mode seed count nops maxbox profile =
  Random.init seed;
  let pick l = List.nth l (Random.int (List.length l)) in
  let out = Buffer.create 65536 in
  let flush_if () = if Buffer.length out > 60000 then (print_string (Buffer.contents out); Buffer.clear out) in
  let fins () = match profile with
    | "nores" -> 0
    | _ -> (match Random.int 10 with 0 | 1 | 2 -> 1 | 3 -> 2 | _ -> 0) in
  for _h = 1 to count do
    let st = ref init and n = ref 0 and stop = ref false in
    let emit_raw (line : string) = Buffer.add_string out line; Buffer.add_char out '\n'; incr n in
    let doop (o : op) =
      if not !stop then begin
        let (s', _) = step !st o in
        st := s'; emit_raw (show_op o);
        if s'.poisoned then stop := true
      end in
    let fresh_s () = !st.next_s and fresh_e () = !st.next_e in
    let hs () = uniq !st.ext_s and he () = uniq !st.ext_e in
    let box a = List.find_opt (fun b -> b.s_id = a) !st.strongs in
    let is_node a = match box a with Some b -> not b.s_map | None -> false in
    let nodes () = List.filter is_node (hs ()) in
    let maps () = List.filter (fun a -> not (is_node a)) (hs ()) in
    let macro () =
      match Random.int 9 with
      | 0 -> (* cycle of length 2 or 3, then maybe dropped *)
          let a = fresh_s () in doop (Alloc (nat_of_int (fins ())));
          let b = fresh_s () in doop (Alloc (nat_of_int (fins ())));
          doop (Link (a, b)); doop (Link (b, a));
          if Random.bool () then (let c = fresh_s () in doop (Alloc O); doop (Link (b, c)); doop (Link (c, a)); doop (Drop c));
          if Random.int 3 > 0 then doop (Drop a); if Random.int 3 > 0 then doop (Drop b)
      | 1 -> (* self reference *)
          let a = fresh_s () in doop (Alloc (nat_of_int (fins ()))); doop (Link (a, a));
          if Random.bool () then doop (MkWeak a); if Random.int 3 > 0 then doop (Drop a)
      | 2 -> (* ephemeron whose key is reachable only from its own value *)
          let k = fresh_s () in doop (Alloc O); let v = fresh_s () in doop (Alloc O);
          doop (Link (v, k)); let e = fresh_e () in doop (MkEph (k, v)); doop (Drop k); doop (Drop v);
          (match Random.int 3 with
           | 0 -> ()
           | 1 -> (match nodes () with [] -> () | l -> doop (StoreE (pick l, e)); doop (DropE e))
           | _ -> doop (Collect); doop (Upgrade e))
      | 3 -> (* ephemeron chain allocated in the order that needs the fix-point loop *)
          (match nodes () with
           | [] -> ()
           | l ->
               let k0 = pick l in
               let v1 = fresh_s () in doop (Alloc O); let v2 = fresh_s () in doop (Alloc O);
               let v3 = fresh_s () in doop (Alloc O);
               doop (MkEph (v2, v3)); doop (MkEph (v1, v2)); doop (MkEph (k0, v1));
               doop (Drop v1); doop (Drop v2); doop (Drop v3);
               if Random.bool () then doop Collect)
      | 4 -> (* cycle through a weak map: value -> node holding the map -> map *)
          let m = fresh_s () in doop WmNew;
          let k = fresh_s () in doop (Alloc O); let v = fresh_s () in doop (Alloc (nat_of_int (fins ())));
          doop (Link (v, m)); doop (WmInsert (m, k, v));
          if Random.bool () then doop (Link (v, k));
          doop (Drop m); doop (Drop v); if Random.bool () then doop (Drop k)
      | 5 -> (* new_cyclic node, weak self handle taken out *)
          let a = fresh_s () in let e = fresh_e () in doop (AllocCyclic (nat_of_int (fins ())));
          doop (LoadE (a, e)); if Random.bool () then doop (Drop a); doop Collect; doop (Upgrade e)
      | 6 -> (* parent with resurrecting finalizer over a shared / unshared child *)
          if profile <> "nores" then begin
            let p = fresh_s () in doop (Alloc (nat_of_int (1 + Random.int 2)));
            let c = fresh_s () in doop (Alloc O);
            doop (Link (p, c)); if Random.bool () then doop (Link (p, p));
            doop (Drop p); if Random.bool () then doop (Drop c); doop Collect
          end
      | 7 -> (* weak map entry overwritten and removed *)
          (match maps (), nodes () with
           | m :: _, (_ :: _ as l) -> let k = pick l in doop (WmInsert (m, k, pick l)); doop (WmInsert (m, k, pick l));
               doop (WmGet (m, k)); if Random.bool () then doop (WmRemove (m, k))
           | _ -> ())
      | _ -> (* drop everything then collect twice *)
          if Random.int 4 = 0 then begin
            List.iter (fun a -> doop (Drop a)) !st.ext_s; List.iter (fun e -> doop (DropE e)) !st.ext_e;
            doop Collect; doop Collect
          end in
    let malformed () =
      let big () = Random.int 6 + (if Random.bool () then int_of_n !st.next_s else 0) in
      let l = match Random.int 12 with
        | 0 -> Printf.sprintf "link %d %d" (big ()) (big ()) | 1 -> Printf.sprintf "drop %d" (big ())
        | 2 -> Printf.sprintf "upg %d" (big ()) | 3 -> Printf.sprintf "wmins %d %d %d" (big ()) (big ()) (big ())
        | 4 -> Printf.sprintf "unlink %d %d" (big ()) (big ()) | 5 -> Printf.sprintf "weak %d" (big ())
        | 6 -> Printf.sprintf "eph %d %d" (big ()) (big ()) | 7 -> Printf.sprintf "storee %d %d" (big ()) (big ())
        | 8 -> Printf.sprintf "val %d" (big ()) | 9 -> Printf.sprintf "wmget %d %d" (big ()) (big ())
        | 10 -> "frobnicate 1" | _ -> Printf.sprintf "read %d" (big ()) in
      (match parse_op (split_ws l) with
       | Some o -> doop o
       | None -> emit_raw l) in
    let target = 3 + Random.int (max 1 (maxbox / 2)) in     (* how many handles the mutator tries to keep *)
    while not !stop && !n < nops do
      let nlive = List.length !st.strongs in
      let nh = List.length !st.ext_s in
      let r = Random.int 100 in
      if r < 4 then macro ()
      else if r < 6 then malformed ()
      else if r < 10 then doop Collect
      else begin
        let w_alloc = if nlive >= maxbox then 0 else if nh < target then 14 else 4 in
        let w_drop = if nh > target then 14 else 5 in
        (* choose a kind by weight, then sample an instance of that kind from the model state (no enumeration
           of all candidates: with 200 boxes there are tens of thousands); an impossible kind is re-drawn *)
        let hs = Array.of_list (hs ()) and he = Array.of_list (he ()) in
        let nodes = Array.of_list (List.filter is_node (Array.to_list hs)) in
        let maps = Array.of_list (List.filter (fun a -> not (is_node a)) (Array.to_list hs)) in
        let pa a = a.(Random.int (Array.length a)) in
        let some a = Array.length a > 0 in
        let kinds = [| (w_alloc, 0); (w_alloc, 1); (w_alloc, 2); (w_drop, 3); (5, 4); (12, 5); (5, 6); (4, 7); (2, 8); (1, 9);
                       (3, 10); (4, 11); (3, 12); (2, 13); (2, 14); (4, 15); (3, 16); (5, 17); (2, 18); (2, 19); (2, 20) |] in
        let total = Array.fold_left (fun a (w, _) -> a + w) 0 kinds in
        let draw () =
          let x = ref (Random.int total) and k = ref (-1) in
          Array.iter (fun (w, i) -> if !k < 0 then (if !x < w then k := i else x := !x - w)) kinds; !k in
        let kids_of a = match box a with Some b -> b.s_kids | None -> [] in
        let ephs_of a = match box a with Some b -> b.s_ephs | None -> [] in
        let inst k : op option =
          match k with
          | 0 -> Some (Alloc (nat_of_int (fins ())))
          | 1 -> Some (AllocCyclic (nat_of_int (fins ())))
          | 2 -> Some WmNew
          | 3 -> if some hs then Some (Drop (pa hs)) else None
          | 4 -> if some he then Some (DropE (pa he)) else None
          | 5 -> if some nodes then Some (Link (pa nodes, pa hs)) else None
          | 6 | 7 -> if some nodes then (let a = pa nodes in match kids_of a with [] -> None
                                         | l -> let x = pick l in Some (if k = 6 then Unlink (a, x) else Load (a, x))) else None
          | 8 -> if some hs then Some (Clone (pa hs)) else None
          | 9 -> if some he then Some (CloneE (pa he)) else None
          | 10 -> if some nodes then Some (MkWeak (pa nodes)) else None
          | 11 -> if some nodes then Some (MkEph (pa nodes, pa nodes)) else None
          | 12 -> if some nodes && some he then Some (StoreE (pa nodes, pa he)) else None
          | 13 | 14 -> if some nodes then (let a = pa nodes in match ephs_of a with [] -> None
                                           | l -> let x = pick l in Some (if k = 13 then UnstoreE (a, x) else LoadE (a, x))) else None
          | 15 -> if some he then Some (Upgrade (pa he)) else None
          | 16 -> if some he then Some (EphValue (pa he)) else None
          | 17 -> if some maps && some nodes then Some (WmInsert (pa maps, pa nodes, pa nodes)) else None
          | 18 -> if some maps && some nodes then Some (WmRemove (pa maps, pa nodes)) else None
          | 19 -> if some maps && some nodes then Some (WmGet (pa maps, pa nodes)) else None
          | _ -> if some nodes then Some (Read (pa nodes)) else None in
        let rec go tries = if tries = 0 then doop (Alloc O) else
            (match inst (draw ()) with Some o -> doop o | None -> go (tries - 1)) in
        if total = 0 then doop Collect else go 30
      end
    done;
    emit_raw "reset"; flush_if ()
  done;
  print_string (Buffer.contents out)

let () =
  match Array.to_list Sys.argv with
  | [_; "run"; a; b; c; d] -> run_mode (int_of_string a, int_of_string b, int_of_string c, int_of_string d)
  | [_; "enum"; maxs; maxe; depth; memo; fins; cap; shard; nshards] ->
      let fins = List.map int_of_string (String.split_on_char ',' fins) in
      enum_mode (int_of_string maxs) (int_of_string maxe) (int_of_string depth) (memo = "1") fins (int_of_string cap)
        (int_of_string shard) (int_of_string nshards)
  | [_; "enumg"; maxs; maxe; depth; fins; cap; shard; nshards] ->
      let fins = List.map int_of_string (String.split_on_char ',' fins) in
      enum_mode ~global:true (int_of_string maxs) (int_of_string maxe) (int_of_string depth) true fins (int_of_string cap)
        (int_of_string shard) (int_of_string nshards)
  | [_; "gen"; seed; count; nops; maxbox; profile] ->
      gen_mode (int_of_string seed) (int_of_string count) (int_of_string nops) (int_of_string maxbox) profile
  | _ -> prerr_endline "usage: driver run SN SM SU SV | driver enum MAXS MAXE DEPTH MEMO FINS CAP | driver gen SEED COUNT NOPS MAXBOX PROFILE"; exit 2
