#!/bin/bash
# Build the model driver: extraction (coqc on coq/C09/Extract_C09.v, after GcModel.vo exists) + ocamlfind ocamlopt.
# Usage: build.sh   (idempotent; rebuilds when GcModel.v / Extract_C09.v / driver.ml are newer than the binary)
set -eu
HERE="$(cd "$(dirname "$0")" && pwd)"
COQ="$HERE/../../coq"
mkdir -p "$HERE/gen"
BIN="$HERE/gen/driver"
if [ ! -x "$BIN" ] || [ "$COQ/C09/GcModel.v" -nt "$BIN" ] || [ "$COQ/C09/Extract_C09.v" -nt "$BIN" ] || [ "$HERE/driver.ml" -nt "$BIN" ]; then
  cd "$HERE/gen"
  if [ ! -f "$COQ/C09/GcModel.vo" ] || [ "$COQ/C09/GcModel.v" -nt "$COQ/C09/GcModel.vo" ]; then
    echo "GcModel.vo missing or stale (build it through the Coq Makefile first)" >&2
    exit 3
  fi
  timeout 600 coqc -noglob -Q "$COQ/Common" Common -Q "$COQ/C09" C09 -o "$HERE/gen/Extract_C09.vo" "$COQ/C09/Extract_C09.v" > "$HERE/gen/extract.log" 2>&1
  cp "$HERE/driver.ml" "$HERE/gen/driver.ml"
  timeout 600 ocamlfind ocamlopt -w -a -package str gcmodel.mli gcmodel.ml driver.ml -o driver
fi
echo "$BIN"
