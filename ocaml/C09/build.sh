#!/bin/bash
# Build the model driver: extraction (coqc on coq/C09/Extract_C09.v, after GcModel.vo exists) + ocamlfind ocamlopt.
# Usage: build.sh   (idempotent; rebuilds when GcModel.v / Extract_C09.v / driver.ml are newer than the binary)
# All generated / compiled output goes to ocaml/C09/_build/ (git-ignored); nothing is written next to the sources.
set -eu
HERE="$(cd "$(dirname "$0")" && pwd)"
COQ="$HERE/../../coq"
OUT="$HERE/_build"
mkdir -p "$OUT"
BIN="$OUT/driver"
(
  flock 9
  if [ ! -x "$BIN" ] || [ "$COQ/C09/GcModel.v" -nt "$BIN" ] || [ "$COQ/C09/Extract_C09.v" -nt "$BIN" ] || [ "$HERE/driver.ml" -nt "$BIN" ] || [ "$HERE/build.sh" -nt "$BIN" ]; then
    if [ ! -f "$COQ/C09/GcModel.vo" ] || [ "$COQ/C09/GcModel.v" -nt "$COQ/C09/GcModel.vo" ]; then
      echo "GcModel.vo missing or stale (build it through the Coq Makefile first)" >&2
      exit 3
    fi
    # Extract_C09.v writes ../ocaml/C09/_build/gcmodel.ml{,i} relative to coq/ (the .vo goes to _build too)
    (cd "$COQ" && timeout 600 coqc -noglob -Q Common Common -Q C09 C09 -o "$OUT/Extract_C09.vo" C09/Extract_C09.v) > "$OUT/extract.log" 2>&1
    cd "$OUT"
    cp "$HERE/driver.ml" "$OUT/driver.ml"
    timeout 600 ocamlfind ocamlopt -O3 -w -a -package str gcmodel.mli gcmodel.ml driver.ml -o driver.tmp 2>/dev/null \
      || timeout 600 ocamlfind ocamlopt -w -a -package str gcmodel.mli gcmodel.ml driver.ml -o driver.tmp
    mv driver.tmp driver
  fi
) 9> "$OUT/.lock"
echo "$BIN"
