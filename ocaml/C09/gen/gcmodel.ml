
(** val negb : bool -> bool **)

let negb = function
| true -> false
| false -> true

type nat =
| O
| S of nat

(** val length : 'a1 list -> nat **)

let rec length = function
| [] -> O
| _ :: l' -> S (length l')

(** val app : 'a1 list -> 'a1 list -> 'a1 list **)

let rec app l m =
  match l with
  | [] -> m
  | a :: l1 -> a :: (app l1 m)

(** val add : nat -> nat -> nat **)

let rec add n0 m =
  match n0 with
  | O -> m
  | S p -> S (add p m)

(** val sub : nat -> nat -> nat **)

let rec sub n0 m =
  match n0 with
  | O -> n0
  | S k -> (match m with
            | O -> n0
            | S l -> sub k l)

module Nat =
 struct
  (** val eqb : nat -> nat -> bool **)

  let rec eqb n0 m =
    match n0 with
    | O -> (match m with
            | O -> true
            | S _ -> false)
    | S n' -> (match m with
               | O -> false
               | S m' -> eqb n' m')

  (** val leb : nat -> nat -> bool **)

  let rec leb n0 m =
    match n0 with
    | O -> true
    | S n' -> (match m with
               | O -> false
               | S m' -> leb n' m')

  (** val ltb : nat -> nat -> bool **)

  let ltb n0 m =
    leb (S n0) m
 end

(** val map : ('a1 -> 'a2) -> 'a1 list -> 'a2 list **)

let rec map f = function
| [] -> []
| a :: t -> (f a) :: (map f t)

(** val flat_map : ('a1 -> 'a2 list) -> 'a1 list -> 'a2 list **)

let rec flat_map f = function
| [] -> []
| x :: t -> app (f x) (flat_map f t)

(** val fold_left : ('a1 -> 'a2 -> 'a1) -> 'a2 list -> 'a1 -> 'a1 **)

let rec fold_left f l a0 =
  match l with
  | [] -> a0
  | b :: t -> fold_left f t (f a0 b)

(** val existsb : ('a1 -> bool) -> 'a1 list -> bool **)

let rec existsb f = function
| [] -> false
| a :: l0 -> (||) (f a) (existsb f l0)

(** val forallb : ('a1 -> bool) -> 'a1 list -> bool **)

let rec forallb f = function
| [] -> true
| a :: l0 -> (&&) (f a) (forallb f l0)

(** val filter : ('a1 -> bool) -> 'a1 list -> 'a1 list **)

let rec filter f = function
| [] -> []
| x :: l0 -> if f x then x :: (filter f l0) else filter f l0

(** val find : ('a1 -> bool) -> 'a1 list -> 'a1 option **)

let rec find f = function
| [] -> None
| x :: tl -> if f x then Some x else find f tl

(** val firstn : nat -> 'a1 list -> 'a1 list **)

let rec firstn n0 l =
  match n0 with
  | O -> []
  | S n1 -> (match l with
             | [] -> []
             | a :: l0 -> a :: (firstn n1 l0))

type positive =
| XI of positive
| XO of positive
| XH

type n =
| N0
| Npos of positive

module Pos =
 struct
  (** val succ : positive -> positive **)

  let rec succ = function
  | XI p -> XO (succ p)
  | XO p -> XI p
  | XH -> XO XH

  (** val eqb : positive -> positive -> bool **)

  let rec eqb p q =
    match p with
    | XI p0 -> (match q with
                | XI q0 -> eqb p0 q0
                | _ -> false)
    | XO p0 -> (match q with
                | XO q0 -> eqb p0 q0
                | _ -> false)
    | XH -> (match q with
             | XH -> true
             | _ -> false)
 end

module N =
 struct
  (** val succ : n -> n **)

  let succ = function
  | N0 -> Npos XH
  | Npos p -> Npos (Pos.succ p)

  (** val eqb : n -> n -> bool **)

  let eqb n0 m =
    match n0 with
    | N0 -> (match m with
             | N0 -> true
             | Npos _ -> false)
    | Npos p -> (match m with
                 | N0 -> false
                 | Npos q -> Pos.eqb p q)
 end

type id = n

type sbox = { s_id : id; s_rc : nat; s_kids : id list; s_ephs : id list;
              s_fin : nat; s_map : bool }

type ebox = { e_id : id; e_rc : nat; e_data : (id * id option) option;
              e_unit : bool }

type state = { strongs : sbox list; weaks : ebox list; wmaps : id list;
               ext_s : id list; ext_e : id list; next_s : id; next_e : 
               id; colls : nat; poisoned : bool }

(** val init : state **)

let init =
  { strongs = []; weaks = []; wmaps = []; ext_s = []; ext_e = []; next_s =
    N0; next_e = N0; colls = O; poisoned = false }

(** val memb : id -> id list -> bool **)

let memb n0 l =
  existsb (N.eqb n0) l

(** val remove1 : id -> id list -> id list **)

let rec remove1 n0 = function
| [] -> []
| x :: t -> if N.eqb n0 x then t else x :: (remove1 n0 t)

(** val find_s : id -> sbox list -> sbox option **)

let find_s n0 sb =
  find (fun b -> N.eqb b.s_id n0) sb

(** val find_e : id -> ebox list -> ebox option **)

let find_e n0 w =
  find (fun e -> N.eqb e.e_id n0) w

(** val upd_s : id -> (sbox -> sbox) -> sbox list -> sbox list **)

let upd_s n0 f sb =
  map (fun b -> if N.eqb b.s_id n0 then f b else b) sb

(** val upd_e : id -> (ebox -> ebox) -> ebox list -> ebox list **)

let upd_e n0 f w =
  map (fun e -> if N.eqb e.e_id n0 then f e else e) w

(** val set_rc : nat -> sbox -> sbox **)

let set_rc r b =
  { s_id = b.s_id; s_rc = r; s_kids = b.s_kids; s_ephs = b.s_ephs; s_fin =
    b.s_fin; s_map = b.s_map }

(** val set_kids : id list -> sbox -> sbox **)

let set_kids k b =
  { s_id = b.s_id; s_rc = b.s_rc; s_kids = k; s_ephs = b.s_ephs; s_fin =
    b.s_fin; s_map = b.s_map }

(** val set_ephs : id list -> sbox -> sbox **)

let set_ephs k b =
  { s_id = b.s_id; s_rc = b.s_rc; s_kids = b.s_kids; s_ephs = k; s_fin =
    b.s_fin; s_map = b.s_map }

(** val set_erc : nat -> ebox -> ebox **)

let set_erc r e =
  { e_id = e.e_id; e_rc = r; e_data = e.e_data; e_unit = e.e_unit }

(** val set_data : (id * id option) option -> ebox -> ebox **)

let set_data d e =
  { e_id = e.e_id; e_rc = e.e_rc; e_data = d; e_unit = e.e_unit }

(** val set_strongs : sbox list -> state -> state **)

let set_strongs sb s =
  { strongs = sb; weaks = s.weaks; wmaps = s.wmaps; ext_s = s.ext_s; ext_e =
    s.ext_e; next_s = s.next_s; next_e = s.next_e; colls = s.colls;
    poisoned = s.poisoned }

(** val set_weaks : ebox list -> state -> state **)

let set_weaks w s =
  { strongs = s.strongs; weaks = w; wmaps = s.wmaps; ext_s = s.ext_s; ext_e =
    s.ext_e; next_s = s.next_s; next_e = s.next_e; colls = s.colls;
    poisoned = s.poisoned }

(** val set_wmaps : id list -> state -> state **)

let set_wmaps m s =
  { strongs = s.strongs; weaks = s.weaks; wmaps = m; ext_s = s.ext_s; ext_e =
    s.ext_e; next_s = s.next_s; next_e = s.next_e; colls = s.colls;
    poisoned = s.poisoned }

(** val set_ext_s : id list -> state -> state **)

let set_ext_s x s =
  { strongs = s.strongs; weaks = s.weaks; wmaps = s.wmaps; ext_s = x; ext_e =
    s.ext_e; next_s = s.next_s; next_e = s.next_e; colls = s.colls;
    poisoned = s.poisoned }

(** val set_ext_e : id list -> state -> state **)

let set_ext_e x s =
  { strongs = s.strongs; weaks = s.weaks; wmaps = s.wmaps; ext_s = s.ext_s;
    ext_e = x; next_s = s.next_s; next_e = s.next_e; colls = s.colls;
    poisoned = s.poisoned }

(** val set_poison : state -> state **)

let set_poison s =
  { strongs = s.strongs; weaks = s.weaks; wmaps = s.wmaps; ext_s = s.ext_s;
    ext_e = s.ext_e; next_s = s.next_s; next_e = s.next_e; colls = s.colls;
    poisoned = true }

(** val bump_s : state -> state **)

let bump_s s =
  { strongs = s.strongs; weaks = s.weaks; wmaps = s.wmaps; ext_s = s.ext_s;
    ext_e = s.ext_e; next_s = (N.succ s.next_s); next_e = s.next_e; colls =
    s.colls; poisoned = s.poisoned }

(** val bump_e : state -> state **)

let bump_e s =
  { strongs = s.strongs; weaks = s.weaks; wmaps = s.wmaps; ext_s = s.ext_s;
    ext_e = s.ext_e; next_s = s.next_s; next_e = (N.succ s.next_e); colls =
    s.colls; poisoned = s.poisoned }

(** val bump_colls : state -> state **)

let bump_colls s =
  { strongs = s.strongs; weaks = s.weaks; wmaps = s.wmaps; ext_s = s.ext_s;
    ext_e = s.ext_e; next_s = s.next_s; next_e = s.next_e; colls = (S
    s.colls); poisoned = s.poisoned }

(** val inc_s : id -> state -> state **)

let inc_s n0 s =
  set_strongs (upd_s n0 (fun b -> set_rc (S b.s_rc) b) s.strongs) s

(** val dec_s : id -> state -> state **)

let dec_s n0 s =
  match find_s n0 s.strongs with
  | Some b ->
    (match b.s_rc with
     | O -> set_poison s
     | S r -> set_strongs (upd_s n0 (set_rc r) s.strongs) s)
  | None -> set_poison s

(** val inc_e : id -> state -> state **)

let inc_e n0 s =
  set_weaks (upd_e n0 (fun e -> set_erc (S e.e_rc) e) s.weaks) s

(** val dec_e : id -> state -> state **)

let dec_e n0 s =
  match find_e n0 s.weaks with
  | Some e ->
    (match e.e_rc with
     | O -> set_poison s
     | S r -> set_weaks (upd_e n0 (set_erc r) s.weaks) s)
  | None -> set_poison s

(** val gain_ext : id -> state -> state **)

let gain_ext n0 s =
  set_ext_s (n0 :: s.ext_s) (inc_s n0 s)

(** val lose_ext : id -> state -> state **)

let lose_ext n0 s =
  set_ext_s (remove1 n0 s.ext_s) (dec_s n0 s)

(** val gain_exte : id -> state -> state **)

let gain_exte e s =
  set_ext_e (e :: s.ext_e) (inc_e e s)

(** val lose_exte : id -> state -> state **)

let lose_exte e s =
  set_ext_e (remove1 e s.ext_e) (dec_e e s)

(** val gain_kid : id -> id -> state -> state **)

let gain_kid a n0 s =
  let s1 = inc_s n0 s in
  set_strongs
    (upd_s a (fun b -> set_kids (app b.s_kids (n0 :: [])) b) s1.strongs) s1

(** val lose_kid : id -> id -> state -> state **)

let lose_kid a n0 s =
  let s1 =
    set_strongs
      (upd_s a (fun b -> set_kids (remove1 n0 b.s_kids) b) s.strongs) s
  in
  dec_s n0 s1

(** val gain_stored : id -> id -> state -> state **)

let gain_stored a e s =
  let s1 = inc_e e s in
  set_strongs
    (upd_s a (fun b -> set_ephs (app b.s_ephs (e :: [])) b) s1.strongs) s1

(** val lose_stored : id -> id -> state -> state **)

let lose_stored a e s =
  let s1 =
    set_strongs
      (upd_s a (fun b -> set_ephs (remove1 e b.s_ephs) b) s.strongs) s
  in
  dec_e e s1

(** val eph_value : ebox -> id list **)

let eph_value e =
  match e.e_data with
  | Some p -> let (_, o) = p in (match o with
                                 | Some v -> v :: []
                                 | None -> [])
  | None -> []

(** val inner_s : sbox list -> ebox list -> id list **)

let inner_s sb w =
  app (flat_map (fun s -> s.s_kids) sb) (flat_map eph_value w)

(** val inner_e : sbox list -> id list **)

let inner_e sb =
  flat_map (fun s -> s.s_ephs) sb

(** val inc_nrc : nat -> id -> nat -> id -> nat **)

let inc_nrc rc n0 c h =
  if N.eqb h n0 then if Nat.ltb c rc then S c else c else c

(** val nrc_of : nat -> id -> id list -> nat **)

let nrc_of rc n0 handles =
  fold_left (inc_nrc rc n0) handles O

(** val nrc_tab_s : sbox list -> ebox list -> (id * nat) list **)

let nrc_tab_s sb w =
  map (fun b -> (b.s_id, (nrc_of b.s_rc b.s_id (inner_s sb w)))) sb

(** val nrc_tab_e : sbox list -> ebox list -> (id * nat) list **)

let nrc_tab_e sb w =
  map (fun e -> (e.e_id, (nrc_of e.e_rc e.e_id (inner_e sb)))) w

(** val lookup : (id * nat) list -> id -> nat **)

let rec lookup tab n0 =
  match tab with
  | [] -> O
  | p :: t -> let (k, v) = p in if N.eqb k n0 then v else lookup t n0

(** val rooted : (id * nat) list -> id -> nat -> bool **)

let rooted tab n0 rc =
  Nat.ltb (lookup tab n0) rc

(** val drain :
    nat -> sbox list -> id list -> id list -> id list -> id list * id list **)

let rec drain fuel sb q ms me =
  match fuel with
  | O -> (ms, me)
  | S f ->
    (match q with
     | [] -> (ms, me)
     | n0 :: q' ->
       if memb n0 ms
       then drain f sb q' ms me
       else (match find_s n0 sb with
             | Some b ->
               drain f sb (app q' b.s_kids) (n0 :: ms) (app b.s_ephs me)
             | None -> drain f sb q' (n0 :: ms) me))

(** val mark_fuel : sbox list -> nat **)

let mark_fuel sb =
  add (add (S (S O)) (length sb)) (length (flat_map (fun s -> s.s_kids) sb))

(** val eph_trace : ebox -> id list -> id list -> bool * id list **)

let eph_trace e ms me =
  if memb e.e_id me
  then (match e.e_data with
        | Some p ->
          let (k, v) = p in
          if memb k ms
          then (true, (match v with
                       | Some x -> x :: []
                       | None -> []))
          else (false, [])
        | None -> (true, []))
  else (false, [])

(** val phase0 :
    nat -> sbox list -> (id * nat) list -> sbox list -> id list -> id list ->
    id list -> (id list * id list) * id list **)

let rec phase0 fuel sb tabS l ms me dead =
  match l with
  | [] -> ((ms, me), dead)
  | b :: l' ->
    if rooted tabS b.s_id b.s_rc
    then let (ms1, me1) = drain fuel sb (b.s_id :: []) ms me in
         phase0 fuel sb tabS l' ms1 me1 dead
    else if memb b.s_id ms
         then phase0 fuel sb tabS l' ms me dead
         else phase0 fuel sb tabS l' ms me (app dead (b.s_id :: []))

(** val phase1 :
    nat -> sbox list -> (id * nat) list -> ebox list -> id list -> id list ->
    ebox list -> (id list * id list) * ebox list **)

let rec phase1 fuel sb tabE l ms me pending =
  match l with
  | [] -> ((ms, me), pending)
  | e :: l' ->
    let me1 = if rooted tabE e.e_id e.e_rc then e.e_id :: me else me in
    let (ok, q) = eph_trace e ms me1 in
    let pending1 = if ok then pending else app pending (e :: []) in
    let (ms2, me2) = drain fuel sb q ms me1 in
    phase1 fuel sb tabE l' ms2 me2 pending1

(** val phase2 : ebox list -> id list -> id list -> id list **)

let rec phase2 w wm me =
  match wm with
  | [] -> me
  | w0 :: wm' ->
    (match find_e w0 w with
     | Some e ->
       (match e.e_data with
        | Some _ -> phase2 w wm' (w0 :: me)
        | None -> phase2 w wm' me)
     | None -> phase2 w wm' me)

(** val retain_pass :
    nat -> sbox list -> ebox list -> id list -> id list -> (ebox list * id
    list) * id list **)

let rec retain_pass fuel sb l ms me =
  match l with
  | [] -> (([], ms), me)
  | e :: l' ->
    let (ok, q) = eph_trace e ms me in
    let (ms1, me1) = drain fuel sb q ms me in
    let (p, me2) = retain_pass fuel sb l' ms1 me1 in
    let (kept, ms2) = p in (((if ok then kept else e :: kept), ms2), me2)

(** val eph_loop :
    nat -> nat -> sbox list -> ebox list -> id list -> id list -> (ebox
    list * id list) * id list **)

let rec eph_loop rounds fuel sb pending ms me =
  match rounds with
  | O -> ((pending, ms), me)
  | S r ->
    let (p, me1) = retain_pass fuel sb pending ms me in
    let (kept, ms1) = p in
    if Nat.eqb (length kept) (length pending)
    then ((kept, ms1), me1)
    else eph_loop r fuel sb kept ms1 me1

(** val unmarked : id list -> id list -> id list **)

let unmarked ms l =
  filter (fun n0 -> negb (memb n0 ms)) l

(** val mark_heap :
    sbox list -> ebox list -> id list -> (id * nat) list -> (id * nat) list
    -> id list -> id list -> ((id list * id list) * id list) * ebox list **)

let mark_heap sb w wm tabS tabE ms me =
  let fuel = mark_fuel sb in
  let (p, dead0) = phase0 fuel sb tabS sb ms me [] in
  let (ms0, me0) = p in
  (match w with
   | [] -> (((ms0, me0), (unmarked ms0 dead0)), [])
   | _ :: _ ->
     let (p0, pend1) = phase1 fuel sb tabE w ms0 me0 [] in
     let (ms1, me1) = p0 in
     let me2 = phase2 w wm me1 in
     let (p1, me3) = eph_loop (S (length pend1)) fuel sb pend1 ms1 me2 in
     let (pend3, ms3) = p1 in (((ms3, me3), (unmarked ms3 dead0)), pend3))

(** val iter : nat -> ('a1 -> 'a1) -> 'a1 -> 'a1 **)

let rec iter n0 f x =
  match n0 with
  | O -> x
  | S k -> iter k f (f x)

(** val fin_one : state -> id -> state **)

let fin_one s n0 =
  match find_s n0 s.strongs with
  | Some b ->
    let s1 =
      iter b.s_fin (fun s0 ->
        fold_left (fun s1 k -> gain_ext k s1) b.s_kids s0) s
    in
    let s2 = fold_left (fun s0 k -> dec_s k s0) b.s_kids s1 in
    fold_left (fun s0 e -> dec_e e s0) b.s_ephs s2
  | None -> s

(** val clear_one : state -> ebox -> state **)

let clear_one s e =
  fold_left (fun s0 v -> dec_s v s0) (eph_value e)
    (set_weaks (upd_e e.e_id (set_data None) s.weaks) s)

(** val finalize : id list -> ebox list -> state -> state **)

let finalize dead pend s =
  fold_left clear_one pend (fold_left fin_one dead s)

(** val has_data : ebox list -> id -> bool **)

let has_data w e =
  match find_e e w with
  | Some x -> (match x.e_data with
               | Some _ -> true
               | None -> false)
  | None -> false

(** val clear_entries : id -> state -> state **)

let clear_entries m s =
  match find_s m s.strongs with
  | Some b ->
    let gone = filter (fun e -> negb (has_data s.weaks e)) b.s_ephs in
    let keep = filter (fun e -> has_data s.weaks e) b.s_ephs in
    let s1 = set_strongs (upd_s m (set_ephs keep) s.strongs) s in
    fold_left (fun s0 e -> dec_e e s0) gone s1
  | None -> s

(** val wm_one : state -> id -> state **)

let wm_one s w =
  match find_e w s.weaks with
  | Some e ->
    (match e.e_data with
     | Some p -> let (m, _) = p in clear_entries m s
     | None -> set_wmaps (remove1 w s.wmaps) (dec_e w s))
  | None -> set_wmaps (remove1 w s.wmaps) s

(** val ids_s : sbox list -> id list **)

let ids_s sb =
  map (fun s -> s.s_id) sb

(** val ids_e : ebox list -> id list **)

let ids_e w =
  map (fun e -> e.e_id) w

(** val is_node : sbox list -> id -> bool **)

let is_node sb n0 =
  match find_s n0 sb with
  | Some b -> negb b.s_map
  | None -> false

(** val dangling : state -> bool **)

let dangling s =
  let si = ids_s s.strongs in
  let w = ids_e s.weaks in
  (||)
    (negb
      (forallb (fun n0 -> memb n0 si)
        (app s.ext_s
          (app (flat_map (fun s0 -> s0.s_kids) s.strongs)
            (flat_map (fun e ->
              match e.e_data with
              | Some p ->
                let (k, v) = p in
                k :: (match v with
                      | Some x -> x :: []
                      | None -> [])
              | None -> []) s.weaks)))))
    (negb
      (forallb (fun e -> memb e w)
        (app s.ext_e (app (flat_map (fun s0 -> s0.s_ephs) s.strongs) s.wmaps))))

type gc_out = { g_fin : id list; g_drop : id list; g_res : id list;
                g_held : id list }

(** val collect_core : state -> state * gc_out **)

let collect_core s =
  let s0 = bump_colls s in
  let sb = s0.strongs in
  let w = s0.weaks in
  let tabS = nrc_tab_s sb w in
  let tabE = nrc_tab_e sb w in
  let (p, pend1) = mark_heap sb w s0.wmaps tabS tabE [] [] in
  let (p0, dead1) = p in
  let (ms1, me1) = p0 in
  let (p1, me2) =
    match dead1 with
    | [] ->
      (match pend1 with
       | [] -> ((s0, ms1), me1)
       | _ :: _ ->
         let sf = finalize dead1 pend1 s0 in
         let (p1, _) =
           mark_heap sf.strongs sf.weaks sf.wmaps tabS tabE ms1 me1
         in
         let (p2, _) = p1 in let (ms, me) = p2 in ((sf, ms), me))
    | _ :: _ ->
      let sf = finalize dead1 pend1 s0 in
      let (p1, _) = mark_heap sf.strongs sf.weaks sf.wmaps tabS tabE ms1 me1
      in
      let (p2, _) = p1 in let (ms, me) = p2 in ((sf, ms), me)
  in
  let (s1, ms2) = p1 in
  let dropped = filter (fun b -> negb (memb b.s_id ms2)) s1.strongs in
  let s2 =
    set_weaks (filter (fun e -> memb e.e_id me2) s1.weaks)
      (set_strongs (filter (fun b -> memb b.s_id ms2) s1.strongs) s1)
  in
  let s3 = fold_left wm_one s2.wmaps s2 in
  let s4 = if dangling s3 then set_poison s3 else s3 in
  let dnodes =
    map (fun s5 -> s5.s_id) (filter (fun b -> negb b.s_map) dropped)
  in
  (s4, { g_fin = (filter (is_node sb) dead1); g_drop = dnodes; g_res =
  (firstn (sub (length s1.ext_s) (length s0.ext_s)) s1.ext_s); g_held =
  (filter (fun n0 -> memb n0 s1.ext_s) dnodes) })

(** val collect : state -> state * gc_out **)

let collect s =
  match s.strongs with
  | [] ->
    (match s.weaks with
     | [] -> (s, { g_fin = []; g_drop = []; g_res = []; g_held = [] })
     | _ :: _ -> collect_core s)
  | _ :: _ -> collect_core s

type op =
| Alloc of nat
| AllocCyclic of nat
| Link of id * id
| Unlink of id * id
| Load of id * id
| Clone of id
| Drop of id
| MkWeak of id
| MkEph of id * id
| CloneE of id
| DropE of id
| StoreE of id * id
| UnstoreE of id * id
| LoadE of id * id
| Upgrade of id
| EphValue of id
| WmNew
| WmInsert of id * id * id
| WmRemove of id * id
| WmGet of id * id
| Read of id
| Collect

type out =
| OInv
| OOk
| ONode of id
| ONodeE of id * id
| OEph of id
| OMap of id * id
| OSome of id
| ONone
| OUnit
| OBool of bool
| ORead of id list * id list
| OGc of gc_out

(** val held : state -> id -> bool **)

let held s n0 =
  memb n0 s.ext_s

(** val held_node : state -> id -> bool **)

let held_node s n0 =
  (&&) (held s n0) (is_node s.strongs n0)

(** val held_map : state -> id -> bool **)

let held_map s n0 =
  (&&) (held s n0)
    (match find_s n0 s.strongs with
     | Some b -> b.s_map
     | None -> false)

(** val helde : state -> id -> bool **)

let helde s e =
  memb e s.ext_e

(** val kids_of : state -> id -> id list **)

let kids_of s a =
  match find_s a s.strongs with
  | Some b -> b.s_kids
  | None -> []

(** val ephs_of : state -> id -> id list **)

let ephs_of s a =
  match find_s a s.strongs with
  | Some b -> b.s_ephs
  | None -> []

(** val data_of : state -> id -> (id * id option) option **)

let data_of s e =
  match find_e e s.weaks with
  | Some x -> x.e_data
  | None -> None

(** val entry_of : state -> id -> id -> id option **)

let entry_of s m k =
  find (fun e ->
    match data_of s e with
    | Some p -> let (k', _) = p in N.eqb k' k
    | None -> false) (ephs_of s m)

(** val push_s : sbox -> state -> state **)

let push_s b s =
  set_strongs (app s.strongs (b :: [])) s

(** val push_e : ebox -> state -> state **)

let push_e e s =
  set_weaks (app s.weaks (e :: [])) s

(** val step : state -> op -> state * out **)

let step s = function
| Alloc f ->
  let n0 = s.next_s in
  ((set_ext_s (n0 :: s.ext_s)
     (bump_s
       (push_s { s_id = n0; s_rc = (S O); s_kids = []; s_ephs = []; s_fin =
         f; s_map = false } s))), (ONode n0))
| AllocCyclic f ->
  let n0 = s.next_s in
  let e = s.next_e in
  let s1 =
    bump_e
      (push_e { e_id = e; e_rc = (S O); e_data = (Some (n0, None)); e_unit =
        true } s)
  in
  ((set_ext_s (n0 :: s1.ext_s)
     (bump_s
       (push_s { s_id = n0; s_rc = (S O); s_kids = []; s_ephs = (e :: []);
         s_fin = f; s_map = false } s1))), (ONodeE (n0, e)))
| Link (a, b) ->
  if (&&) (held_node s a) (held s b)
  then ((gain_kid a b s), OOk)
  else (s, OInv)
| Unlink (a, b) ->
  if (&&) (held_node s a) (memb b (kids_of s a))
  then ((lose_kid a b s), OOk)
  else (s, OInv)
| Load (a, b) ->
  if (&&) (held_node s a) (memb b (kids_of s a))
  then ((gain_ext b s), OOk)
  else (s, OInv)
| Clone a -> if held s a then ((gain_ext a s), OOk) else (s, OInv)
| Drop a -> if held s a then ((lose_ext a s), OOk) else (s, OInv)
| MkWeak a ->
  if held_node s a
  then let e = s.next_e in
       ((set_ext_e (e :: s.ext_e)
          (bump_e
            (push_e { e_id = e; e_rc = (S O); e_data = (Some (a, None));
              e_unit = true } s))), (OEph e))
  else (s, OInv)
| MkEph (k, v) ->
  if (&&) (held_node s k) (held_node s v)
  then let e = s.next_e in
       let s1 = inc_s v s in
       ((set_ext_e (e :: s1.ext_e)
          (bump_e
            (push_e { e_id = e; e_rc = (S O); e_data = (Some (k, (Some v)));
              e_unit = false } s1))), (OEph e))
  else (s, OInv)
| CloneE e -> if helde s e then ((gain_exte e s), OOk) else (s, OInv)
| DropE e -> if helde s e then ((lose_exte e s), OOk) else (s, OInv)
| StoreE (a, e) ->
  if (&&) (held_node s a) (helde s e)
  then ((gain_stored a e s), OOk)
  else (s, OInv)
| UnstoreE (a, e) ->
  if (&&) (held_node s a) (memb e (ephs_of s a))
  then ((lose_stored a e s), OOk)
  else (s, OInv)
| LoadE (a, e) ->
  if (&&) (held_node s a) (memb e (ephs_of s a))
  then ((gain_exte e s), OOk)
  else (s, OInv)
| Upgrade e ->
  if helde s e
  then (match data_of s e with
        | Some p -> let (k, _) = p in ((gain_ext k s), (OSome k))
        | None -> (s, ONone))
  else (s, OInv)
| EphValue e ->
  if helde s e
  then (match data_of s e with
        | Some p ->
          let (_, o0) = p in
          (match o0 with
           | Some v -> ((gain_ext v s), (OSome v))
           | None -> (s, OUnit))
        | None -> (s, ONone))
  else (s, OInv)
| WmNew ->
  let m = s.next_s in
  let e = s.next_e in
  let s1 =
    bump_s
      (push_s { s_id = m; s_rc = (S O); s_kids = []; s_ephs = []; s_fin = O;
        s_map = true } s)
  in
  let s2 =
    bump_e
      (push_e { e_id = e; e_rc = (S O); e_data = (Some (m, None)); e_unit =
        true } s1)
  in
  ((set_ext_s (m :: s2.ext_s) (set_wmaps (app s2.wmaps (e :: [])) s2)), (OMap
  (m, e)))
| WmInsert (m, k, v) ->
  if (&&) ((&&) (held_map s m) (held_node s k)) (held_node s v)
  then let s1 =
         match entry_of s m k with
         | Some old -> lose_stored m old s
         | None -> s
       in
       let e = s1.next_e in
       let s2 = inc_s v s1 in
       let s3 =
         bump_e
           (push_e { e_id = e; e_rc = (S O); e_data = (Some (k, (Some v)));
             e_unit = false } s2)
       in
       ((set_strongs
          (upd_s m (fun b -> set_ephs (app b.s_ephs (e :: [])) b) s3.strongs)
          s3), (OEph e))
  else (s, OInv)
| WmRemove (m, k) ->
  if (&&) (held_map s m) (held_node s k)
  then (match entry_of s m k with
        | Some old -> ((lose_stored m old s), (OBool true))
        | None -> (s, (OBool false)))
  else (s, OInv)
| WmGet (m, k) ->
  if (&&) (held_map s m) (held_node s k)
  then (match entry_of s m k with
        | Some e ->
          (match data_of s e with
           | Some p ->
             let (_, o0) = p in
             (match o0 with
              | Some v -> (s, (OSome v))
              | None -> (s, OUnit))
           | None -> (s, ONone))
        | None -> (s, ONone))
  else (s, OInv)
| Read a ->
  if held_node s a
  then (s, (ORead ((kids_of s a), (ephs_of s a))))
  else (s, OInv)
| Collect -> let (s', g) = collect s in (s', (OGc g))
