
val negb : bool -> bool

type nat =
| O
| S of nat

val length : 'a1 list -> nat

val app : 'a1 list -> 'a1 list -> 'a1 list

val add : nat -> nat -> nat

val sub : nat -> nat -> nat

module Nat :
 sig
  val eqb : nat -> nat -> bool

  val leb : nat -> nat -> bool

  val ltb : nat -> nat -> bool
 end

val map : ('a1 -> 'a2) -> 'a1 list -> 'a2 list

val flat_map : ('a1 -> 'a2 list) -> 'a1 list -> 'a2 list

val fold_left : ('a1 -> 'a2 -> 'a1) -> 'a2 list -> 'a1 -> 'a1

val existsb : ('a1 -> bool) -> 'a1 list -> bool

val forallb : ('a1 -> bool) -> 'a1 list -> bool

val filter : ('a1 -> bool) -> 'a1 list -> 'a1 list

val find : ('a1 -> bool) -> 'a1 list -> 'a1 option

val firstn : nat -> 'a1 list -> 'a1 list

type positive =
| XI of positive
| XO of positive
| XH

type n =
| N0
| Npos of positive

module Pos :
 sig
  val succ : positive -> positive

  val eqb : positive -> positive -> bool
 end

module N :
 sig
  val succ : n -> n

  val eqb : n -> n -> bool
 end

type id = n

type sbox = { s_id : id; s_rc : nat; s_kids : id list; s_ephs : id list;
              s_fin : nat; s_map : bool }

type ebox = { e_id : id; e_rc : nat; e_data : (id * id option) option;
              e_unit : bool }

type state = { strongs : sbox list; weaks : ebox list; wmaps : id list;
               ext_s : id list; ext_e : id list; next_s : id; next_e : 
               id; colls : nat; poisoned : bool }

val init : state

val memb : id -> id list -> bool

val remove1 : id -> id list -> id list

val find_s : id -> sbox list -> sbox option

val find_e : id -> ebox list -> ebox option

val upd_s : id -> (sbox -> sbox) -> sbox list -> sbox list

val upd_e : id -> (ebox -> ebox) -> ebox list -> ebox list

val set_rc : nat -> sbox -> sbox

val set_kids : id list -> sbox -> sbox

val set_ephs : id list -> sbox -> sbox

val set_erc : nat -> ebox -> ebox

val set_data : (id * id option) option -> ebox -> ebox

val set_strongs : sbox list -> state -> state

val set_weaks : ebox list -> state -> state

val set_wmaps : id list -> state -> state

val set_ext_s : id list -> state -> state

val set_ext_e : id list -> state -> state

val set_poison : state -> state

val bump_s : state -> state

val bump_e : state -> state

val bump_colls : state -> state

val inc_s : id -> state -> state

val dec_s : id -> state -> state

val inc_e : id -> state -> state

val dec_e : id -> state -> state

val gain_ext : id -> state -> state

val lose_ext : id -> state -> state

val gain_exte : id -> state -> state

val lose_exte : id -> state -> state

val gain_kid : id -> id -> state -> state

val lose_kid : id -> id -> state -> state

val gain_stored : id -> id -> state -> state

val lose_stored : id -> id -> state -> state

val eph_value : ebox -> id list

val inner_s : sbox list -> ebox list -> id list

val inner_e : sbox list -> id list

val inc_nrc : nat -> id -> nat -> id -> nat

val nrc_of : nat -> id -> id list -> nat

val nrc_tab_s : sbox list -> ebox list -> (id * nat) list

val nrc_tab_e : sbox list -> ebox list -> (id * nat) list

val lookup : (id * nat) list -> id -> nat

val rooted : (id * nat) list -> id -> nat -> bool

val drain :
  nat -> sbox list -> id list -> id list -> id list -> id list * id list

val mark_fuel : sbox list -> nat

val eph_trace : ebox -> id list -> id list -> bool * id list

val phase0 :
  nat -> sbox list -> (id * nat) list -> sbox list -> id list -> id list ->
  id list -> (id list * id list) * id list

val phase1 :
  nat -> sbox list -> (id * nat) list -> ebox list -> id list -> id list ->
  ebox list -> (id list * id list) * ebox list

val phase2 : ebox list -> id list -> id list -> id list

val retain_pass :
  nat -> sbox list -> ebox list -> id list -> id list -> (ebox list * id
  list) * id list

val eph_loop :
  nat -> nat -> sbox list -> ebox list -> id list -> id list -> (ebox
  list * id list) * id list

val unmarked : id list -> id list -> id list

val mark_heap :
  sbox list -> ebox list -> id list -> (id * nat) list -> (id * nat) list ->
  id list -> id list -> ((id list * id list) * id list) * ebox list

val iter : nat -> ('a1 -> 'a1) -> 'a1 -> 'a1

val fin_one : state -> id -> state

val clear_one : state -> ebox -> state

val finalize : id list -> ebox list -> state -> state

val has_data : ebox list -> id -> bool

val clear_entries : id -> state -> state

val wm_one : state -> id -> state

val ids_s : sbox list -> id list

val ids_e : ebox list -> id list

val is_node : sbox list -> id -> bool

val dangling : state -> bool

type gc_out = { g_fin : id list; g_drop : id list; g_res : id list;
                g_held : id list }

val collect_core : state -> state * gc_out

val collect : state -> state * gc_out

type op =
| Alloc of nat
| AllocCyclic of nat
| Link of id * id
| Unlink of id * id
| Load of id * id
| Clone of id
| Drop of id
| MkWeak of id
| MkEph of id * id
| CloneE of id
| DropE of id
| StoreE of id * id
| UnstoreE of id * id
| LoadE of id * id
| Upgrade of id
| EphValue of id
| WmNew
| WmInsert of id * id * id
| WmRemove of id * id
| WmGet of id * id
| Read of id
| Collect

type out =
| OInv
| OOk
| ONode of id
| ONodeE of id * id
| OEph of id
| OMap of id * id
| OSome of id
| ONone
| OUnit
| OBool of bool
| ORead of id list * id list
| OGc of gc_out

val held : state -> id -> bool

val held_node : state -> id -> bool

val held_map : state -> id -> bool

val helde : state -> id -> bool

val kids_of : state -> id -> id list

val ephs_of : state -> id -> id list

val data_of : state -> id -> (id * id option) option

val entry_of : state -> id -> id -> id option

val push_s : sbox -> state -> state

val push_e : ebox -> state -> state

val step : state -> op -> state * out
