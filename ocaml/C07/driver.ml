(* Driver of the extracted VmStack model.
   Input, one case per line:  <id> <fxbits> <rlimit> <slimit> <racts as S-expression>
     fxbits = 6 characters 0/1: fx_throw fx_error fx_call fx_decl fx_modlink fx_pending
   Output, one line per case: <id> TAB <observations>  with observations separated by ';':
     P:<id>:<frames>:<stack>:<hdepth>    L:<Recursion|StackSize>    D:<V|T|U|X>:<frames>:<stack>:<hdepth>
     (V = Ok, T = catchable error, U = uncatchable engine error, X = engine panic) U = OUntidy;
     after every top-level entry E:<frames>:<stack>:<hdepth>:<pending>; then F:<frames>:<stack>:<hdepth> (final) *)
open Vmstack

type sexp = A of string | L of sexp list

let tokenize (s : string) : string list =
  let n = String.length s in
  let toks = ref [] in
  let i = ref 0 in
  while !i < n do
    let c = s.[!i] in
    if c = '(' || c = ')' then (toks := String.make 1 c :: !toks; incr i)
    else if c = ' ' || c = '\t' then incr i
    else begin
      let j = ref !i in
      while !j < n && s.[!j] <> '(' && s.[!j] <> ')' && s.[!j] <> ' ' && s.[!j] <> '\t' do incr j done;
      toks := String.sub s !i (!j - !i) :: !toks;
      i := !j
    end
  done;
  List.rev !toks

let parse (toks : string list) : sexp =
  let rec one = function
    | "(" :: rest -> let (items, rest') = many rest [] in (L items, rest')
    | ")" :: _ -> failwith "unexpected )"
    | t :: rest -> (A t, rest)
    | [] -> failwith "eof"
  and many toks acc =
    match toks with
    | ")" :: rest -> (List.rev acc, rest)
    | [] -> failwith "eof in list"
    | _ -> let (x, rest) = one toks in many rest (x :: acc)
  in
  let (x, rest) = one toks in
  if rest <> [] then failwith "trailing tokens";
  x

let rec nat_of_int (n : int) : nat = if n <= 0 then O else S (nat_of_int (n - 1))
let rec int_of_nat (n : nat) : int = match n with O -> 0 | S m -> 1 + int_of_nat m
(* iterative versions for big numbers *)
let nat_of_int n = let r = ref O in for _ = 1 to n do r := S !r done; !r
let int_of_nat n = let r = ref 0 in let c = ref n in
  (try while true do (match !c with O -> raise Exit | S m -> incr r; c := m) done with Exit -> ()); !r

let num = function A t -> nat_of_int (int_of_string t) | _ -> failwith "number expected"
let boolean = function A "1" -> true | A "0" -> false | _ -> failwith "bool expected"

let handlers = function
  | L hs -> List.map (function L [s; e; c] -> { h_start = num s; h_end = num e; h_envc = num c } | _ -> failwith "handler") hs
  | _ -> failwith "handlers"

let rec act_of (x : sexp) : act =
  match x with
  | L [A "push"; n] -> APush (num n)
  | L [A "pop"; n] -> APop (num n)
  | L [A "pc"; n] -> ASetPc (num n)
  | L [A "envpush"] -> AEnvPush
  | L [A "envpop"] -> AEnvPop
  | L [A "probe"; n] -> AProbe (num n)
  | L [A "call"; ac; rg; hs; c; ef; ne; body] -> ACall (num ac, num rg, handlers hs, boolean c, num ef, num ne, acts_of body)
  | L [A "new"; ac; rg; hs; ef; ne; ini; body] -> ANew (num ac, num rg, handlers hs, num ef, num ne, racts_of ini, acts_of body)
  | L [A "callerr"; lf] -> ACallErr (boolean lf)
  | L [A "callnative"; ac; c; body] -> ACallNative (num ac, boolean c, racts_of body)
  | L [A "rust"; body] -> ARust (racts_of body)
  | L [A "ret"] -> AReturn
  | L [A "yield"] -> AYield
  | L [A "gencreate"] -> AGenCreate
  | L [A "await"] -> AAwait
  | L [A "exception"] -> AException
  | L [A "throw"] -> AThrow
  | L [A "rethrow"] -> ARethrow
  | L [A "error"; b] -> AError (boolean b)
  | _ -> failwith "act"
and acts_of (x : sexp) : acts =
  match x with
  | L items -> List.fold_right (fun a l -> ACons (act_of a, l)) items ANil
  | _ -> failwith "acts"
and ract_of (x : sexp) : ract =
  match x with
  | L [A "probe"; n] -> RProbe (num n)
  | L [A "eval"; rg; hs; ef; ne; ok; body] -> RHostEval (num rg, handlers hs, num ef, num ne, boolean ok, acts_of body)
  | L [A "hcall"; ac; rg; hs; ef; ne; body] -> RHostCall (num ac, num rg, handlers hs, num ef, num ne, acts_of body)
  | L [A "hcallerr"; ac; lf] -> RHostCallErr (num ac, boolean lf)
  | L [A "hcallnative"; ac; body] -> RHostCallNative (num ac, racts_of body)
  | L [A "hconstruct"; ac; rg; hs; ef; ne; ok; body] ->
      RHostConstruct (num ac, num rg, handlers hs, num ef, num ne, boolean ok, acts_of body)
  | L [A "hnew"; ac; rg; hs; ef; ne; ini; body] -> RHostNew (num ac, num rg, handlers hs, num ef, num ne, racts_of ini, acts_of body)
  | L [A "hconstructnative"; ac; body] -> RHostConstructNative (num ac, racts_of body)
  | L [A "resume"; g; A k; body] ->
      RResume (num g, (match k with "next" -> KNext | "return" -> KRet | "throw" -> KThr | _ -> failwith "kind"), acts_of body)
  | L [A "block"; body] -> RBlock (racts_of body)
  | L [A "modlink"; rg] -> RHostModuleLink (num rg)
  | L [A "rreturn"] -> RReturn
  | L [A "rthrow"; b] -> RThrow (boolean b)
  | L [A "propagate"; b] -> RPropagate (boolean b)
  | _ -> failwith "ract"
and racts_of (x : sexp) : racts =
  match x with
  | L items -> List.fold_right (fun a l -> RCons (ract_of a, l)) items RNil
  | _ -> failwith "racts"

let show_obs (o : obs) : string =
  match o with
  | OProbe (id, n, s, h) -> Printf.sprintf "P:%d:%d:%d:%d" (int_of_nat id) (int_of_nat n) (int_of_nat s) (int_of_nat h)
  | OLimit LRecursion -> "L:Recursion"
  | OLimit LStackSize -> "L:StackSize"
  | ODone (r, n, s, h) ->
      Printf.sprintf "D:%s:%d:%d:%d"
        (match r with ROk -> "V" | RErr true -> "T" | RErr false -> "U" | RPanic -> "X")
        (int_of_nat n) (int_of_nat s) (int_of_nat h)
  | OUntidy -> "U"

let () =
  try
    while true do
      let line = input_line stdin in
      if String.length line > 0 then begin
        match String.index_opt line ' ' with
        | None -> ()
        | Some _ ->
          let parts = Str.bounded_split (Str.regexp " ") line 5 in
          (match parts with
           | [id; fxb; rl; sl; tree] ->
             (try
                let b i = fxb.[i] = '1' in
                let fx = { fx_throw = b 0; fx_error = b 1; fx_call = b 2; fx_decl = b 3; fx_modlink = b 4; fx_pending = b 5 } in
                let l = racts_of (parse (tokenize tree)) in
                let v0 = init (nat_of_int (int_of_string rl)) (nat_of_int (int_of_string sl)) in
                (* the top-level entries one by one: after each, E:<frames>:<stack>:<hdepth>:<pending> *)
                let rec go v l acc =
                  match l with
                  | RNil -> (v, List.rev acc)
                  | RCons (e, rest) ->
                    let (v', obs) = run_host fx v (RCons (e, RNil)) in
                    let mark = Printf.sprintf "E:%d:%d:%d:%d" (List.length v'.frames) (int_of_nat v'.stack) (int_of_nat v'.hdepth) (if v'.pending then 1 else 0) in
                    go v' rest (mark :: List.rev_append (List.map show_obs obs) acc) in
                let (v, out) = go v0 l [] in
                let fin = Printf.sprintf "F:%d:%d:%d" (List.length v.frames) (int_of_nat v.stack) (int_of_nat v.hdepth) in
                print_string (id ^ "\t" ^ String.concat ";" (out @ [fin]) ^ "\n")
              with e -> print_string (id ^ "\tERROR " ^ Printexc.to_string e ^ "\n"))
           | _ -> print_string "?\tERROR bad line\n")
      end
    done
  with End_of_file -> ()
