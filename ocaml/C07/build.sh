#!/bin/bash
# Build the C07 model driver: extraction (coqc on coq/C07/Extract_C07.v, after Model_C07.vo exists) + ocamlfind ocamlopt.
# All outputs go to ocaml/C07/_build (ignored).  Prints the path of the binary.
set -eu
HERE="$(cd "$(dirname "$0")" && pwd)"
COQ="$HERE/../../coq"
B="$HERE/_build"
mkdir -p "$B"
BIN="$B/driver"
if [ ! -x "$BIN" ] || [ "$COQ/C07/Model_C07.v" -nt "$BIN" ] || [ "$COQ/C07/Extract_C07.v" -nt "$BIN" ] || [ "$HERE/driver.ml" -nt "$BIN" ]; then
  if [ ! -f "$COQ/C07/Model_C07.vo" ] || [ "$COQ/C07/Model_C07.v" -nt "$COQ/C07/Model_C07.vo" ]; then
    echo "Model_C07.vo missing or stale (build it through the Coq Makefile first)" >&2
    exit 3
  fi
  cd "$B"
  timeout 600 coqc -noglob -Q "$COQ/Common" Common -Q "$COQ/C07" C07 -o "$B/Extract_C07.vo" "$COQ/C07/Extract_C07.v" > "$B/extract.log" 2>&1
  cp "$HERE/driver.ml" "$B/driver.ml"
  timeout 600 ocamlfind ocamlopt -w -a -package str -linkpkg vmstack.mli vmstack.ml driver.ml -o driver > "$B/ocaml.log" 2>&1
fi
echo "$BIN"
