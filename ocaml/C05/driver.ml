(* Driver of the extracted optimizer model (coq/C05/Model_C05.v).
   stdin lines:   opt <id> <optbits> <fixbits> <sexp>     fixbits: 1 dce-completion, 2 exp2-numeric, 4 forin-var, 8 int-div-negzero, 16 logical-reference, 32 int-overflow
   stdout lines:  <id>\tok\t<JavaScript text of the optimized program, escaped to one line>
                  <id>\tunsup\t...      (the model could not follow boa: inexact operator, overflowing fast path)
                  <id>\tbadinput\t
   The printer never adds parentheses of its own: like boa's AST, the tree carries an explicit EParen node for
   every pair of parentheses, and boa's ToInternedString prints Binary nodes without looking at precedence. *)
open C05_model

let rec int_of_pos = function XH -> 1 | XO p -> 2 * int_of_pos p | XI p -> 2 * int_of_pos p + 1
let int_of_n = function N0 -> 0 | Npos p -> int_of_pos p
let rec int_of_nat = function O -> 0 | S n -> 1 + int_of_nat n
let rec pos_of_int (i : int) : positive =
  if i = 1 then XH else if i land 1 = 0 then XO (pos_of_int (i lsr 1)) else XI (pos_of_int (i lsr 1))
let n_of_int (i : int) : n = if i = 0 then N0 else Npos (pos_of_int i)
let nat_of_int (i : int) : nat = let rec go acc k = if k = 0 then acc else go (S acc) (k - 1) in go O i

let n_of_string (s : Stdlib.String.t) : n =
  if Stdlib.String.length s <= 17 then n_of_int (int_of_string s)
  else begin
    let acc = ref N0 in
    let ten = n_of_int 10 in
    Stdlib.String.iter (fun c -> acc := N.add (N.mul !acc ten) (n_of_int (Stdlib.Char.code c - 48))) s;
    !acc
  end

(* low 64 bits of an N as an Int64 (bit 64, the Float64-literal flag of the model, is dropped) *)
let int64_of_n (x : n) : int64 =
  match x with
  | N0 -> 0L
  | Npos p ->
      let rec go p k acc =
        if k >= 64 then acc else
        match p with
        | XH -> Int64.logor acc (Int64.shift_left 1L k)
        | XO q -> go q (k + 1) acc
        | XI q -> go q (k + 1) (Int64.logor acc (Int64.shift_left 1L k)) in
      go p 0 0L

let rec string_of_pos_dec (p : positive) : Stdlib.String.t =
  (* decimal text of a positive by repeated doubling on a digit array *)
  let digits = ref [1] in   (* little endian *)
  let double_add b =
    let carry = ref b in
    digits := Stdlib.List.map (fun d -> let v = 2 * d + !carry in carry := v / 10; v mod 10) !digits;
    if !carry > 0 then digits := !digits @ [!carry] in
  let rec bits p acc = match p with XH -> acc | XO q -> bits q (0 :: acc) | XI q -> bits q (1 :: acc) in
  Stdlib.List.iter double_add (bits p []);
  Stdlib.String.concat "" (Stdlib.List.rev_map string_of_int !digits)
let string_of_z = function Z0 -> "0" | Zpos p -> string_of_pos_dec p | Zneg p -> "-" ^ string_of_pos_dec p

let parse (s : Stdlib.String.t) : sexp =
  let len = Stdlib.String.length s in
  let pos = ref 0 in
  let skip () = while !pos < len && s.[!pos] = ' ' do incr pos done in
  let rec item () : sexp =
    skip ();
    if !pos >= len then failwith "eof"
    else if s.[!pos] = '(' then begin
      incr pos;
      let items = ref [] in
      let fin = ref false in
      while not !fin do
        skip ();
        if !pos >= len then failwith "unterminated"
        else if s.[!pos] = ')' then (incr pos; fin := true)
        else items := item () :: !items
      done;
      L (Stdlib.List.rev !items)
    end else begin
      let st = !pos in
      while !pos < len && s.[!pos] >= '0' && s.[!pos] <= '9' do incr pos done;
      if !pos = st then failwith "bad atom";
      A (n_of_string (Stdlib.String.sub s st (!pos - st)))
    end in
  item ()

(* ---------------------------------------------------------------- printer *)
let b = Stdlib.Buffer.create 4096
let add = Stdlib.Buffer.add_string b

let ident (u : n list) =
  Stdlib.List.iter (fun c -> let c = int_of_n c in
    if c < 0x80 then Stdlib.Buffer.add_char b (Stdlib.Char.chr c) else add (Stdlib.Printf.sprintf "\\u%04x" c)) u
let strlit (u : n list) =
  add "\"";
  Stdlib.List.iter (fun c -> let c = int_of_n c in
    if c = 0x22 then add "\\\"" else if c = 0x5c then add "\\\\"
    else if c >= 0x20 && c <= 0x7e then Stdlib.Buffer.add_char b (Stdlib.Char.chr c)
    else add (Stdlib.Printf.sprintf "\\u%04x" c)) u;
  add "\""

let number (bits : n) =
  let x = Int64.float_of_bits (int64_of_n bits) in
  if x <> x then add "NaN"
  else if x = infinity then add "Infinity"
  else if x = neg_infinity then add "-Infinity"
  else if x = 0.0 then add (if 1.0 /. x < 0.0 then "-0" else "0")
  else if Float.is_integer x && Float.abs x < 1e15 then add (Stdlib.Printf.sprintf "%.0f" x)
  else add (Stdlib.Printf.sprintf "%.17g" x)

let unop = function UNeg -> "-" | UPos -> "+" | UNot -> "!" | UBitNot -> "~" | UTypeof -> "typeof " | UVoid -> "void "
let binop = function
  | BAdd -> "+" | BSub -> "-" | BMul -> "*" | BDiv -> "/" | BMod -> "%" | BExp -> "**" | BBitAnd -> "&" | BBitOr -> "|"
  | BBitXor -> "^" | BShl -> "<<" | BShr -> ">>" | BUShr -> ">>>" | BLt -> "<" | BLe -> "<=" | BGt -> ">" | BGe -> ">="
  | BEq -> "==" | BNe -> "!=" | BSEq -> "===" | BSNe -> "!==" | BIn -> "in" | BInstanceof -> "instanceof"
let logop = function LAnd -> "&&" | LOr -> "||" | LCoalesce -> "??"
let declk = function KVar -> "var" | KLet -> "let" | KConst -> "const"

exception Unprintable of Stdlib.String.t

let the_prog = Stdlib.ref (None : prog option)
let func_at i = match !the_prog with
  | Some p -> (try Stdlib.List.nth p.p_funcs (int_of_nat i) with _ -> raise (Unprintable "func index"))
  | None -> raise (Unprintable "no prog")

let sep_list f l = Stdlib.List.iteri (fun i x -> if i > 0 then add ", "; f x) l

let rec expr (e : expr) : unit =
  match e with
  | EUnary (UVoid, ENull) -> add "undefined"            (* the model's LiteralKind::Undefined *)
  | ENum bits -> number bits
  | EStr s -> strlit s
  | EBool v -> add (if v then "true" else "false")
  | ENull -> add "null"
  | EBigInt z -> add (string_of_z z); add "n"
  | EId x -> ident x
  | EThis -> add "this"
  | ENewTarget -> add "new.target"
  | EArray elems ->
      add "[";
      Stdlib.List.iteri (fun i x -> if i > 0 then add ", ";
        match x with AElem e -> expr e | ASpread e -> add "..."; expr e | AHole -> ()) elems;
      (match Stdlib.List.rev elems with AHole :: _ -> add "," | _ -> ());
      add "]"
  | EObject props -> add "{"; sep_list propdef props; add "}"
  | EFunc i -> func_expr i
  | EClass _ -> raise (Unprintable "class")
  | EUnary (op, a) ->
      add (unop op);
      (match op, a with
       | (UNeg | UPos), (EUnary ((UNeg | UPos), _)) -> add " "
       | (UNeg | UPos), ENum bits when Int64.compare (int64_of_n bits) 0L < 0 -> add " "
       | (UNeg | UPos), EBigInt (Zneg _) -> add " "
       | _ -> ());
      expr a
  | EDelete a -> add "delete "; expr a
  | EBinary (op, x, y) -> expr x; add " "; add (binop op); add " "; expr y
  | ELogical (op, x, y) -> expr x; add " "; add (logop op); add " "; expr y
  | EAssign (t, a) -> pat t; add " = "; expr a
  | EOpAssign (op, t, a) -> expr t; add " "; add (binop op); add "= "; expr a
  | ELogAssign (op, t, a) -> expr t; add " "; add (logop op); add "= "; expr a
  | EUpdate (prefix, inc, t) ->
      let o = if inc then "++" else "--" in
      if prefix then (add o; expr t) else (expr t; add o)
  | ECond (c, x, y) -> expr c; add " ? "; expr x; add " : "; expr y
  | ECall (f, args, opt) -> expr f; if opt then add "?."; add "("; sep_list arg args; add ")"
  | ENew (f, args) -> add "new "; expr f; add "("; sep_list arg args; add ")"
  | EMember (o, p, opt) -> expr o; add (if opt then "?." else "."); ident p
  | EIndex (o, k, opt) -> expr o; add (if opt then "?.[" else "["); expr k; add "]"
  | ESuperMember p -> add "super."; ident p
  | ESuperIndex k -> add "super["; expr k; add "]"
  | ESuperCall args -> add "super("; sep_list arg args; add ")"
  | ESeq (x, y) -> expr x; add ", "; expr y
  | ETemplate _ -> raise (Unprintable "template")
  | EParen a -> add "("; expr a; add ")"
  | EOptChain a -> expr a
and arg = function Arg e -> expr e | ArgSpread e -> add "..."; expr e
and key = function
  | PKStr s -> strlit s
  | PKNum bits -> number bits
  | PKComputed e -> add "["; expr e; add "]"
and propdef = function
  | PInit (k, e) -> key k; add ": "; expr e
  | PMethod (k, i) -> method_ "" k i
  | PGet (k, i) -> method_ "get " k i
  | PSet (k, i) -> method_ "set " k i
  | PSpread e -> add "..."; expr e
  | PProto e -> add "__proto__: "; expr e
and method_ pre k i =
  let f = func_at i in
  add pre; key k; params f; add " "; body f
and params f =
  add "(";
  sep_list (fun (p, d) -> pat p; (match d with Some e -> add " = "; expr e | None -> ())) f.f_params;
  (match f.f_rest with Some r -> (if f.f_params <> [] then add ", "); add "..."; pat r | None -> ());
  add ")"
and body f = add "{ "; Stdlib.List.iter (fun s -> stmt s; add " ") f.f_body; add "}"
and func_expr i =
  let f = func_at i in
  match f.f_kind with
  | FArrow -> params f; add " => "; (match f.f_expr_body with Some e -> expr e | None -> body f)
  | FNormal -> add "function"; (if f.f_name <> [] then (add " "; ident f.f_name)); params f; add " "; body f
  | _ -> raise (Unprintable "function kind")
and pat = function
  | PId x -> ident x
  | PExpr e -> expr e
  | PObj _ | PArr _ -> raise (Unprintable "pattern")
and decls ds = sep_list (fun (p, d) -> pat p; (match d with Some e -> add " = "; expr e | None -> ())) ds
and block l = add "{ "; Stdlib.List.iter (fun s -> stmt s; add " ") l; add "}"
and stmt (s : stmt) : unit =
  match s with
  | SExpr e -> expr e; add ";"
  | SDecl (k, ds) -> add (declk k); add " "; decls ds; add ";"
  | SFunDecl (x, i) ->
      let f = func_at i in
      (match f.f_kind with FNormal -> () | _ -> raise (Unprintable "function kind"));
      add "function "; ident x; params f; add " "; body f
  | SClassDecl _ -> raise (Unprintable "class")
  | SBlock l -> block l
  | SIf (c, t, f) ->
      add "if ("; expr c; add ") "; stmt t;
      (match f with Some f' -> add " else "; stmt f' | None -> ())
  | SFor (init, c, u, bd) ->
      add "for (";
      (match init with FINone -> () | FIExpr e -> expr e | FIDecl (k, ds) -> add (declk k); add " "; decls ds);
      add "; "; (match c with Some e -> expr e | None -> ());
      add "; "; (match u with Some e -> expr e | None -> ());
      add ") "; stmt bd
  | SForIn (h, e, bd) -> add "for ("; head h; add " in "; expr e; add ") "; stmt bd
  | SForOf (h, e, bd) -> add "for ("; head h; add " of "; expr e; add ") "; stmt bd
  | SWhile (c, bd) -> add "while ("; expr c; add ") "; stmt bd
  | SDoWhile (bd, c) -> add "do "; stmt bd; add " while ("; expr c; add ");"
  | SSwitch (d, cases) ->
      add "switch ("; expr d; add ") { ";
      Stdlib.List.iter (fun (ce, bd) ->
        (match ce with Some e -> add "case "; expr e; add ": " | None -> add "default: ");
        Stdlib.List.iter (fun s -> stmt s; add " ") bd) cases;
      add "}"
  | SLabel (l, s') -> ident l; add ": "; stmt s'
  | SBreak l -> add "break"; (match l with Some x -> add " "; ident x | None -> ()); add ";"
  | SContinue l -> add "continue"; (match l with Some x -> add " "; ident x | None -> ()); add ";"
  | SReturn e -> add "return"; (match e with Some x -> add " "; expr x | None -> ()); add ";"
  | SThrow e -> add "throw "; expr e; add ";"
  | STry (bl, h, f) ->
      add "try "; block bl;
      (match h with
       | Some (p, hb) -> add " catch "; (match p with Some q -> add "("; pat q; add ") " | None -> ()); block hb
       | None -> ());
      (match f with Some fb -> add " finally "; block fb | None -> ())
  | SEmpty -> add ";"
  | SWith (o, bd) -> add "with ("; expr o; add ") "; stmt bd
  | SYield _ | SAwait _ | SReturnAwait _ | SDirectEval _ -> raise (Unprintable "suspension/eval")
and head = function
  | FHDecl (k, p) -> add (declk k); add " "; pat p
  | FHPat p -> pat p

let escape_line (s : Stdlib.String.t) : Stdlib.String.t =
  let o = Stdlib.Buffer.create (Stdlib.String.length s + 16) in
  Stdlib.String.iter (fun c ->
    if c = '\\' then Stdlib.Buffer.add_string o "\\\\"
    else if c = '\n' then Stdlib.Buffer.add_string o "\\n"
    else if c = '\t' then Stdlib.Buffer.add_string o "\\t"
    else Stdlib.Buffer.add_char o c) s;
  Stdlib.Buffer.contents o

let print_prog (p : prog) : Stdlib.String.t =
  Stdlib.Buffer.clear b;
  the_prog := Some p;
  if p.p_strict then add "\"use strict\";\n";
  Stdlib.List.iter (fun s -> stmt s; add "\n") p.p_body;
  Stdlib.Buffer.contents b

let () =
  try
    while true do
      let line = input_line stdin in
      if Stdlib.String.length line > 4 && Stdlib.String.sub line 0 4 = "opt " then begin
        let parts = Stdlib.String.split_on_char ' ' line in
        match parts with
        | _ :: id :: bits :: fixes :: rest ->
            let sx = Stdlib.String.concat " " rest in
            let fx = int_of_string fixes in
            let out =
              try
                match d_prog (nat_of_int 100000) (parse sx) with
                | None -> "badinput\t"
                | Some p ->
                    let o = mk_opts (n_of_int (int_of_string bits)) (n_of_int fx) in
                    let (p', unsup) = optimize o p in
                    if unsup then "unsup\t"
                    else "ok\t" ^ escape_line (print_prog p')
              with
              | Unprintable m -> "unprintable\t" ^ m
              | Stack_overflow -> "stackoverflow\t"
              | Failure m -> "badinput\t" ^ m in
            print_string id; print_char '\t'; print_endline out
        | _ -> ()
      end
    done
  with End_of_file -> ()
