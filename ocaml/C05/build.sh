#!/bin/sh
# Builds the model driver from the extracted code.  coq/C05/Extract_C05.v writes _build/c05_model.ml{,i};
# every compiled output stays under _build/ (git-ignored), nothing is written next to the sources.
set -e
cd "$(dirname "$0")"
mkdir -p _build
if [ ! -f _build/c05_model.ml ]; then echo "missing _build/c05_model.ml (build coq/C05/Extract_C05.vo first)" >&2; exit 3; fi
if [ -x _build/c05_model ] && [ _build/c05_model -nt _build/c05_model.ml ] && [ _build/c05_model -nt driver.ml ]; then exit 0; fi
cp driver.ml _build/c05_driver.ml
cd _build
ocamlfind ocamlopt -w -a c05_model.mli c05_model.ml c05_driver.ml -o c05_model.tmp
mv c05_model.tmp c05_model
