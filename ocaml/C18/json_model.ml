
(** val negb : bool -> bool **)

let negb = function
| true -> false
| false -> true

type nat =
| O
| S of nat

(** val fst : ('a1 * 'a2) -> 'a1 **)

let fst = function
| (x, _) -> x

(** val snd : ('a1 * 'a2) -> 'a2 **)

let snd = function
| (_, y) -> y

(** val length : 'a1 list -> nat **)

let rec length = function
| [] -> O
| _ :: l' -> S (length l')

(** val app : 'a1 list -> 'a1 list -> 'a1 list **)

let rec app l m =
  match l with
  | [] -> m
  | a :: l1 -> a :: (app l1 m)

type comparison =
| Eq
| Lt
| Gt

(** val compOpp : comparison -> comparison **)

let compOpp = function
| Eq -> Eq
| Lt -> Gt
| Gt -> Lt

module Coq__1 = struct
 (** val add : nat -> nat -> nat **)
 let rec add n0 m =
   match n0 with
   | O -> m
   | S p -> S (add p m)
end
include Coq__1

type positive =
| XI of positive
| XO of positive
| XH

type n =
| N0
| Npos of positive

type z =
| Z0
| Zpos of positive
| Zneg of positive

module Nat =
 struct
  (** val leb : nat -> nat -> bool **)

  let rec leb n0 m =
    match n0 with
    | O -> true
    | S n' -> (match m with
               | O -> false
               | S m' -> leb n' m')

  (** val ltb : nat -> nat -> bool **)

  let ltb n0 m =
    leb (S n0) m
 end

module Pos =
 struct
  type mask =
  | IsNul
  | IsPos of positive
  | IsNeg
 end

module Coq_Pos =
 struct
  (** val succ : positive -> positive **)

  let rec succ = function
  | XI p -> XO (succ p)
  | XO p -> XI p
  | XH -> XO XH

  (** val add : positive -> positive -> positive **)

  let rec add x y =
    match x with
    | XI p ->
      (match y with
       | XI q -> XO (add_carry p q)
       | XO q -> XI (add p q)
       | XH -> XO (succ p))
    | XO p ->
      (match y with
       | XI q -> XI (add p q)
       | XO q -> XO (add p q)
       | XH -> XI p)
    | XH -> (match y with
             | XI q -> XO (succ q)
             | XO q -> XI q
             | XH -> XO XH)

  (** val add_carry : positive -> positive -> positive **)

  and add_carry x y =
    match x with
    | XI p ->
      (match y with
       | XI q -> XI (add_carry p q)
       | XO q -> XO (add_carry p q)
       | XH -> XI (succ p))
    | XO p ->
      (match y with
       | XI q -> XO (add_carry p q)
       | XO q -> XI (add p q)
       | XH -> XO (succ p))
    | XH ->
      (match y with
       | XI q -> XI (succ q)
       | XO q -> XO (succ q)
       | XH -> XI XH)

  (** val pred_double : positive -> positive **)

  let rec pred_double = function
  | XI p -> XI (XO p)
  | XO p -> XI (pred_double p)
  | XH -> XH

  type mask = Pos.mask =
  | IsNul
  | IsPos of positive
  | IsNeg

  (** val succ_double_mask : mask -> mask **)

  let succ_double_mask = function
  | IsNul -> IsPos XH
  | IsPos p -> IsPos (XI p)
  | IsNeg -> IsNeg

  (** val double_mask : mask -> mask **)

  let double_mask = function
  | IsPos p -> IsPos (XO p)
  | x0 -> x0

  (** val double_pred_mask : positive -> mask **)

  let double_pred_mask = function
  | XI p -> IsPos (XO (XO p))
  | XO p -> IsPos (XO (pred_double p))
  | XH -> IsNul

  (** val sub_mask : positive -> positive -> mask **)

  let rec sub_mask x y =
    match x with
    | XI p ->
      (match y with
       | XI q -> double_mask (sub_mask p q)
       | XO q -> succ_double_mask (sub_mask p q)
       | XH -> IsPos (XO p))
    | XO p ->
      (match y with
       | XI q -> succ_double_mask (sub_mask_carry p q)
       | XO q -> double_mask (sub_mask p q)
       | XH -> IsPos (pred_double p))
    | XH -> (match y with
             | XH -> IsNul
             | _ -> IsNeg)

  (** val sub_mask_carry : positive -> positive -> mask **)

  and sub_mask_carry x y =
    match x with
    | XI p ->
      (match y with
       | XI q -> succ_double_mask (sub_mask_carry p q)
       | XO q -> double_mask (sub_mask p q)
       | XH -> IsPos (pred_double p))
    | XO p ->
      (match y with
       | XI q -> double_mask (sub_mask_carry p q)
       | XO q -> succ_double_mask (sub_mask_carry p q)
       | XH -> double_pred_mask p)
    | XH -> IsNeg

  (** val mul : positive -> positive -> positive **)

  let rec mul x y =
    match x with
    | XI p -> add y (XO (mul p y))
    | XO p -> XO (mul p y)
    | XH -> y

  (** val compare_cont : comparison -> positive -> positive -> comparison **)

  let rec compare_cont r x y =
    match x with
    | XI p ->
      (match y with
       | XI q -> compare_cont r p q
       | XO q -> compare_cont Gt p q
       | XH -> Gt)
    | XO p ->
      (match y with
       | XI q -> compare_cont Lt p q
       | XO q -> compare_cont r p q
       | XH -> Gt)
    | XH -> (match y with
             | XH -> r
             | _ -> Lt)

  (** val compare : positive -> positive -> comparison **)

  let compare =
    compare_cont Eq

  (** val eqb : positive -> positive -> bool **)

  let rec eqb p q =
    match p with
    | XI p0 -> (match q with
                | XI q0 -> eqb p0 q0
                | _ -> false)
    | XO p0 -> (match q with
                | XO q0 -> eqb p0 q0
                | _ -> false)
    | XH -> (match q with
             | XH -> true
             | _ -> false)

  (** val iter_op : ('a1 -> 'a1 -> 'a1) -> positive -> 'a1 -> 'a1 **)

  let rec iter_op op p a =
    match p with
    | XI p0 -> op a (iter_op op p0 (op a a))
    | XO p0 -> iter_op op p0 (op a a)
    | XH -> a

  (** val to_nat : positive -> nat **)

  let to_nat x =
    iter_op Coq__1.add x (S O)
 end

module N =
 struct
  (** val succ_double : n -> n **)

  let succ_double = function
  | N0 -> Npos XH
  | Npos p -> Npos (XI p)

  (** val double : n -> n **)

  let double = function
  | N0 -> N0
  | Npos p -> Npos (XO p)

  (** val add : n -> n -> n **)

  let add n0 m =
    match n0 with
    | N0 -> m
    | Npos p -> (match m with
                 | N0 -> n0
                 | Npos q -> Npos (Coq_Pos.add p q))

  (** val sub : n -> n -> n **)

  let sub n0 m =
    match n0 with
    | N0 -> N0
    | Npos n' ->
      (match m with
       | N0 -> n0
       | Npos m' ->
         (match Coq_Pos.sub_mask n' m' with
          | Coq_Pos.IsPos p -> Npos p
          | _ -> N0))

  (** val mul : n -> n -> n **)

  let mul n0 m =
    match n0 with
    | N0 -> N0
    | Npos p -> (match m with
                 | N0 -> N0
                 | Npos q -> Npos (Coq_Pos.mul p q))

  (** val compare : n -> n -> comparison **)

  let compare n0 m =
    match n0 with
    | N0 -> (match m with
             | N0 -> Eq
             | Npos _ -> Lt)
    | Npos n' -> (match m with
                  | N0 -> Gt
                  | Npos m' -> Coq_Pos.compare n' m')

  (** val eqb : n -> n -> bool **)

  let eqb n0 m =
    match n0 with
    | N0 -> (match m with
             | N0 -> true
             | Npos _ -> false)
    | Npos p -> (match m with
                 | N0 -> false
                 | Npos q -> Coq_Pos.eqb p q)

  (** val leb : n -> n -> bool **)

  let leb x y =
    match compare x y with
    | Gt -> false
    | _ -> true

  (** val ltb : n -> n -> bool **)

  let ltb x y =
    match compare x y with
    | Lt -> true
    | _ -> false

  (** val pos_div_eucl : positive -> n -> n * n **)

  let rec pos_div_eucl a b =
    match a with
    | XI a' ->
      let (q, r) = pos_div_eucl a' b in
      let r' = succ_double r in
      if leb b r' then ((succ_double q), (sub r' b)) else ((double q), r')
    | XO a' ->
      let (q, r) = pos_div_eucl a' b in
      let r' = double r in
      if leb b r' then ((succ_double q), (sub r' b)) else ((double q), r')
    | XH ->
      (match b with
       | N0 -> (N0, (Npos XH))
       | Npos p -> (match p with
                    | XH -> ((Npos XH), N0)
                    | _ -> (N0, (Npos XH))))

  (** val div_eucl : n -> n -> n * n **)

  let div_eucl a b =
    match a with
    | N0 -> (N0, N0)
    | Npos na -> (match b with
                  | N0 -> (N0, a)
                  | Npos _ -> pos_div_eucl na b)

  (** val div : n -> n -> n **)

  let div a b =
    fst (div_eucl a b)

  (** val modulo : n -> n -> n **)

  let modulo a b =
    snd (div_eucl a b)
 end

(** val map : ('a1 -> 'a2) -> 'a1 list -> 'a2 list **)

let rec map f = function
| [] -> []
| a :: t -> (f a) :: (map f t)

(** val fold_left : ('a1 -> 'a2 -> 'a1) -> 'a2 list -> 'a1 -> 'a1 **)

let rec fold_left f l a0 =
  match l with
  | [] -> a0
  | b :: t -> fold_left f t (f a0 b)

(** val forallb : ('a1 -> bool) -> 'a1 list -> bool **)

let rec forallb f = function
| [] -> true
| a :: l0 -> (&&) (f a) (forallb f l0)

(** val firstn : nat -> 'a1 list -> 'a1 list **)

let rec firstn n0 l =
  match n0 with
  | O -> []
  | S n1 -> (match l with
             | [] -> []
             | a :: l0 -> a :: (firstn n1 l0))

(** val repeat : 'a1 -> nat -> 'a1 list **)

let rec repeat x = function
| O -> []
| S k -> x :: (repeat x k)

module Z =
 struct
  (** val compare : z -> z -> comparison **)

  let compare x y =
    match x with
    | Z0 -> (match y with
             | Z0 -> Eq
             | Zpos _ -> Lt
             | Zneg _ -> Gt)
    | Zpos x' -> (match y with
                  | Zpos y' -> Coq_Pos.compare x' y'
                  | _ -> Gt)
    | Zneg x' ->
      (match y with
       | Zneg y' -> compOpp (Coq_Pos.compare x' y')
       | _ -> Lt)

  (** val ltb : z -> z -> bool **)

  let ltb x y =
    match compare x y with
    | Lt -> true
    | _ -> false

  (** val min : z -> z -> z **)

  let min n0 m =
    match compare n0 m with
    | Gt -> m
    | _ -> n0

  (** val to_nat : z -> nat **)

  let to_nat = function
  | Zpos p -> Coq_Pos.to_nat p
  | _ -> O
 end

(** val is_ws : n -> bool **)

let is_ws c =
  (||)
    ((||)
      ((||) (N.eqb c (Npos (XI (XO (XO XH)))))
        (N.eqb c (Npos (XO (XI (XO XH))))))
      (N.eqb c (Npos (XI (XO (XI XH))))))
    (N.eqb c (Npos (XO (XO (XO (XO (XO XH)))))))

(** val is_digit : n -> bool **)

let is_digit c =
  (&&) (N.leb (Npos (XO (XO (XO (XO (XI XH)))))) c)
    (N.leb c (Npos (XI (XO (XO (XI (XI XH)))))))

(** val is_high : n -> bool **)

let is_high c =
  (&&)
    (N.leb (Npos (XO (XO (XO (XO (XO (XO (XO (XO (XO (XO (XO (XI (XI (XO (XI
      XH)))))))))))))))) c)
    (N.leb c (Npos (XI (XI (XI (XI (XI (XI (XI (XI (XI (XI (XO (XI (XI (XO
      (XI XH)))))))))))))))))

(** val is_low : n -> bool **)

let is_low c =
  (&&)
    (N.leb (Npos (XO (XO (XO (XO (XO (XO (XO (XO (XO (XO (XI (XI (XI (XO (XI
      XH)))))))))))))))) c)
    (N.leb c (Npos (XI (XI (XI (XI (XI (XI (XI (XI (XI (XI (XI (XI (XI (XO
      (XI XH)))))))))))))))))

(** val skip_ws : n list -> n list **)

let rec skip_ws l = match l with
| [] -> []
| c :: r -> if is_ws c then skip_ws r else l

(** val units_eqb : n list -> n list -> bool **)

let rec units_eqb a b =
  match a with
  | [] -> (match b with
           | [] -> true
           | _ :: _ -> false)
  | x :: a' ->
    (match b with
     | [] -> false
     | y :: b' -> (&&) (N.eqb x y) (units_eqb a' b'))

(** val strip_prefix : n list -> n list -> n list option **)

let rec strip_prefix p l =
  match p with
  | [] -> Some l
  | a :: p' ->
    (match l with
     | [] -> None
     | b :: l' -> if N.eqb a b then strip_prefix p' l' else None)

(** val lit_true : n list **)

let lit_true =
  (Npos (XO (XO (XI (XO (XI (XI XH))))))) :: ((Npos (XO (XI (XO (XO (XI (XI
    XH))))))) :: ((Npos (XI (XO (XI (XO (XI (XI XH))))))) :: ((Npos (XI (XO
    (XI (XO (XO (XI XH))))))) :: [])))

(** val lit_false : n list **)

let lit_false =
  (Npos (XO (XI (XI (XO (XO (XI XH))))))) :: ((Npos (XI (XO (XO (XO (XO (XI
    XH))))))) :: ((Npos (XO (XO (XI (XI (XO (XI XH))))))) :: ((Npos (XI (XI
    (XO (XO (XI (XI XH))))))) :: ((Npos (XI (XO (XI (XO (XO (XI
    XH))))))) :: []))))

(** val lit_null : n list **)

let lit_null =
  (Npos (XO (XI (XI (XI (XO (XI XH))))))) :: ((Npos (XI (XO (XI (XO (XI (XI
    XH))))))) :: ((Npos (XO (XO (XI (XI (XO (XI XH))))))) :: ((Npos (XO (XO
    (XI (XI (XO (XI XH))))))) :: [])))

(** val hex_val : n -> n option **)

let hex_val c =
  if (&&) (N.leb (Npos (XO (XO (XO (XO (XI XH)))))) c)
       (N.leb c (Npos (XI (XO (XO (XI (XI XH)))))))
  then Some (N.sub c (Npos (XO (XO (XO (XO (XI XH)))))))
  else if (&&) (N.leb (Npos (XI (XO (XO (XO (XO (XI XH))))))) c)
            (N.leb c (Npos (XO (XI (XI (XO (XO (XI XH))))))))
       then Some (N.sub c (Npos (XI (XI (XI (XO (XI (XO XH))))))))
       else if (&&) (N.leb (Npos (XI (XO (XO (XO (XO (XO XH))))))) c)
                 (N.leb c (Npos (XO (XI (XI (XO (XO (XO XH))))))))
            then Some (N.sub c (Npos (XI (XI (XI (XO (XI XH)))))))
            else None

(** val hex4 : n -> n -> n -> n -> n option **)

let hex4 a b c d =
  match hex_val a with
  | Some x ->
    (match hex_val b with
     | Some y ->
       (match hex_val c with
        | Some z0 ->
          (match hex_val d with
           | Some w ->
             Some
               (N.add
                 (N.mul
                   (N.add
                     (N.mul (N.add (N.mul x (Npos (XO (XO (XO (XO XH)))))) y)
                       (Npos (XO (XO (XO (XO XH)))))) z0) (Npos (XO (XO (XO
                   (XO XH)))))) w)
           | None -> None)
        | None -> None)
     | None -> None)
  | None -> None

(** val simple_escape : n -> n option **)

let simple_escape e =
  if N.eqb e (Npos (XO (XI (XO (XO (XO XH))))))
  then Some (Npos (XO (XI (XO (XO (XO XH))))))
  else if N.eqb e (Npos (XO (XO (XI (XI (XI (XO XH)))))))
       then Some (Npos (XO (XO (XI (XI (XI (XO XH)))))))
       else if N.eqb e (Npos (XI (XI (XI (XI (XO XH))))))
            then Some (Npos (XI (XI (XI (XI (XO XH))))))
            else if N.eqb e (Npos (XO (XI (XO (XO (XO (XI XH)))))))
                 then Some (Npos (XO (XO (XO XH))))
                 else if N.eqb e (Npos (XO (XI (XI (XO (XO (XI XH)))))))
                      then Some (Npos (XO (XO (XI XH))))
                      else if N.eqb e (Npos (XO (XI (XI (XI (XO (XI XH)))))))
                           then Some (Npos (XO (XI (XO XH))))
                           else if N.eqb e (Npos (XO (XI (XO (XO (XI (XI
                                     XH)))))))
                                then Some (Npos (XI (XO (XI XH))))
                                else if N.eqb e (Npos (XO (XO (XI (XO (XI (XI
                                          XH)))))))
                                     then Some (Npos (XI (XO (XO XH))))
                                     else None

(** val cons_fst :
    'a1 -> ('a1 list * 'a2) option -> ('a1 list * 'a2) option **)

let cons_fst a = function
| Some p -> let (s, t) = p in Some ((a :: s), t)
| None -> None

(** val scan_string : n list -> (n list * n list) option **)

let rec scan_string = function
| [] -> None
| c :: r ->
  if N.eqb c (Npos (XO (XI (XO (XO (XO XH))))))
  then Some ([], r)
  else if N.eqb c (Npos (XO (XO (XI (XI (XI (XO XH)))))))
       then (match r with
             | [] -> None
             | e :: r1 ->
               if N.eqb e (Npos (XI (XO (XI (XO (XI (XI XH)))))))
               then (match r1 with
                     | [] -> None
                     | h1 :: l0 ->
                       (match l0 with
                        | [] -> None
                        | h2 :: l1 ->
                          (match l1 with
                           | [] -> None
                           | h3 :: l2 ->
                             (match l2 with
                              | [] -> None
                              | h4 :: r2 ->
                                (match hex4 h1 h2 h3 h4 with
                                 | Some u -> cons_fst u (scan_string r2)
                                 | None -> None)))))
               else (match simple_escape e with
                     | Some u -> cons_fst u (scan_string r1)
                     | None -> None))
       else if N.ltb c (Npos (XO (XO (XO (XO (XO XH))))))
            then None
            else cons_fst c (scan_string r)

(** val span_digits : n list -> n list * n list **)

let rec span_digits l = match l with
| [] -> ([], [])
| c :: r ->
  if is_digit c
  then let (d, r') = span_digits r in ((c :: d), r')
  else ([], l)

(** val scan_int : n list -> (n list * n list) option **)

let scan_int = function
| [] -> None
| c :: r ->
  if N.eqb c (Npos (XO (XO (XO (XO (XI XH))))))
  then Some (((Npos (XO (XO (XO (XO (XI XH)))))) :: []), r)
  else if is_digit c
       then let (d, r') = span_digits r in Some ((c :: d), r')
       else None

(** val scan_frac : n list -> (n list * n list) option **)

let scan_frac l = match l with
| [] -> Some ([], [])
| c :: r ->
  if N.eqb c (Npos (XO (XI (XI (XI (XO XH))))))
  then let (d, r') = span_digits r in
       (match d with
        | [] -> None
        | _ :: _ -> Some ((c :: d), r'))
  else Some ([], l)

(** val scan_sign : n list -> n list * n list **)

let scan_sign l = match l with
| [] -> ([], [])
| c :: r ->
  if (||) (N.eqb c (Npos (XI (XI (XO (XI (XO XH)))))))
       (N.eqb c (Npos (XI (XO (XI (XI (XO XH)))))))
  then ((c :: []), r)
  else ([], l)

(** val scan_exp : n list -> (n list * n list) option **)

let scan_exp l = match l with
| [] -> Some ([], [])
| c :: r ->
  if (||) (N.eqb c (Npos (XI (XO (XI (XO (XO (XI XH))))))))
       (N.eqb c (Npos (XI (XO (XI (XO (XO (XO XH))))))))
  then let (sg, r1) = scan_sign r in
       let (d, r') = span_digits r1 in
       (match d with
        | [] -> None
        | _ :: _ -> Some ((c :: (app sg d)), r'))
  else Some ([], l)

(** val scan_minus : n list -> n list * n list **)

let scan_minus l = match l with
| [] -> ([], [])
| c :: r ->
  if N.eqb c (Npos (XI (XO (XI (XI (XO XH))))))
  then ((c :: []), r)
  else ([], l)

(** val scan_number : n list -> (n list * n list) option **)

let scan_number l =
  let (m, r0) = scan_minus l in
  (match scan_int r0 with
   | Some p ->
     let (i, r1) = p in
     (match scan_frac r1 with
      | Some p0 ->
        let (f, r2) = p0 in
        (match scan_exp r2 with
         | Some p1 -> let (e, r3) = p1 in Some ((app m (app i (app f e))), r3)
         | None -> None)
      | None -> None)
   | None -> None)

(** val number_token : n list -> bool **)

let number_token t =
  match scan_number t with
  | Some p -> let (_, l0) = p in (match l0 with
                                  | [] -> true
                                  | _ :: _ -> false)
  | None -> false

(** val hex_digit : n -> n **)

let hex_digit v =
  if N.ltb v (Npos (XO (XI (XO XH))))
  then N.add (Npos (XO (XO (XO (XO (XI XH)))))) v
  else N.add (Npos (XI (XI (XI (XO (XI (XO XH))))))) v

(** val uesc : n -> n list **)

let uesc c =
  (Npos (XO (XO (XI (XI (XI (XO XH))))))) :: ((Npos (XI (XO (XI (XO (XI (XI
    XH))))))) :: ((hex_digit
                    (N.div c (Npos (XO (XO (XO (XO (XO (XO (XO (XO (XO (XO
                      (XO (XO XH))))))))))))))) :: ((hex_digit
                                                      (N.modulo
                                                        (N.div c (Npos (XO
                                                          (XO (XO (XO (XO (XO
                                                          (XO (XO XH))))))))))
                                                        (Npos (XO (XO (XO (XO
                                                        XH))))))) :: (
    (hex_digit
      (N.modulo (N.div c (Npos (XO (XO (XO (XO XH)))))) (Npos (XO (XO (XO (XO
        XH))))))) :: ((hex_digit (N.modulo c (Npos (XO (XO (XO (XO XH))))))) :: [])))))

(** val quote_unit : n -> n list **)

let quote_unit c =
  if N.eqb c (Npos (XO (XO (XO XH))))
  then (Npos (XO (XO (XI (XI (XI (XO XH))))))) :: ((Npos (XO (XI (XO (XO (XO
         (XI XH))))))) :: [])
  else if N.eqb c (Npos (XI (XO (XO XH))))
       then (Npos (XO (XO (XI (XI (XI (XO XH))))))) :: ((Npos (XO (XO (XI (XO
              (XI (XI XH))))))) :: [])
       else if N.eqb c (Npos (XO (XI (XO XH))))
            then (Npos (XO (XO (XI (XI (XI (XO XH))))))) :: ((Npos (XO (XI
                   (XI (XI (XO (XI XH))))))) :: [])
            else if N.eqb c (Npos (XO (XO (XI XH))))
                 then (Npos (XO (XO (XI (XI (XI (XO XH))))))) :: ((Npos (XO
                        (XI (XI (XO (XO (XI XH))))))) :: [])
                 else if N.eqb c (Npos (XI (XO (XI XH))))
                      then (Npos (XO (XO (XI (XI (XI (XO XH))))))) :: ((Npos
                             (XO (XI (XO (XO (XI (XI XH))))))) :: [])
                      else if N.eqb c (Npos (XO (XI (XO (XO (XO XH))))))
                           then (Npos (XO (XO (XI (XI (XI (XO
                                  XH))))))) :: ((Npos (XO (XI (XO (XO (XO
                                  XH)))))) :: [])
                           else if N.eqb c (Npos (XO (XO (XI (XI (XI (XO
                                     XH)))))))
                                then (Npos (XO (XO (XI (XI (XI (XO
                                       XH))))))) :: ((Npos (XO (XO (XI (XI
                                       (XI (XO XH))))))) :: [])
                                else if N.ltb c (Npos (XO (XO (XO (XO (XO
                                          XH))))))
                                     then uesc c
                                     else if is_low c then uesc c else c :: []

(** val quote_body : n list -> n list **)

let rec quote_body = function
| [] -> []
| c :: r ->
  if is_high c
  then (match r with
        | [] -> uesc c
        | d :: r' ->
          if is_low d
          then c :: (d :: (quote_body r'))
          else app (uesc c) (quote_body r))
  else app (quote_unit c) (quote_body r)

(** val quote_json_string : n list -> n list **)

let quote_json_string s =
  (Npos (XO (XI (XO (XO (XO
    XH)))))) :: (app (quote_body s) ((Npos (XO (XI (XO (XO (XO
                  XH)))))) :: []))

(** val insert_key :
    n list -> 'a1 -> (n list * 'a1) list -> (n list * 'a1) list **)

let rec insert_key k v = function
| [] -> (k, v) :: []
| kv :: r ->
  if units_eqb k (fst kv)
  then ((fst kv), v) :: r
  else kv :: (insert_key k v r)

(** val dedup_last : (n list * 'a1) list -> (n list * 'a1) list **)

let dedup_last ms =
  fold_left (fun acc kv -> insert_key (fst kv) (snd kv) acc) ms []

(** val join : n list -> n list list -> n list **)

let rec join sep = function
| [] -> []
| t :: ts' ->
  (match ts' with
   | [] -> t
   | _ :: _ -> app t (app sep (join sep ts')))

type 'num jvalue =
| JNull
| JBool of bool
| JNum of 'num
| JStr of n list
| JArr of 'num jvalue list
| JObj of (n list * 'num jvalue) list

(** val parse_elems :
    (n list -> ('a1 jvalue * n list) option) -> nat -> n list -> ('a1 jvalue
    list * n list) option **)

let rec parse_elems pv n0 l =
  match n0 with
  | O -> None
  | S n' ->
    (match pv l with
     | Some p ->
       let (v, r) = p in
       (match skip_ws r with
        | [] -> None
        | c :: r' ->
          if N.eqb c (Npos (XO (XO (XI (XI (XO XH))))))
          then (match parse_elems pv n' r' with
                | Some p0 -> let (vs, r'') = p0 in Some ((v :: vs), r'')
                | None -> None)
          else if N.eqb c (Npos (XI (XO (XI (XI (XI (XO XH)))))))
               then Some ((v :: []), r')
               else None)
     | None -> None)

(** val parse_members :
    (n list -> ('a1 jvalue * n list) option) -> nat -> n list -> ((n
    list * 'a1 jvalue) list * n list) option **)

let rec parse_members pv n0 l =
  match n0 with
  | O -> None
  | S n' ->
    (match skip_ws l with
     | [] -> None
     | c :: r ->
       if N.eqb c (Npos (XO (XI (XO (XO (XO XH))))))
       then (match scan_string r with
             | Some p ->
               let (k, r1) = p in
               (match skip_ws r1 with
                | [] -> None
                | c1 :: r2 ->
                  if N.eqb c1 (Npos (XO (XI (XO (XI (XI XH))))))
                  then (match pv r2 with
                        | Some p0 ->
                          let (v, r3) = p0 in
                          (match skip_ws r3 with
                           | [] -> None
                           | c2 :: r4 ->
                             if N.eqb c2 (Npos (XO (XO (XI (XI (XO XH))))))
                             then (match parse_members pv n' r4 with
                                   | Some p1 ->
                                     let (ms, r5) = p1 in
                                     Some (((k, v) :: ms), r5)
                                   | None -> None)
                             else if N.eqb c2 (Npos (XI (XO (XI (XI (XI (XI
                                       XH)))))))
                                  then Some (((k, v) :: []), r4)
                                  else None)
                        | None -> None)
                  else None)
             | None -> None)
       else None)

(** val parse_lit :
    n list -> 'a1 jvalue -> n list -> ('a1 jvalue * n list) option **)

let parse_lit p v l =
  match strip_prefix p l with
  | Some r -> Some (v, r)
  | None -> None

(** val parse_value :
    (n list -> 'a1 option) -> nat -> n list -> ('a1 jvalue * n list) option **)

let rec parse_value parse_num fuel l =
  match fuel with
  | O -> None
  | S f ->
    (match skip_ws l with
     | [] -> None
     | c :: r ->
       if N.eqb c (Npos (XI (XI (XO (XI (XI (XO XH)))))))
       then (match skip_ws r with
             | [] -> None
             | c' :: r' ->
               if N.eqb c' (Npos (XI (XO (XI (XI (XI (XO XH)))))))
               then Some ((JArr []), r')
               else (match parse_elems (parse_value parse_num f) f (c' :: r') with
                     | Some p -> let (vs, r'') = p in Some ((JArr vs), r'')
                     | None -> None))
       else if N.eqb c (Npos (XI (XI (XO (XI (XI (XI XH)))))))
            then (match skip_ws r with
                  | [] -> None
                  | c' :: r' ->
                    if N.eqb c' (Npos (XI (XO (XI (XI (XI (XI XH)))))))
                    then Some ((JObj []), r')
                    else (match parse_members (parse_value parse_num f) f
                                  (c' :: r') with
                          | Some p ->
                            let (ms, r'') = p in Some ((JObj ms), r'')
                          | None -> None))
            else if N.eqb c (Npos (XO (XI (XO (XO (XO XH))))))
                 then (match scan_string r with
                       | Some p -> let (s, r') = p in Some ((JStr s), r')
                       | None -> None)
                 else if N.eqb c (Npos (XO (XO (XI (XO (XI (XI XH)))))))
                      then parse_lit lit_true (JBool true) (c :: r)
                      else if N.eqb c (Npos (XO (XI (XI (XO (XO (XI XH)))))))
                           then parse_lit lit_false (JBool false) (c :: r)
                           else if N.eqb c (Npos (XO (XI (XI (XI (XO (XI
                                     XH)))))))
                                then parse_lit lit_null JNull (c :: r)
                                else if (||)
                                          (N.eqb c (Npos (XI (XO (XI (XI (XO
                                            XH))))))) (is_digit c)
                                     then (match scan_number (c :: r) with
                                           | Some p ->
                                             let (t, r') = p in
                                             (match parse_num t with
                                              | Some x -> Some ((JNum x), r')
                                              | None -> None)
                                           | None -> None)
                                     else None)

(** val normal : 'a1 jvalue -> 'a1 jvalue **)

let rec normal v = match v with
| JArr vs -> JArr (map normal vs)
| JObj ms ->
  JObj (dedup_last (map (fun kv -> ((fst kv), (normal (snd kv)))) ms))
| _ -> v

(** val parse_raw : (n list -> 'a1 option) -> n list -> 'a1 jvalue option **)

let parse_raw parse_num l =
  match parse_value parse_num (S (length l)) l with
  | Some p ->
    let (v, r) = p in (match skip_ws r with
                       | [] -> Some v
                       | _ :: _ -> None)
  | None -> None

(** val parse_json : (n list -> 'a1 option) -> n list -> 'a1 jvalue option **)

let parse_json parse_num l =
  match parse_raw parse_num l with
  | Some v -> Some (normal v)
  | None -> None

(** val is_nil : 'a1 list -> bool **)

let is_nil = function
| [] -> true
| _ :: _ -> false

(** val ser_array : n list -> n list -> n list -> n list list -> n list **)

let ser_array gap stepback indent partial =
  if is_nil partial
  then (Npos (XI (XI (XO (XI (XI (XO XH))))))) :: ((Npos (XI (XO (XI (XI (XI
         (XO XH))))))) :: [])
  else if is_nil gap
       then app ((Npos (XI (XI (XO (XI (XI (XO XH))))))) :: [])
              (app (join ((Npos (XO (XO (XI (XI (XO XH)))))) :: []) partial)
                ((Npos (XI (XO (XI (XI (XI (XO XH))))))) :: []))
       else app ((Npos (XI (XI (XO (XI (XI (XO XH))))))) :: ((Npos (XO (XI
              (XO XH)))) :: []))
              (app indent
                (app
                  (join
                    (app ((Npos (XO (XO (XI (XI (XO XH)))))) :: ((Npos (XO
                      (XI (XO XH)))) :: [])) indent) partial)
                  (app ((Npos (XO (XI (XO XH)))) :: [])
                    (app stepback ((Npos (XI (XO (XI (XI (XI (XO
                      XH))))))) :: [])))))

(** val ser_object : n list -> n list -> n list -> n list list -> n list **)

let ser_object gap stepback indent partial =
  if is_nil partial
  then (Npos (XI (XI (XO (XI (XI (XI XH))))))) :: ((Npos (XI (XO (XI (XI (XI
         (XI XH))))))) :: [])
  else if is_nil gap
       then app ((Npos (XI (XI (XO (XI (XI (XI XH))))))) :: [])
              (app (join ((Npos (XO (XO (XI (XI (XO XH)))))) :: []) partial)
                ((Npos (XI (XO (XI (XI (XI (XI XH))))))) :: []))
       else app ((Npos (XI (XI (XO (XI (XI (XI XH))))))) :: ((Npos (XO (XI
              (XO XH)))) :: []))
              (app indent
                (app
                  (join
                    (app ((Npos (XO (XO (XI (XI (XO XH)))))) :: ((Npos (XO
                      (XI (XO XH)))) :: [])) indent) partial)
                  (app ((Npos (XO (XI (XO XH)))) :: [])
                    (app stepback ((Npos (XI (XO (XI (XI (XI (XI
                      XH))))))) :: [])))))

(** val ser_member : n list -> n list -> n list -> n list **)

let ser_member gap k strp =
  app (quote_json_string k)
    (app ((Npos (XO (XI (XO (XI (XI XH)))))) :: [])
      (app
        (if is_nil gap then [] else (Npos (XO (XO (XO (XO (XO XH)))))) :: [])
        strp))

type 'num jsv =
| VUndef
| VNull
| VBool of bool
| VNum of 'num
| VNonFinite
| VStr of n list
| VArr of 'num jsv list
| VObj of (n list * 'num jsv) list

(** val filter_some : 'a1 option list -> 'a1 list **)

let rec filter_some = function
| [] -> []
| o :: r ->
  (match o with
   | Some a -> a :: (filter_some r)
   | None -> filter_some r)

(** val serialize_at :
    ('a1 -> n list) -> n list -> n list -> 'a1 jsv -> n list option **)

let rec serialize_at print_num gap ind = function
| VUndef -> None
| VBool b -> if b then Some lit_true else Some lit_false
| VNum x -> Some (print_num x)
| VStr s -> Some (quote_json_string s)
| VArr vs ->
  Some
    (ser_array gap ind (app ind gap)
      (map (fun e ->
        match serialize_at print_num gap (app ind gap) e with
        | Some t -> t
        | None -> lit_null) vs))
| VObj ms ->
  Some
    (ser_object gap ind (app ind gap)
      (filter_some
        (map (fun kv ->
          match serialize_at print_num gap (app ind gap) (snd kv) with
          | Some t -> Some (ser_member gap (fst kv) t)
          | None -> None) ms)))
| _ -> Some lit_null

(** val serialize : ('a1 -> n list) -> n list -> 'a1 jsv -> n list option **)

let serialize print_num gap v =
  serialize_at print_num gap [] v

type space =
| SpNone
| SpNum of z
| SpStr of n list

(** val gap_of_space : space -> n list **)

let gap_of_space = function
| SpNone -> []
| SpNum z0 ->
  if Z.ltb z0 (Zpos XH)
  then []
  else repeat (Npos (XO (XO (XO (XO (XO XH))))))
         (Z.to_nat (Z.min (Zpos (XO (XI (XO XH)))) z0))
| SpStr s -> firstn (S (S (S (S (S (S (S (S (S (S O)))))))))) s

(** val digits_val : n -> n list -> n option **)

let rec digits_val acc = function
| [] -> Some acc
| c :: r ->
  if is_digit c
  then digits_val
         (N.add (N.mul acc (Npos (XO (XI (XO XH)))))
           (N.sub c (Npos (XO (XO (XO (XO (XI XH)))))))) r
  else None

(** val array_index : n list -> n option **)

let array_index k = match k with
| [] -> None
| c :: r ->
  if (&&) (N.eqb c (Npos (XO (XO (XO (XO (XI XH))))))) (negb (is_nil r))
  then None
  else if Nat.ltb (S (S (S (S (S (S (S (S (S (S O)))))))))) (length k)
       then None
       else (match digits_val N0 k with
             | Some n0 ->
               if N.ltb n0 (Npos (XI (XI (XI (XI (XI (XI (XI (XI (XI (XI (XI
                    (XI (XI (XI (XI (XI (XI (XI (XI (XI (XI (XI (XI (XI (XI
                    (XI (XI (XI (XI (XI (XI XH))))))))))))))))))))))))))))))))
               then Some n0
               else None
             | None -> None)

(** val insert_index :
    n -> (n list * 'a1) -> (n * (n list * 'a1)) list -> (n * (n list * 'a1))
    list **)

let rec insert_index i kv l = match l with
| [] -> (i, kv) :: []
| x :: r ->
  if N.ltb i (fst x) then (i, kv) :: l else x :: (insert_index i kv r)

(** val split_index :
    (n list * 'a1) list -> (n * (n list * 'a1)) list * (n list * 'a1) list **)

let rec split_index = function
| [] -> ([], [])
| kv :: r ->
  let (ix, others) = split_index r in
  (match array_index (fst kv) with
   | Some i -> ((insert_index i kv ix), others)
   | None -> (ix, (kv :: others)))

(** val own_key_order : (n list * 'a1) list -> (n list * 'a1) list **)

let own_key_order ms =
  let (ix, others) = split_index ms in app (map snd ix) others

(** val js_order : 'a1 jvalue -> 'a1 jvalue **)

let rec js_order v = match v with
| JArr vs -> JArr (map js_order vs)
| JObj ms ->
  JObj (own_key_order (map (fun kv -> ((fst kv), (js_order (snd kv)))) ms))
| _ -> v

(** val js_build : 'a1 jsv -> 'a1 jsv **)

let rec js_build v = match v with
| VArr vs -> VArr (map js_build vs)
| VObj ms ->
  VObj
    (own_key_order
      (dedup_last (map (fun kv -> ((fst kv), (js_build (snd kv)))) ms)))
| _ -> v

(** val print_tok : n list -> n list **)

let print_tok t =
  t

(** val parse_tok : n list -> n list option **)

let parse_tok t =
  Some t

type tvalue = n list jvalue

type tjsv = n list jsv

(** val m_parse : n list -> tvalue option **)

let m_parse text =
  match parse_json parse_tok text with
  | Some v -> Some (js_order v)
  | None -> None

(** val m_stringify : space -> tjsv -> n list option **)

let m_stringify sp v =
  serialize print_tok (gap_of_space sp) (js_build v)

(** val m_stringify_raw : space -> tjsv -> n list option **)

let m_stringify_raw sp v =
  serialize print_tok (gap_of_space sp) v

(** val m_roundtrip : space -> tjsv -> (n list * tvalue option) option **)

let m_roundtrip sp v =
  match m_stringify sp v with
  | Some t -> Some (t, (m_parse t))
  | None -> None

(** val tjsv_ok : tjsv -> bool **)

let rec tjsv_ok = function
| VNum t -> number_token t
| VArr vs -> forallb tjsv_ok vs
| VObj ms -> forallb (fun kv -> tjsv_ok (snd kv)) ms
| _ -> true
