
val negb : bool -> bool

type nat =
| O
| S of nat

val fst : ('a1 * 'a2) -> 'a1

val snd : ('a1 * 'a2) -> 'a2

val length : 'a1 list -> nat

val app : 'a1 list -> 'a1 list -> 'a1 list

type comparison =
| Eq
| Lt
| Gt

val compOpp : comparison -> comparison

val add : nat -> nat -> nat

type positive =
| XI of positive
| XO of positive
| XH

type n =
| N0
| Npos of positive

type z =
| Z0
| Zpos of positive
| Zneg of positive

module Nat :
 sig
  val leb : nat -> nat -> bool

  val ltb : nat -> nat -> bool
 end

module Pos :
 sig
  type mask =
  | IsNul
  | IsPos of positive
  | IsNeg
 end

module Coq_Pos :
 sig
  val succ : positive -> positive

  val add : positive -> positive -> positive

  val add_carry : positive -> positive -> positive

  val pred_double : positive -> positive

  type mask = Pos.mask =
  | IsNul
  | IsPos of positive
  | IsNeg

  val succ_double_mask : mask -> mask

  val double_mask : mask -> mask

  val double_pred_mask : positive -> mask

  val sub_mask : positive -> positive -> mask

  val sub_mask_carry : positive -> positive -> mask

  val mul : positive -> positive -> positive

  val compare_cont : comparison -> positive -> positive -> comparison

  val compare : positive -> positive -> comparison

  val eqb : positive -> positive -> bool

  val iter_op : ('a1 -> 'a1 -> 'a1) -> positive -> 'a1 -> 'a1

  val to_nat : positive -> nat
 end

module N :
 sig
  val succ_double : n -> n

  val double : n -> n

  val add : n -> n -> n

  val sub : n -> n -> n

  val mul : n -> n -> n

  val compare : n -> n -> comparison

  val eqb : n -> n -> bool

  val leb : n -> n -> bool

  val ltb : n -> n -> bool

  val pos_div_eucl : positive -> n -> n * n

  val div_eucl : n -> n -> n * n

  val div : n -> n -> n

  val modulo : n -> n -> n
 end

val map : ('a1 -> 'a2) -> 'a1 list -> 'a2 list

val fold_left : ('a1 -> 'a2 -> 'a1) -> 'a2 list -> 'a1 -> 'a1

val forallb : ('a1 -> bool) -> 'a1 list -> bool

val firstn : nat -> 'a1 list -> 'a1 list

val repeat : 'a1 -> nat -> 'a1 list

module Z :
 sig
  val compare : z -> z -> comparison

  val ltb : z -> z -> bool

  val min : z -> z -> z

  val to_nat : z -> nat
 end

val is_ws : n -> bool

val is_digit : n -> bool

val is_high : n -> bool

val is_low : n -> bool

val skip_ws : n list -> n list

val units_eqb : n list -> n list -> bool

val strip_prefix : n list -> n list -> n list option

val lit_true : n list

val lit_false : n list

val lit_null : n list

val hex_val : n -> n option

val hex4 : n -> n -> n -> n -> n option

val simple_escape : n -> n option

val cons_fst : 'a1 -> ('a1 list * 'a2) option -> ('a1 list * 'a2) option

val scan_string : n list -> (n list * n list) option

val span_digits : n list -> n list * n list

val scan_int : n list -> (n list * n list) option

val scan_frac : n list -> (n list * n list) option

val scan_sign : n list -> n list * n list

val scan_exp : n list -> (n list * n list) option

val scan_minus : n list -> n list * n list

val scan_number : n list -> (n list * n list) option

val number_token : n list -> bool

val hex_digit : n -> n

val uesc : n -> n list

val quote_unit : n -> n list

val quote_body : n list -> n list

val quote_json_string : n list -> n list

val insert_key : n list -> 'a1 -> (n list * 'a1) list -> (n list * 'a1) list

val dedup_last : (n list * 'a1) list -> (n list * 'a1) list

val join : n list -> n list list -> n list

type 'num jvalue =
| JNull
| JBool of bool
| JNum of 'num
| JStr of n list
| JArr of 'num jvalue list
| JObj of (n list * 'num jvalue) list

val parse_elems :
  (n list -> ('a1 jvalue * n list) option) -> nat -> n list -> ('a1 jvalue
  list * n list) option

val parse_members :
  (n list -> ('a1 jvalue * n list) option) -> nat -> n list -> ((n list * 'a1
  jvalue) list * n list) option

val parse_lit : n list -> 'a1 jvalue -> n list -> ('a1 jvalue * n list) option

val parse_value :
  (n list -> 'a1 option) -> nat -> n list -> ('a1 jvalue * n list) option

val normal : 'a1 jvalue -> 'a1 jvalue

val parse_raw : (n list -> 'a1 option) -> n list -> 'a1 jvalue option

val parse_json : (n list -> 'a1 option) -> n list -> 'a1 jvalue option

val is_nil : 'a1 list -> bool

val ser_array : n list -> n list -> n list -> n list list -> n list

val ser_object : n list -> n list -> n list -> n list list -> n list

val ser_member : n list -> n list -> n list -> n list

type 'num jsv =
| VUndef
| VNull
| VBool of bool
| VNum of 'num
| VNonFinite
| VStr of n list
| VArr of 'num jsv list
| VObj of (n list * 'num jsv) list

val filter_some : 'a1 option list -> 'a1 list

val serialize_at :
  ('a1 -> n list) -> n list -> n list -> 'a1 jsv -> n list option

val serialize : ('a1 -> n list) -> n list -> 'a1 jsv -> n list option

type space =
| SpNone
| SpNum of z
| SpStr of n list

val gap_of_space : space -> n list

val digits_val : n -> n list -> n option

val array_index : n list -> n option

val insert_index :
  n -> (n list * 'a1) -> (n * (n list * 'a1)) list -> (n * (n list * 'a1))
  list

val split_index :
  (n list * 'a1) list -> (n * (n list * 'a1)) list * (n list * 'a1) list

val own_key_order : (n list * 'a1) list -> (n list * 'a1) list

val js_order : 'a1 jvalue -> 'a1 jvalue

val js_build : 'a1 jsv -> 'a1 jsv

val print_tok : n list -> n list

val parse_tok : n list -> n list option

type tvalue = n list jvalue

type tjsv = n list jsv

val m_parse : n list -> tvalue option

val m_stringify : space -> tjsv -> n list option

val m_stringify_raw : space -> tjsv -> n list option

val m_roundtrip : space -> tjsv -> (n list * tvalue option) option

val tjsv_ok : tjsv -> bool
