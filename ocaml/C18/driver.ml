(* C18 correspondence driver around the extracted model (json_model.ml, extracted with
   ExtrOcamlBasic only).  Line oriented, same commands as harness/src/bin/jsonops.rs:
     parse U<hex4>*            -> ok <dump> | reject
     stringify <space> <value> -> ok U<hex4>* | undef | badnum
     roundtrip <space> <value> -> ok U<hex4>* <dump|reject> | undef | badnum
     stringifyraw <space> <value>  as stringify, members printed in the order given (no js_build)
     stringifyid <space> <value with &n labels and *n references> -> ok U.. | undef | err TypeError   (DeepModel_C18.ser_id)
   <value>: N T F X(undefined) Z(non-finite number) M<hex4>*(number token text) S<hex4>* [ v* ] { (K<hex4>* v)* }
   <space>: - | n<decimal integer> | s<hex4>*
   <dump>: the same tokens (numbers as M<token text>), never X or Z. *)
open Json_model

let rec pos_of_int (i : int) : positive =
  if i = 1 then XH else if i land 1 = 1 then XI (pos_of_int (i lsr 1)) else XO (pos_of_int (i lsr 1))
let n_of_int (i : int) : n = if i = 0 then N0 else Npos (pos_of_int i)
let rec int_of_pos = function XH -> 1 | XO p -> 2 * int_of_pos p | XI p -> 2 * int_of_pos p + 1
let int_of_n = function N0 -> 0 | Npos p -> int_of_pos p
let z_of_int (i : int) : z = if i = 0 then Z0 else if i > 0 then Zpos (pos_of_int i) else Zneg (pos_of_int (-i))

let units_of_hex (s : string) (from : int) : n list =
  let len = String.length s in
  let rec go i acc = if i < from then acc else go (i - 4) (n_of_int (int_of_string ("0x" ^ String.sub s i 4)) :: acc) in
  if (len - from) mod 4 <> 0 then failwith "hex" else go (len - 4) []

let hex_of_units (prefix : char) (u : n list) : string =
  let b = Buffer.create 64 in
  Buffer.add_char b prefix;
  List.iter (fun c -> Buffer.add_string b (Printf.sprintf "%04x" (int_of_n c))) u;
  Buffer.contents b

let rec dump (b : Buffer.t) (v : tvalue) : unit =
  let add s = if Buffer.length b > 0 then Buffer.add_char b ' '; Buffer.add_string b s in
  match v with
  | JNull -> add "N"
  | JBool true -> add "T"
  | JBool false -> add "F"
  | JNum t -> add (hex_of_units 'M' t)
  | JStr s -> add (hex_of_units 'S' s)
  | JArr vs -> add "["; List.iter (dump b) vs; add "]"
  | JObj ms -> add "{"; List.iter (fun (k, x) -> add (hex_of_units 'K' k); dump b x) ms; add "}"

let dump_str v = let b = Buffer.create 256 in dump b v; Buffer.contents b

exception Bad of string

let build (toks : string array) (pos : int ref) : tjsv =
  let rec value () : tjsv =
    if !pos >= Array.length toks then raise (Bad "eof");
    let t = toks.(!pos) in
    incr pos;
    match t.[0] with
    | 'N' -> VNull | 'T' -> VBool true | 'F' -> VBool false | 'X' -> VUndef | 'Z' -> VNonFinite
    | 'M' -> VNum (units_of_hex t 1)
    | 'S' -> VStr (units_of_hex t 1)
    | '[' ->
      let rec elems acc = if toks.(!pos) = "]" then (incr pos; List.rev acc) else let e = value () in elems (e :: acc) in
      VArr (elems [])
    | '{' ->
      let rec mems acc =
        let k = toks.(!pos) in
        incr pos;
        if k = "}" then List.rev acc
        else if k.[0] <> 'K' then raise (Bad "key")
        else let e = value () in mems ((units_of_hex k 1, e) :: acc) in
      VObj (mems [])
    | _ -> raise (Bad ("token " ^ t))
  in value ()

(* values with identities (deepening round): `&n` labels the container that follows, `*n` refers to it (also from inside
   itself: a cycle); every container becomes a node of the store, in order of its opening bracket *)
let rec nat_of_int (i : int) : nat = if i <= 0 then O else S (nat_of_int (i - 1))

let build_id (toks : string array) (pos : int ref) : n list store * n list ival =
  let nodes : (int, n list inode) Hashtbl.t = Hashtbl.create 16 in
  let labels : (int, int) Hashtbl.t = Hashtbl.create 16 in
  let count = ref 0 in
  let fresh lab = let i = !count in incr count; (match lab with Some l -> Hashtbl.replace labels l i | None -> ()); i in
  let rec value (lab : int option) : n list ival =
    if !pos >= Array.length toks then raise (Bad "eof");
    let t = toks.(!pos) in
    incr pos;
    match t.[0] with
    | '&' -> value (Some (int_of_string (String.sub t 1 (String.length t - 1))))
    | '*' -> (match Hashtbl.find_opt labels (int_of_string (String.sub t 1 (String.length t - 1))) with
              | Some i -> IRef (nat_of_int i) | None -> raise (Bad "unknown label"))
    | 'N' -> INull | 'T' -> IBool true | 'F' -> IBool false | 'X' -> IUndef | 'Z' -> INonFinite
    | 'M' -> INum (units_of_hex t 1)
    | 'S' -> IStr (units_of_hex t 1)
    | '[' ->
      let i = fresh lab in
      let rec elems acc = if toks.(!pos) = "]" then (incr pos; List.rev acc) else let e = value None in elems (e :: acc) in
      let es = elems [] in
      Hashtbl.replace nodes i (NArr es); IRef (nat_of_int i)
    | '{' ->
      let i = fresh lab in
      let rec mems acc =
        let k = toks.(!pos) in
        incr pos;
        if k = "}" then List.rev acc
        else if k.[0] <> 'K' then raise (Bad "key")
        else let e = value None in mems ((units_of_hex k 1, e) :: acc) in
      let ms = mems [] in
      Hashtbl.replace nodes i (NObj ms); IRef (nat_of_int i)
    | _ -> raise (Bad ("token " ^ t))
  in
  let v = value None in
  let st = List.init !count (fun i -> Hashtbl.find nodes i) in
  (st, v)

let space_of (s : string) : space =
  match s.[0] with
  | '-' -> SpNone
  | 'n' -> SpNum (z_of_int (int_of_string (String.sub s 1 (String.length s - 1))))
  | 's' -> SpStr (units_of_hex s 1)
  | _ -> raise (Bad "space")

let split (s : string) : string array =
  Array.of_list (List.filter (fun x -> x <> "") (String.split_on_char ' ' s))

let one (line : string) : string =
  let toks = split line in
  if Array.length toks = 0 then "badcmd" else
  match toks.(0) with
  | "parse" ->
    let u = if Array.length toks > 1 then units_of_hex toks.(1) 1 else [] in
    (match m_parse u with Some v -> "ok " ^ dump_str v | None -> "reject")
  | "stringifyraw" ->
    let sp = space_of toks.(1) in
    let pos = ref 2 in
    let v = build toks pos in
    if not (tjsv_ok v) then "badnum" else
    (match m_stringify_raw sp v with Some t -> "ok " ^ hex_of_units 'U' t | None -> "undef")
  | "stringifyid" ->
    let sp = space_of toks.(1) in
    let pos = ref 2 in
    let (st, v) = build_id toks pos in
    if not (store_ok st && ival_ok v) then "badnum" else
    (match m_stringify_id sp st v with
     | Inl (Some t) -> "ok " ^ hex_of_units 'U' t
     | Inl None -> "undef"
     | Inr ECycle -> "err TypeError"
     | Inr EFuel -> "model-fuel"
     | Inr EDangling -> "model-dangling")
  | "stringify" | "roundtrip" ->
    let sp = space_of toks.(1) in
    let pos = ref 2 in
    let v = build toks pos in
    if not (tjsv_ok v) then "badnum" else
    if toks.(0) = "stringify" then
      (match m_stringify sp v with Some t -> "ok " ^ hex_of_units 'U' t | None -> "undef")
    else
      (match m_roundtrip sp v with
       | Some (t, Some back) -> "ok " ^ hex_of_units 'U' t ^ " ok " ^ dump_str back
       | Some (t, None) -> "ok " ^ hex_of_units 'U' t ^ " reject"
       | None -> "undef")
  | _ -> "badcmd"

let () =
  try
    while true do
      let line = input_line stdin in
      let r = try one line with Bad m -> "badinput " ^ m | Failure m -> "badinput " ^ m | Invalid_argument m -> "badinput " ^ m
                                | Stack_overflow -> "model-stack-overflow" in
      print_string r; print_newline ()
    done
  with End_of_file -> ()
