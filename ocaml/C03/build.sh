#!/bin/bash
# Builds the C03 verifier driver from the extracted code.  coq/C03/Extract_C03.v writes
# ocaml/C03/_build/c03_model.ml{,i}; every compiled file stays in _build/ (git-ignored), nothing is
# produced next to the sources.
set -e
cd "$(dirname "$0")"
mkdir -p _build
test -f _build/c03_model.ml || { echo "ocaml/C03/_build/c03_model.ml missing: build coq/C03/Extract_C03.vo first" >&2; exit 3; }
if [ ! -x _build/c03_driver ] || [ _build/c03_model.ml -nt _build/c03_driver ] || [ driver.ml -nt _build/c03_driver ]; then
  cp driver.ml _build/c03_driver.ml
  ( cd _build
    ocamlfind ocamlopt -O2 -w -a c03_model.mli c03_model.ml c03_driver.ml -o c03_driver.tmp 2>/dev/null \
     || ocamlfind ocamlopt -w -a c03_model.mli c03_model.ml c03_driver.ml -o c03_driver.tmp
    mv c03_driver.tmp c03_driver )
fi
