(* C03 driver: runs the extracted Coq verifier (coq/C03/Bytecode_C03.v, extracted by coq/C03/Extract_C03.v into
   _build/c03_model.ml) on the code-block dumps printed by the harness binary `dump`.

   INPUT (stdin) = the output of harness/src/bin/dump.rs, verbatim (format documented in design.d/C03.md section 0
   and at the top of dump.rs):
       case <id>
       block <bid> regs=<n> params=<n> len=<n> flags=<bits> bytes=<n> consts=<n> bindings=<n> ics=<n> handlers=<n> name=<..>
       const <i> S|B|C|F [<nested block id>]
       binding <i> <GlobalObject|GlobalDeclarative|Stack(n)> <binding index> <name>
       handler <i> <start> <end> <environment_count>
       ins <pc> <next pc> <opcode byte> <Debug of the decoded instruction>
       end <bid>
       d <bid> <frames> <pc> <opcode byte> <stack_extra> <env_depth> <binding_stack>     (optional: depth log)
       dcut <n>
       status <...>
       endcase <id>

   OUTPUT (stdout), per case:
       case <id>
       blk <bid> <ok|REJECT> nins=<n> reach=<annotated pcs> handlers=<n>
       err <bid> class=<label> <free text>          one per diagnostic of a rejected block (see `classify`)
       dyn <bid-independent summary> pairs=<n> ok=<n> skipped=<n> bad=<n> annot_checked=<n> annot_bad=<n>
       dynbad <bid> <free text>                     one per observed VM transition the abstract machine does not allow
       status <copied>
       endcase <id>
   and at the end of the input:
       cov <opcode name> <static occurrences> <dynamic normal transitions validated> <dynamic exception transitions validated>
   Instruction operands are taken from the Debug text: `RegisterOperand(n)`, `IndexOperand(n)`, `Address(n)`, bare
   numbers, `[..]` lists; they are cross-checked against the regenerated signature (field names, kinds, count) inside
   the Coq `operands_ok`/here (`decode` errors).  *)

open C03_model

(* ---------- conversions between OCaml ints/strings and the extracted inductive types ---------- *)
let rec pos_of_int (i : int) : positive =
  if i = 1 then XH else if i land 1 = 1 then XI (pos_of_int (i lsr 1)) else XO (pos_of_int (i lsr 1))
let n_of_int (i : int) : n = if i <= 0 then N0 else Npos (pos_of_int i)
let rec int_of_pos = function XH -> 1 | XO p -> 2 * int_of_pos p | XI p -> 2 * int_of_pos p + 1
let int_of_n = function N0 -> 0 | Npos p -> int_of_pos p
let z_of_int (i : int) : z = if i = 0 then Z0 else if i > 0 then Zpos (pos_of_int i) else Zneg (pos_of_int (- i))
let ocaml_string (s : C03_model.string) : Stdlib.String.t =
  let b = Buffer.create 16 in
  let bit x k = if x then 1 lsl k else 0 in
  let rec go = function
    | EmptyString -> ()
    | String (Ascii (b0, b1, b2, b3, b4, b5, b6, b7), r) ->
        Buffer.add_char b (Char.chr (bit b0 0 + bit b1 1 + bit b2 2 + bit b3 3 + bit b4 4 + bit b5 5 + bit b6 6 + bit b7 7));
        go r in
  go s; Buffer.contents b

let opname o = ocaml_string (opcode_name o)

(* ---------- parsing the Debug text of an instruction ---------- *)
exception Decode of Stdlib.String.t

type tok = TId of Stdlib.String.t | TNum of Stdlib.String.t | TSym of char

let tokenize (s : Stdlib.String.t) : tok list =
  let n = Stdlib.String.length s in
  let out = ref [] in
  let i = ref 0 in
  let is_id c = (c >= 'a' && c <= 'z') || (c >= 'A' && c <= 'Z') || c = '_' || (c >= '0' && c <= '9') in
  let is_num c = (c >= '0' && c <= '9') || c = '-' || c = '+' || c = '.' || c = 'e' || c = 'E' in
  while !i < n do
    let c = s.[!i] in
    if c = ' ' then incr i
    else if (c >= '0' && c <= '9') || c = '-' then begin
      let j = ref (!i + 1) in
      (* -inf *)
      if c = '-' && !i + 3 < n + 0 && !i + 3 <= n - 0 && !i + 4 <= n && Stdlib.String.sub s (!i + 1) 3 = "inf" then begin
        out := TNum "-inf" :: !out; i := !i + 4
      end else begin
        while !j < n && is_num s.[!j] do incr j done;
        out := TNum (Stdlib.String.sub s !i (!j - !i)) :: !out; i := !j
      end
    end
    else if is_id c then begin
      let j = ref (!i + 1) in
      while !j < n && is_id s.[!j] do incr j done;
      out := TId (Stdlib.String.sub s !i (!j - !i)) :: !out; i := !j
    end
    else begin out := TSym c :: !out; incr i end
  done;
  List.rev !out

(* raw parsed value *)
type raw = RReg of int | RIdx of int | RAddr of int | RNum of Stdlib.String.t | RList of raw list

let rec parse_value (ts : tok list) : raw * tok list =
  match ts with
  | TId "RegisterOperand" :: TSym '(' :: TNum v :: TSym ')' :: r -> (RReg (int_of_string v), r)
  | TId "IndexOperand" :: TSym '(' :: TNum v :: TSym ')' :: r -> (RIdx (int_of_string v), r)
  | TId "Address" :: TSym '(' :: TNum v :: TSym ')' :: r -> (RAddr (int_of_string v), r)
  | TNum v :: r -> (RNum v, r)
  | TId ("NaN" | "inf") :: r -> (RNum "nan", r)
  | TSym '[' :: TSym ']' :: r -> (RList [], r)
  | TSym '[' :: r ->
      let rec items acc ts =
        let (v, ts) = parse_value ts in
        match ts with
        | TSym ',' :: TSym ']' :: r -> (List.rev (v :: acc), r)
        | TSym ',' :: r -> items (v :: acc) r
        | TSym ']' :: r -> (List.rev (v :: acc), r)
        | _ -> raise (Decode "list") in
      let (l, r) = items [] r in (RList l, r)
  | _ -> raise (Decode "value")

let parse_instr_text (s : Stdlib.String.t) : Stdlib.String.t * (Stdlib.String.t * raw) list =
  match tokenize s with
  | [TId name] -> (name, [])
  | TId name :: TSym '{' :: r ->
      let rec fields acc ts =
        match ts with
        | TSym '}' :: [] -> List.rev acc
        | TId f :: TSym ':' :: r ->
            let (v, r) = parse_value r in
            (match r with
             | TSym ',' :: r -> fields ((f, v) :: acc) r
             | TSym '}' :: [] -> List.rev ((f, v) :: acc)
             | _ -> raise (Decode "field sep"))
        | _ -> raise (Decode "field") in
      (name, fields [] r)
  | _ -> raise (Decode "instr")

let operand_of (k : opkind) (v : raw) : operand =
  let ints l f = List.map (fun x -> n_of_int (f x)) l in
  match k, v with
  | KReg, RReg n -> AReg (n_of_int n)
  | KIdx, RIdx n -> AIdx (n_of_int n)
  | KAddr, RAddr n -> AAddr (n_of_int n)
  | KU32, RNum s -> AU32 (n_of_int (int_of_string s))
  | KU64, RNum _ -> AU64
  | KImm, RNum _ -> AImm
  | KInt, RNum s -> AInt (z_of_int (int_of_string s))
  | KVecReg, RList l -> AVReg (ints l (function RReg n -> n | _ -> raise (Decode "vec reg")))
  | KVecAddr, RList l -> AVAddr (ints l (function RAddr n -> n | _ -> raise (Decode "vec addr")))
  | KVecU32, RList l -> AVU32 (ints l (function RNum s -> int_of_string s | _ -> raise (Decode "vec u32")))
  | _, _ -> raise (Decode "operand kind differs from the signature")

(* ---------- blocks ---------- *)
type blk = {
  bid : int; regs : int; flags : int; bytes : int; nconsts : int; nbind : int; nic : int; nhandlers : int;
  fp_override : int;   (* env_fp=<n> in the block header (mutant cases of the sensitivity stage carry the block's real env_fp), else -1 *)
  mutable consts : (ckind * int) list;            (* reversed *)
  mutable bind_scopes : Stdlib.String.t list;
  mutable hs : handler list;                      (* reversed *)
  mutable ins : instr list;                       (* reversed *)
  mutable decode_errs : Stdlib.String.t list;
}

let kv (s : Stdlib.String.t) : (Stdlib.String.t * Stdlib.String.t) =
  match Stdlib.String.index_opt s '=' with
  | Some i -> (Stdlib.String.sub s 0 i, Stdlib.String.sub s (i + 1) (Stdlib.String.length s - i - 1))
  | None -> (s, "")

let parse_block_header (parts : Stdlib.String.t list) : blk =
  match parts with
  | _ :: bid :: rest ->
      let tbl = List.map kv rest in
      let g k = try int_of_string (List.assoc k tbl) with _ -> 0 in
      { bid = int_of_string bid; regs = g "regs"; flags = g "flags"; bytes = g "bytes"; nconsts = g "consts";
        nbind = g "bindings"; nic = g "ics"; nhandlers = g "handlers";
        fp_override = (try int_of_string (List.assoc "env_fp" tbl) with _ -> -1); consts = []; bind_scopes = []; hs = []; ins = [];
        decode_errs = [] }
  | _ -> raise (Decode "block header")

let entry_env_of_flags (flags : int) : int =
  (if flags land 2 <> 0 then 1 else 0) + (if flags land 256 <> 0 then 1 else 0)

let mk_codeblock (b : blk) : codeblock =
  { cb_regs = n_of_int b.regs; cb_entry_env = n_of_int (entry_env_of_flags b.flags); cb_bytes = n_of_int b.bytes;
    cb_code = build_code (List.rev b.ins);
    cb_consts = List.rev_map fst b.consts; cb_nbind = n_of_int b.nbind; cb_nic = n_of_int b.nic;
    cb_handlers = List.rev b.hs; cb_jregs = jump_regs (List.rev b.ins) }

let add_ins (b : blk) (pc : int) (next : int) (byte : int) (text : Stdlib.String.t) : unit =
  let o = opcode_of_byte (n_of_int byte) in
  try
    let (name, fields) = parse_instr_text text in
    if name <> opname o then
      raise (Decode (Printf.sprintf "opcode byte %d is %s in the regenerated table but the decoder printed %s" byte (opname o) name));
    let ks = opcode_sig o in
    let fnames = List.map ocaml_string (opcode_fields o) in
    if List.length fields <> List.length ks then raise (Decode "operand count differs from the signature");
    List.iter2 (fun (f, _) g -> if f <> g then raise (Decode ("field " ^ f ^ " where the signature has " ^ g))) fields fnames;
    let args = List.map2 (fun k (_, v) -> operand_of k v) ks fields in
    b.ins <- { i_pc = n_of_int pc; i_next = n_of_int next; i_op = o; i_args = args } :: b.ins
  with
  | Decode m -> b.decode_errs <- Printf.sprintf "pc=%d %s: %s" pc text m :: b.decode_errs
  | Failure m -> b.decode_errs <- Printf.sprintf "pc=%d %s: %s" pc text m :: b.decode_errs
  | Invalid_argument m -> b.decode_errs <- Printf.sprintf "pc=%d %s: %s" pc text m :: b.decode_errs

(* ---------- diagnostics ---------- *)
let show_depth (d : depth) : Stdlib.String.t =
  Printf.sprintf "(env=%d bind=[%s] stk=%d sel=[%s])" (int_of_n d.d_env)
    (Stdlib.String.concat ";" (List.map (fun x -> string_of_int (int_of_n x)) d.d_bind)) (int_of_n d.d_stk)
    (Stdlib.String.concat ";" (List.map (fun (r, v) -> Printf.sprintf "r%d=%d" (int_of_n r) (int_of_n v)) d.d_sel))

let show_depth2 (d : depth2) : Stdlib.String.t =
  let b = show_depth d.d2_base in Stdlib.String.sub b 0 (Stdlib.String.length b - 1) ^ Printf.sprintf " iter=%d)" (int_of_n d.d2_iter)

let is_short_circuit = function Op_LogicalAnd | Op_LogicalOr | Op_Coalesce -> true | _ -> false

let addr_of_args args = match first_addr args with Some a -> int_of_n a | None -> -1

let rec list_eq a b = match a, b with
  | [], [] -> true | x :: a, y :: b -> int_of_n x = int_of_n y && list_eq a b | _ -> false

(* stable class labels, computed from the failing block itself *)
(* DESIGN section 5 #3: the jump of a short-circuit assignment skips SetNameByLocator.  The two binding stacks differ exactly
   by surplus references (anywhere in the stack: later assignments push on top of a leaked one), each pushed by a
   GetNameAndLocator that is immediately followed by LogicalAnd / LogicalOr / Coalesce *)
let leaked_by_short_circuit (cb : codeblock) (a : n list) (b : n list) : bool =
  let longer, shorter = if List.length a > List.length b then a, b else b, a in
  (* remove `shorter` from `longer` as a subsequence; what is left are the surplus references *)
  let rec diff l s acc = match l, s with
    | [], [] -> Some (List.rev acc)
    | [], _ :: _ -> None
    | x :: l', y :: s' when int_of_n x = int_of_n y -> diff l' s' acc
    | x :: l', _ -> diff l' s (x :: acc) in
  match diff longer shorter [] with
  | Some (_ :: _ as extras) ->
      List.for_all (fun g ->
          match find_instr cb g with
          | Some gi when gi.i_op = Op_GetNameAndLocator ->
              (match find_instr cb gi.i_next with Some si -> is_short_circuit si.i_op | None -> false)
          | _ -> false) extras
  | _ -> false

let classify_merge ?(flags = 0) (cb : codeblock) (e : edge) (pc : int) (have : depth) (want : depth) : Stdlib.String.t =
  let env_eq = int_of_n have.d_env = int_of_n want.d_env in
  let stk_eq = int_of_n have.d_stk = int_of_n want.d_stk in
  let bind_eq = list_eq have.d_bind want.d_bind in
  (* DESIGN section 5 #3: the jump of a short-circuit assignment skips SetNameByLocator: one side carries one extra
     reference pushed by a GetNameAndLocator that is immediately followed by LogicalAnd/LogicalOr/Coalesce -> pc *)
  let short_circuit_leak () = leaked_by_short_circuit cb have.d_bind want.d_bind in
  (* the handler that covers the body of an async function lands on the epilogue (MaybeException; resolve/reject the
     promise; Return) into which normal completion also falls, with whatever environments/values are still open *)
  let async_epilogue () =
    flags land 32 <> 0 &&
    (let last_end = List.fold_left (fun m h -> max m (int_of_n h.h_end)) (-1) cb.cb_handlers in
     last_end >= 0 && last_end <= pc &&
     (match find_instr cb (n_of_int last_end) with Some i -> i.i_op = Op_MaybeException | None -> false)) in
  if env_eq && stk_eq && (not bind_eq) && short_circuit_leak () then "short-circuit-assign-locator-leak"
  else if async_epilogue () then "async-epilogue-depth-merge"
  else match e with
    | EExc _ when env_eq && bind_eq && not stk_eq -> "exc-edge-stack-residue"
    | EExc _ when env_eq && not bind_eq -> "exc-edge-binding-residue"
    | EExc _ -> "exc-edge-depth-mismatch"
    | _ ->
      if not env_eq then "merge-env-depth-mismatch"
      else if not bind_eq then "merge-binding-depth-mismatch"
      else "merge-stack-depth-mismatch"

let stuck_reason0 (cb : codeblock) (pc : n) (d : depth) : Stdlib.String.t =
  match find_instr cb pc with
  | None -> "target-not-an-instruction"
  | Some i ->
      if not (operands_ok cb i) then "operand-out-of-table"
      else match effect i.i_op i.i_args with
        | None -> "no-effect-entry"
        | Some e ->
            (match norm_succs cb i e d with
             | None ->
                 if int_of_n d.d_stk < int_of_n e.e_pop then "value-stack-underflow"
                 else (match e.e_env, e.e_bind with
                       | EPop, _ when int_of_n d.d_env = 0 -> "environment-underflow"
                       | _, BPop when d.d_bind = [] -> "binding-stack-underflow"
                       | _ -> "normal-step-stuck")
             | Some _ ->
                 (match exc_succs cb i e d with
                  | None -> "handler-assumes-more-environments"
                  | Some _ -> "stuck-unknown"))

let stuck_reason (cb : codeblock) (pc : n) (d : depth2) : Stdlib.String.t =
  match find_instr cb pc with
  | Some i when operands_ok cb i && iter_norm i.i_op d.d2_iter = None -> "iterator-stack-underflow"
  | _ -> stuck_reason0 cb pc d.d2_base

let base_eq (a : depth) (b : depth) =
  int_of_n a.d_env = int_of_n b.d_env && int_of_n a.d_stk = int_of_n b.d_stk && list_eq a.d_bind b.d_bind

(* merges of the extended machine: when the three old depths agree and only frame.iterators differs, a path left an
   iterator loop without closing its record (or closed the wrong one) *)
let classify_merge2 ?(flags = 0) (cb : codeblock) (e : edge) (pc : int) (have : depth2) (want : depth2) : Stdlib.String.t =
  if base_eq have.d2_base want.d2_base && int_of_n have.d2_iter <> int_of_n want.d2_iter then
    (match e with EExc _ -> "exc-edge-iterator-residue" | _ -> "iterator-stack-depth-merge")
  else classify_merge ~flags cb e pc have.d2_base want.d2_base

let edge_str = function
  | EEntry -> "entry" | ENormal f -> Printf.sprintf "normal-from-%d" (int_of_n f) | EExc f -> Printf.sprintf "exc-from-%d" (int_of_n f)

(* ---------- coverage ---------- *)
let cov_static : (Stdlib.String.t, int) Hashtbl.t = Hashtbl.create 256
let cov_norm : (Stdlib.String.t, int) Hashtbl.t = Hashtbl.create 256
let cov_exc : (Stdlib.String.t, int) Hashtbl.t = Hashtbl.create 256
let bump t k = Hashtbl.replace t k (1 + (try Hashtbl.find t k with Not_found -> 0))

(* ---------- lenient diagnostic pass ----------
   Not part of the verdict.  When the strict verifier rejects a block because exception edges carry residue (values or
   binding references pushed inside the protected range, DESIGN section 5 #8), the annotation downstream of the handler
   is polluted and produces cascading merge errors.  To find out whether the block has *other* defects, the dataflow is
   repeated with the exception edge a per-handler depth would give: binding and value-stack depths of the range start. *)
let rec sel_eq a b = match a, b with
  | [], [] -> true
  | (r, v) :: a, (r', v') :: b -> int_of_n r = int_of_n r' && int_of_n v = int_of_n v' && sel_eq a b
  | _ -> false

let depth_eq0 (a : depth) (b : depth) =
  int_of_n a.d_env = int_of_n b.d_env && int_of_n a.d_stk = int_of_n b.d_stk && list_eq a.d_bind b.d_bind && sel_eq a.d_sel b.d_sel
let depth_eq (a : depth2) (b : depth2) = depth_eq0 a.d2_base b.d2_base && int_of_n a.d2_iter = int_of_n b.d2_iter

let lenient_table : (int, depth2 list) Hashtbl.t ref = ref (Hashtbl.create 1)
let lenient_infer ?(no_exc = false) (cb : codeblock) : (edge * n * depth2 * depth2) list * (n * depth2 * int list) list * (Stdlib.String.t * Stdlib.String.t) list =
  let a : (int, depth2 list) Hashtbl.t = Hashtbl.create 64 in
  let get pc = try Hashtbl.find a pc with Not_found -> [] in
  let merges = ref [] and stucks = ref [] and residues = ref [] in
  let work = ref [ (((EEntry, N0), entry_depth2 cb), []) ] in
  let fuel = ref (64 * int_of_n cb.cb_bytes + 64) in
  while !work <> [] && !fuel > 0 do
    decr fuel;
    (match !work with
     | [] -> ()
     | (((e, pc), d), path) :: w ->
         work := w;
         let path' = let p = int_of_n pc :: path in if List.length p > 80 then List.filteri (fun i _ -> i < 80) p else p in
         let here = get (int_of_n pc) in
         if List.exists (depth_eq d) here then ()
         else (match List.find_opt (fun d0 -> sel_eq d0.d2_base.d_sel d.d2_base.d_sel &&
                                              (not (in_drain cb pc) || int_of_n d0.d2_iter = int_of_n d.d2_iter)) here with
             | Some d0 -> merges := (e, pc, d0, d) :: !merges
             | None ->
                 Hashtbl.replace a (int_of_n pc) (d :: here);
                 (match succs_tagged2 cb pc d with
                  | None -> stucks := (pc, d, path') :: !stucks
                  | Some l ->
                      let l = if no_exc then List.filter (fun ((e', _), _) -> match e' with EExc _ -> false | _ -> true) l else l in
                      let fix ((e', pc'), d') =
                        match e' with
                        | EExc from ->
                            (match find_instr cb from with
                             | Some i ->
                                 let pick addr = match find_handler cb.cb_handlers addr with
                                   | Some h when int_of_n h.h_end = int_of_n pc' -> Some h | _ -> None in
                                 let h = (match pick (n_of_int (int_of_n i.i_next - 1)) with Some h -> Some h | None -> pick i.i_next) in
                                 (match h with
                                  | Some h ->
                                      (* depths of the range start; when it has several (selector valuations), the
                                         one sharing the most selectors with the faulting state, else the first *)
                                      (match get (int_of_n h.h_start) with
                                       | [] -> ((e', pc'), d')
                                       | l ->
                                           let assoc r sel = List.fold_left (fun acc (r', v) -> if int_of_n r' = int_of_n r then Some (int_of_n v) else acc) None sel in
                                           let compatible x =
                                             List.for_all (fun (r, v) -> match assoc r d.d2_base.d_sel with Some v' -> v' = int_of_n v | None -> true) x.d2_base.d_sel in
                                           let score x = List.length (List.filter (fun (r, _) -> assoc r d.d2_base.d_sel <> None) x.d2_base.d_sel) in
                                           let ds = (match List.find_opt (fun x -> sel_eq x.d2_base.d_sel d.d2_base.d_sel) l with
                                               | Some x -> x
                                               | None ->
                                                   (match List.sort (fun a b -> compare (score b) (score a)) (List.filter compatible l) with
                                                    | x :: _ -> x
                                                    | [] -> List.hd (List.rev l))) in
                                           let sb = not (list_eq ds.d2_base.d_bind d'.d2_base.d_bind) and ss = int_of_n ds.d2_base.d_stk <> int_of_n d'.d2_base.d_stk in
                                           if sb || ss then begin
                                             let cls = if sb then "exc-edge-binding-residue" else "exc-edge-stack-residue" in
                                             if List.length !residues < 12 then
                                               residues := (cls, Printf.sprintf "pc=%d %s throws at %s; handler %d..%d lands at %d whose range starts at %s"
                                                              (int_of_n from) (opname i.i_op) (show_depth2 d) (int_of_n h.h_start) (int_of_n h.h_end)
                                                              (int_of_n h.h_end) (show_depth2 ds)) :: !residues
                                           end;
                                           (* frame.iterators: Vm::handle_exception_at leaves it alone and the model is exact, so no
                                              leniency -- except for the one pattern diagnosed as a class of its own: an opcode that
                                              pops its record before calling into user code (and drops it when the call throws) inside
                                              a handler whose close code assumes the record of the range start is still on top *)
                                           let self_pop = (match i.i_op with
                                               | Op_IteratorNext | Op_IteratorValue | Op_IteratorUpdateResult | Op_IteratorFinishAsyncNext
                                               | Op_PushIteratorToArray -> true | _ -> false) in
                                           let it' =
                                             if self_pop && int_of_n d'.d2_iter + 1 = int_of_n ds.d2_iter then begin
                                               if List.length !residues < 12 then
                                                 residues := ("exc-edge-iterator-residue",
                                                              Printf.sprintf "pc=%d %s drops its record when the call throws (iter=%d); handler %d..%d lands at %d, its close code assumes iter=%d"
                                                                (int_of_n from) (opname i.i_op) (int_of_n d'.d2_iter) (int_of_n h.h_start) (int_of_n h.h_end)
                                                                (int_of_n h.h_end) (int_of_n ds.d2_iter)) :: !residues;
                                               ds.d2_iter end
                                             else d'.d2_iter in
                                           ((e', pc'), { d2_base = { d'.d2_base with d_bind = ds.d2_base.d_bind; d_stk = ds.d2_base.d_stk }; d2_iter = it' }))
                                  | None -> ((e', pc'), d'))
                             | None -> ((e', pc'), d'))
                        | _ -> ((e', pc'), d') in
                      work := List.map (fun x -> (fix x, path')) l @ !work)))
  done;
  lenient_table := a;
  (List.rev !merges, List.rev !stucks, List.rev !residues)

(* ---------- structural lint: finally dispatch with duplicate selector ----------
   Not part of the Coq verdict.  pop_try_with_finally_control_info emits `JumpTable sel [fallthrough, rec_1 .. rec_n]`; the
   code of a record that is forwarded to an enclosing finally is `StoreFalse flag; Store<k> outer_sel; Jump outer_finally`.
   Two different table entries forwarding the *same* k means two different abrupt completions (break / continue / return)
   are executed as one and the same after the outer finally block (bytecompiler/jump_control.rs: HandleFinally index
   taken from jumps.len() when the jump statement is compiled, not when the record is transferred). *)
let show_operand = function
  | AReg n -> Printf.sprintf "r%d" (int_of_n n) | AIdx n -> Printf.sprintf "i%d" (int_of_n n)
  | AAddr n -> Printf.sprintf "@%d" (int_of_n n) | AU32 n -> Printf.sprintf "u%d" (int_of_n n)
  | AU64 -> "u64" | AImm -> "imm"
  | AInt z -> (match z with Z0 -> "0" | Zpos p -> string_of_int (int_of_pos p) | Zneg p -> "-" ^ string_of_int (int_of_pos p))
  | AVReg l -> "[" ^ Stdlib.String.concat "," (List.map (fun n -> string_of_int (int_of_n n)) l) ^ "]"
  | AVAddr l -> "[" ^ Stdlib.String.concat "," (List.map (fun n -> string_of_int (int_of_n n)) l) ^ "]"
  | AVU32 l -> "[" ^ Stdlib.String.concat "," (List.map (fun n -> string_of_int (int_of_n n)) l) ^ "]"

let forward_signature (cb : codeblock) (a : n) : Stdlib.String.t option =
  let rec go pc k acc =
    if k = 0 then None else
    match find_instr cb pc with
    | None -> None
    | Some i ->
        let txt = opname i.i_op ^ "(" ^ Stdlib.String.concat "," (List.map show_operand i.i_args) ^ ")" in
        (match i.i_op with
         | Op_Jump -> Some (Stdlib.String.concat ";" (List.rev (txt :: acc)))
         | Op_StoreFalse | Op_StoreZero | Op_StoreOne | Op_StoreInt8 | Op_StoreInt16 | Op_StoreInt32 | Op_PopEnvironment -> go i.i_next (k - 1) (txt :: acc)
         | _ -> None) in
  match find_instr cb a with
  | Some i when i.i_op = Op_StoreFalse -> go a 8 []
  | _ -> None

let z_int = function Z0 -> 0 | Zpos p -> int_of_pos p | Zneg p -> - (int_of_pos p)

(* every record entry 1..n of a finally dispatch table must be selected by some `Store<k> sel` in the block: an entry that no
   store selects belongs to a record that was given another record's index *)
let dead_entry_lint (cb : codeblock) : Stdlib.String.t list =
  let all = instrs cb in
  let stores r =
    List.filter_map (fun i -> match i.i_op, i.i_args with
        | Op_StoreOne, [AReg r'] when int_of_n r' = r -> Some 1
        | (Op_StoreInt8 | Op_StoreInt16 | Op_StoreInt32), [AReg r'; AInt z] when int_of_n r' = r -> Some (z_int z)
        | _ -> None) all in
  List.concat_map (fun i ->
      match i.i_op, i.i_args with
      | Op_JumpTable, [AU32 r; AVAddr (_ :: recs)] when recs <> [] ->
          let finally_table = List.exists (fun p -> int_of_n p.i_next = int_of_n i.i_pc && (p.i_op = Op_Throw || p.i_op = Op_ReThrow)) all in
          if not finally_table then [] else
          let st = stores (int_of_n r) in
          List.concat (List.mapi (fun k a ->
              if List.mem (k + 1) st then []
              else [Printf.sprintf "JumpTable at pc=%d (selector r%d): entry %d -> %d is never selected by a store; stores select %s"
                      (int_of_n i.i_pc) (int_of_n r) (k + 1) (int_of_n a)
                      (Stdlib.String.concat "," (List.map string_of_int (List.sort_uniq compare st)))]) recs)
      | _ -> []) all

let duplicate_selector_lint (cb : codeblock) : Stdlib.String.t list =
  dead_entry_lint cb @
  List.concat_map (fun i ->
      match i.i_op, first_vaddr i.i_args with
      | Op_JumpTable, Some (_ :: recs) ->
          let sigs = List.filter_map (fun a -> match forward_signature cb a with Some s -> Some (int_of_n a, s) | None -> None) recs in
          let rec dups = function
            | [] -> []
            | (a, s) :: r ->
                (match List.find_opt (fun (a', s') -> s' = s && a' <> a) r with
                 | Some (a', _) -> [Printf.sprintf "JumpTable at pc=%d: entries %d and %d both forward `%s`" (int_of_n i.i_pc) a a' s]
                 | None -> []) @ dups r in
          dups sigs
      | _ -> []) (instrs cb)

(* ---------- binding locators against the environment chain (DeepLocators_C03.v) ---------- *)
let scope_of_string (sc : Stdlib.String.t) : n option =
  (* GlobalObject | GlobalDeclarative | Stack(n) *)
  let l = Stdlib.String.length sc in
  if l > 7 && Stdlib.String.sub sc 0 6 = "Stack(" then (try Some (n_of_int (int_of_string (Stdlib.String.sub sc 6 (l - 7)))) with _ -> None) else None

(* env_fp of a block = absolute environment depth at the GetFunction that creates its closure in the parent block
   (function_call: `env_fp = function.environments.len()`); 0 for the script and for the functions the script's
   GlobalDeclarationInstantiation creates natively *)
let fp_sites : (int, int list) Hashtbl.t = Hashtbl.create 16
let main_block : int option ref = ref None
let native_children : (int, unit) Hashtbl.t = Hashtbl.create 16

(* ---------- per block verification ---------- *)
type vblk = { b : blk; cb : codeblock; ok : bool; annot : depth2 list PositiveMap.t; resume_pcs : (int, unit) Hashtbl.t;
              fp : int option; scopes : n option list }

let verify_block (b : blk) : vblk =
  let cb = mk_codeblock b in
  if !main_block = None then main_block := Some b.bid;
  let nins = List.length b.ins in
  List.iter (fun i -> bump cov_static (opname i.i_op)) b.ins;
  let resume_pcs = Hashtbl.create 8 in
  List.iter (fun i -> match i.i_op with
      | Op_Generator | Op_AsyncGenerator | Op_GeneratorYield | Op_AsyncGeneratorYield | Op_Await ->
          Hashtbl.replace resume_pcs (int_of_n i.i_next) ()
      | _ -> ()) b.ins;
  let errs = ref [] in
  let add cls txt = errs := (cls, txt) :: !errs in
  List.iter (fun m -> add "instruction-does-not-match-signature" m) (List.rev b.decode_errs);
  if List.length b.consts <> b.nconsts then add "dump-inconsistent" "const count";
  if List.length b.hs <> b.nhandlers then add "dump-inconsistent" "handler count";
  lenient_table := Hashtbl.create 1;
  let (annot, ierrs) = infer_full2 cb in
  let fp =
    if b.fp_override >= 0 then Some b.fp_override
    else if !main_block = Some b.bid then Some 0
    else match Hashtbl.find_opt fp_sites b.bid with
      | Some (x :: r) -> Some (List.fold_left max x r)
      | _ -> if Hashtbl.mem native_children b.bid then Some 0 else None in
  let scopes = List.rev_map scope_of_string b.bind_scopes in
  let loc_ok = (match fp with Some f -> locators_ok cb scopes (n_of_int f) annot | None -> true) in
  let agree_ok = nonstack_agree cb annot in
  let v23 = b.decode_errs = [] && verify2 cb && loc_ok in
  let v = v23 && agree_ok in
  (* closures this block creates: GetFunction { dst, index } at absolute depth fp + relative depth *)
  (match fp with
   | Some f ->
       let consts = Array.of_list (List.rev b.consts) in
       List.iter (fun i -> match i.i_op, i.i_args with
           | Op_GetFunction, [_; AIdx k] when int_of_n k < Array.length consts ->
               let nested = snd consts.(int_of_n k) in
               List.iter (fun (d : depth2) ->
                   let cur = try Hashtbl.find fp_sites nested with Not_found -> [] in
                   Hashtbl.replace fp_sites nested ((f + int_of_n d.d2_base.d_env) :: cur)) (aget2 annot i.i_pc)
           | _ -> ()) b.ins;
       (* informational (needs the `const <i> C <scope index> ..` form of hooks.d/C03-binding-locators.patch): the environment
          PushScope creates gets index fp + relative depth, which is what the scope's own index (used by its locators) must be *)
       List.iter (fun i -> match i.i_op, i.i_args with
           | Op_PushScope, [AIdx k] when int_of_n k < Array.length consts ->
               (match consts.(int_of_n k) with
                | (CScope, sidx) when sidx >= 0 ->
                    List.iter (fun (d : depth2) ->
                        Printf.printf "note %d push-scope %s pc=%d scope_index=%d environment_index=%d\n" b.bid
                          (if sidx = f + int_of_n d.d2_base.d_env then "ok" else "MISMATCH") (int_of_n i.i_pc) sidx (f + int_of_n d.d2_base.d_env))
                      (aget2 annot i.i_pc)
                | _ -> ())
           | _ -> ()) b.ins;
       (* function constants of the script never created by a GetFunction: global function declarations *)
       if !main_block = Some b.bid then
         Array.iteri (fun idx (k, nested) ->
             let named = List.exists (fun i -> match i.i_op, i.i_args with
                 | Op_GetFunction, [_; AIdx k'] -> int_of_n k' = idx | _ -> false) b.ins in
             if k = CFun && not named then Hashtbl.replace native_children nested ()) consts
   | None -> ());
  (* structural diagnostics *)
  if not (wf_block cb) then begin
    List.iter (fun i -> if not (operands_ok cb i) then
                  add "operand-out-of-table" (Printf.sprintf "pc=%d %s" (int_of_n i.i_pc) (opname i.i_op))) (instrs cb);
    List.iter (fun h -> if not (handler_ok cb h) then
                  add "handler-range-malformed" (Printf.sprintf "handler %d..%d env=%d" (int_of_n h.h_start) (int_of_n h.h_end) (int_of_n h.h_env)))
      cb.cb_handlers;
    if not (contiguous cb) then add "layout-not-contiguous" "instruction offsets do not tile the bytecode";
    if b.bytes = 0 then add "empty-bytecode" ""
  end;
  let strict = List.map (function
      | ErrMerge2 (e, pc, have, want) ->
          (classify_merge2 ~flags:b.flags cb e (int_of_n pc) have want,
           Printf.sprintf "pc=%d edge=%s have=%s arriving=%s" (int_of_n pc) (edge_str e) (show_depth2 have) (show_depth2 want))
      | ErrStuck2 (pc, d) -> (stuck_reason cb pc d, Printf.sprintf "pc=%d at %s" (int_of_n pc) (show_depth2 d))
      | ErrFuel2 -> ("verifier-out-of-fuel", "")) (List.rev ierrs) in
  if strict <> [] then begin
    (* the strict pass failed: diagnose with the lenient pass (exception edges carry the depths of the range start, as a
       per-handler depth would), which reports the residue itself and every defect that is not a consequence of it *)
    let (merges, stucks, residues) = lenient_infer cb in
    (* iterator-stack conflicts on *normal* control flow alone (exception edges removed): these cannot be consequences of
       handler-entry residue, they are lowering defects of break / continue / return (a loop left without closing its record) *)
    let (nmerges, nstucks, _) = lenient_infer ~no_exc:true cb in
    let genuine_uf = List.filter_map (fun (pc, d, _) -> if stuck_reason cb pc d = "iterator-stack-underflow" then Some (int_of_n pc) else None) nstucks in
    let relabel_uf (c, t) pc = if c = "iterator-stack-underflow" && not (List.mem pc genuine_uf) then ("exc-edge-iterator-residue", "(consequence: reachable only through exception edges) iterator-stack-underflow " ^ t) else (c, t) in
    let genuine = List.filter_map (fun (e, pc, have, want) ->
        if classify_merge2 ~flags:b.flags cb e (int_of_n pc) have want = "iterator-stack-depth-merge" then Some (int_of_n pc) else None) nmerges in
    let relabel (c, t) pc = if c = "iterator-stack-depth-merge" && not (List.mem pc genuine) then ("exc-edge-iterator-residue", "(consequence) " ^ t) else (c, t) in
    let strict = List.map2 (fun (c, t) er -> match er with ErrMerge2 (_, pc, _, _) -> relabel (c, t) (int_of_n pc) | ErrStuck2 (pc, _) -> relabel_uf (c, t) (int_of_n pc) | _ -> (c, t)) strict (List.rev ierrs) in
    if merges = [] && stucks = [] && residues = [] then List.iter (fun (c, t) -> add c t) strict
    else begin
      List.iter (fun (c, t) -> add c t) residues;
      List.iter (fun (e, pc, have, want) ->
          let (c, t) = relabel (classify_merge2 ~flags:b.flags cb e (int_of_n pc) have want,
                                Printf.sprintf "pc=%d edge=%s have=%s arriving=%s" (int_of_n pc) (edge_str e) (show_depth2 have) (show_depth2 want)) (int_of_n pc) in
          add c t) merges;
      List.iter (fun (e, pc, have, want) ->
          if List.mem (int_of_n pc) genuine && not (List.exists (fun (e', pc', _, _) -> int_of_n pc' = int_of_n pc && e' = e) merges) then
            add "iterator-stack-depth-merge"
              (Printf.sprintf "[normal control flow only] pc=%d edge=%s have=%s arriving=%s" (int_of_n pc) (edge_str e) (show_depth2 have) (show_depth2 want))) nmerges;
      List.iter (fun (pc, d, path) ->
          let (c, t) = relabel_uf (stuck_reason cb pc d, Printf.sprintf "pc=%d at %s path(latest first)=%s" (int_of_n pc) (show_depth2 d)
                                     (Stdlib.String.concat "<" (List.map string_of_int path))) (int_of_n pc) in
          add c t) stucks
    end
  end;
  (match fp with
   | Some f when not loc_ok ->
       List.iter (fun i ->
           List.iter (fun (d : depth2) ->
               List.iter (fun bi ->
                   if not (locator_ok scopes (n_of_int f) d bi) && List.length !errs < 40 then
                     add "binding-locator-beyond-environment-chain"
                       (Printf.sprintf "pc=%d %s binding %d has locator Stack(%s) but the chain has %d environments here (env_fp=%d + relative %d)"
                          (int_of_n i.i_pc) (opname i.i_op) (int_of_n bi)
                          (match scope_of scopes bi with Some n -> string_of_int (int_of_n n) | None -> "?")
                          (f + int_of_n d.d2_base.d_env) f (int_of_n d.d2_base.d_env))) (binds_of i)) (aget2 annot i.i_pc)) b.ins
   | _ -> ());
  (* depths other than the value stack must not depend on the pending-completion selectors (DeepMerge_C03.v) *)
  let across ?(env_only = false) tbl_get src =
    List.iter (fun i ->
        let ds : depth2 list = tbl_get i.i_pc in
        let drain = in_drain cb i.i_pc in
        (match ds with
         | d0 :: rest ->
             (match List.find_opt (fun d -> if env_only then int_of_n d0.d2_base.d_env <> int_of_n d.d2_base.d_env else not (same_nonstack drain d0 d)) rest with
              | Some d when List.length !errs < 60 ->
                  let what = if int_of_n d0.d2_base.d_env <> int_of_n d.d2_base.d_env then "environment"
                    else if not (list_eq d0.d2_base.d_bind d.d2_base.d_bind) then "binding" else "iterator" in
                  add (if what = "binding" && leaked_by_short_circuit cb d0.d2_base.d_bind d.d2_base.d_bind
                       then "short-circuit-assign-locator-leak" else what ^ "-depth-differs-across-completions")
                    (Printf.sprintf "%spc=%d %s reached with %s and %s" src (int_of_n i.i_pc) (opname i.i_op) (show_depth2 d0) (show_depth2 d))
              | _ -> ())
         | [] -> ())) b.ins in
  if v23 && not agree_ok then across (fun pc -> aget2 annot pc) ""
  else if not v23 then begin
    (* the block is rejected for another reason (typically handler-entry residue, which also perturbs the selectors): look at
       normal control flow alone, where break / continue / return records travel to their finally blocks *)
    ignore (lenient_infer ~no_exc:true cb);
    (* only the environment depth is reported here: iterator / binding disagreements of such blocks are consequences of the
       residue classes already reported for them *)
    across ~env_only:true (fun pc -> try Hashtbl.find !lenient_table (int_of_n pc) with Not_found -> []) "[normal control flow only] "
  end;
  let dup = duplicate_selector_lint cb in
  let errs = List.rev !errs in
  (* consequences of a duplicated selector (a `continue` executed as `return` pops a value that was never pushed) *)
  let errs = if dup = [] then errs else
      List.map (fun (c, t) -> if c = "merge-stack-depth-mismatch" || c = "value-stack-underflow" then ("finally-dispatch-duplicate-selector", c ^ " " ^ t) else (c, t)) errs in
  let errs = errs @ List.map (fun t -> ("finally-dispatch-duplicate-selector", t)) dup in
  let lint_only = dup <> [] && List.for_all (fun (c, t) -> c = "finally-dispatch-duplicate-selector" && List.mem t dup) errs in
  if v && errs <> [] && not lint_only then Printf.printf "err %d class=internal-verifier-disagreement verify=true but diagnostics exist\n" b.bid;
  if (not v) && errs = [] then Printf.printf "err %d class=internal-verifier-disagreement verify=false without a diagnostic\n" b.bid;
  Printf.printf "blk %d %s nins=%d reach=%d handlers=%d env_fp=%s\n" b.bid (if v then "ok" else "REJECT") nins
    (List.length (PositiveMap.elements annot)) (List.length b.hs) (match fp with Some f -> string_of_int f | None -> "?");
  List.iter (fun (c, t) -> Printf.printf "err %d class=%s %s\n" b.bid c t) errs;
  { b; cb; ok = v; annot; resume_pcs; fp; scopes }

(* ---------- dynamic validation of the abstract machine against the VM's depth log ---------- *)
type drec = { dblock : int; frames : int; pc : int; op : int; stk : int; env : int; nb : int; it : int (* -1: not in the log *); efp : int (* env_fp, -1: not in the log *) }

let rec replicate k x = if k <= 0 then [] else x :: replicate (k - 1) x

let is_suspend = function
  | Op_Generator | Op_AsyncGenerator | Op_GeneratorYield | Op_AsyncGeneratorYield | Op_Await -> true | _ -> false

let validate (blocks : (int, vblk) Hashtbl.t) (log : drec list) : unit =
  let last : (int, drec) Hashtbl.t = Hashtbl.create 16 in
  let pairs = ref 0 and okc = ref 0 and skipped = ref 0 and bad = ref 0 and ach = ref 0 and abad = ref 0 in
  let exc_seen = ref false in
  let unknown = ref 0 in
  let report = ref [] in
  let wit = ref 0 and witness = ref [] in
  let locchk = ref 0 in
  List.iter (fun (r : drec) ->
      Hashtbl.filter_map_inplace (fun k v -> if k > r.frames then None else Some v) last;
      (match Hashtbl.find_opt blocks r.dblock with
       | None -> incr unknown
       | Some vb ->
           (* 0. env_fp and binding locators against the real chain (needs the env_fp column of the depth log) *)
           (if r.efp >= 0 then begin
              incr locchk;
              (match vb.fp with
               | Some f when f <> r.efp ->
                   incr bad;
                   if List.length !report < 20 then
                     report := Printf.sprintf "%d env_fp: computed %d from the creating GetFunction, the frame has %d" r.dblock f r.efp :: !report
               | _ -> ());
              (match find_instr vb.cb (n_of_int r.pc) with
               | Some i ->
                   List.iter (fun bi -> match scope_of vb.scopes bi with
                       | Some n when int_of_n n >= r.efp + r.env ->
                           if vb.ok then begin
                             incr bad;
                             if List.length !report < 20 then
                               report := Printf.sprintf "%d locator pc=%d %s binding %d Stack(%d) but environments.len()=%d" r.dblock r.pc (opname i.i_op)
                                   (int_of_n bi) (int_of_n n) (r.efp + r.env) :: !report
                           end else begin
                             incr wit;
                             if List.length !witness < 10 then
                               witness := Printf.sprintf "%d class=binding-locator-beyond-environment-chain pc=%d %s executed with Stack(%d) and environments.len()=%d"
                                   r.dblock r.pc (opname i.i_op) (int_of_n n) (r.efp + r.env) :: !witness
                           end
                       | _ -> ()) (binds_of i)
               | None -> ())
            end);
           (* 1. absolute comparison with the verifier's annotation *)
           (if vb.ok then
              match aget2 vb.annot (n_of_int r.pc) with
              | [] ->
                  incr ach; incr abad;
                  if List.length !report < 20 then
                    report := Printf.sprintf "%d annotation pc=%d executed but not reachable for the verifier" r.dblock r.pc :: !report
              | ds ->
                  incr ach;
                  let fits (d2 : depth2) =
                    let d = d2.d2_base in
                    int_of_n d.d_env = r.env && List.length d.d_bind = r.nb && (!exc_seen || int_of_n d.d_stk = r.stk) &&
                    (r.it < 0 || int_of_n d2.d2_iter = r.it) in
                  if not (List.exists fits ds) then begin
                    incr abad;
                    if List.length !report < 20 then
                      report := Printf.sprintf "%d annotation pc=%d %s observed (env=%d bind=%d stk=%d)" r.dblock r.pc
                          (Stdlib.String.concat "|" (List.map show_depth2 ds)) r.env r.nb r.stk :: !report
                  end);
           (* 2. the transition from the previous record of the same frame *)
           (match Hashtbl.find_opt last r.frames with
            | Some p when p.dblock = r.dblock ->
                incr pairs;
                let cb = vb.cb in
                let d = { d2_base = { d_env = n_of_int p.env; d_bind = replicate p.nb N0; d_stk = n_of_int p.stk; d_sel = [] };
                          d2_iter = n_of_int (if p.it < 0 then 1000 else p.it) } in
                let pop = opcode_of_byte (n_of_int p.op) in
                let entry_like () =
                  (r.pc = 0 && r.env = int_of_n cb.cb_entry_env && r.nb = 0) || Hashtbl.mem vb.resume_pcs r.pc in
                (match (if p.stk < 0 || p.env < 0 then None else succs_tagged2 cb (n_of_int p.pc) d) with
                 | None ->
                     (* the VM executed a state in which the abstract machine is stuck (or already below the register
                        file): in a block the verifier rejected this is a dynamic witness of the static diagnosis; in an
                        accepted block it contradicts verify_sound + the effect model *)
                     let why = if p.stk < 0 then "value-stack-below-register-file" else stuck_reason cb (n_of_int p.pc) d in
                     if vb.ok then begin
                       incr bad;
                       if List.length !report < 20 then
                         report := Printf.sprintf "%d stuck pc=%d %s at (env=%d bind=%d stk=%d): %s" r.dblock p.pc (opname pop) p.env p.nb p.stk why :: !report
                     end else begin
                       incr wit;
                       if List.length !witness < 10 then
                         witness := Printf.sprintf "%d class=%s pc=%d %s executed at (env=%d bind=%d stk=%d)" r.dblock why p.pc (opname pop) p.env p.nb p.stk :: !witness
                     end
                 | Some succs ->
                     let susp = is_suspend pop in
                     let m = List.find_opt (fun ((e, pc'), d') ->
                         int_of_n pc' = r.pc && int_of_n d'.d2_base.d_env = r.env && List.length d'.d2_base.d_bind = r.nb &&
                         (p.it < 0 || r.it < 0 || int_of_n d'.d2_iter = r.it || (pop = Op_IteratorFinishAsyncNext && int_of_n d'.d2_iter = r.it + 1)) &&
                         (match e with
                          | EExc _ -> true
                          | _ -> (susp && !exc_seen) || int_of_n d'.d2_base.d_stk = r.stk)) succs in
                     (match m with
                      | Some ((EExc _, _), _) -> incr okc; exc_seen := true; bump cov_exc (opname pop)
                      | Some _ -> incr okc; bump cov_norm (opname pop)
                      | None ->
                          if entry_like () then incr skipped
                          else begin
                            incr bad;
                            if List.length !report < 20 then
                              report := Printf.sprintf "%d transition pc=%d %s (env=%d bind=%d stk=%d) -> pc=%d (env=%d bind=%d stk=%d) not among [%s]"
                                  r.dblock p.pc (opname pop) p.env p.nb p.stk r.pc r.env r.nb r.stk
                                  (Stdlib.String.concat " " (List.map (fun ((e, pc'), d') -> Printf.sprintf "%s->%d%s" (edge_str e) (int_of_n pc') (show_depth2 d')) succs))
                                :: !report
                          end))
            | _ -> ()));
      Hashtbl.replace last r.frames r) log;
  Printf.printf "dyn pairs=%d ok=%d skipped=%d bad=%d annot_checked=%d annot_bad=%d unknown_block_records=%d witnesses=%d locator_records=%d\n"
    !pairs !okc !skipped !bad !ach !abad !unknown !wit !locchk;
  List.iter (fun s -> Printf.printf "dynwit %s\n" s) (List.rev !witness);
  List.iter (fun s -> Printf.printf "dynbad %s\n" s) (List.rev !report)

(* ---------- main loop ---------- *)
let split_ws s = List.filter (fun x -> x <> "") (Stdlib.String.split_on_char ' ' s)

let () =
  let cur : blk option ref = ref None in
  let blocks : (int, vblk) Hashtbl.t = Hashtbl.create 16 in
  let pending : blk list ref = ref [] in
  let log : drec list ref = ref [] in
  let fconsts : (int * int) list ref = ref [] in   (* (block, nested block id) *)
  let finish_case () =
    let bs = List.rev !pending in
    List.iter (fun b -> let vb = verify_block b in Hashtbl.replace blocks b.bid vb) bs;
    (* every function constant must be a dumped block *)
    List.iter (fun (bid, nested) ->
        if not (Hashtbl.mem blocks nested) then Printf.printf "err %d class=dump-inconsistent function constant %d has no block\n" bid nested) !fconsts;
    if !log <> [] then validate blocks (List.rev !log);
    Hashtbl.reset blocks; pending := []; log := []; fconsts := [];
    Hashtbl.reset fp_sites; Hashtbl.reset native_children; main_block := None in
  (try
     while true do
       let line = input_line stdin in
       let n = Stdlib.String.length line in
       if n >= 2 && line.[0] = 'd' && line.[1] = ' ' then begin
         match split_ws line with
         | _ :: b :: f :: pc :: op :: s :: e :: nb :: rest ->
             log := { dblock = int_of_string b; frames = int_of_string f; pc = int_of_string pc; op = int_of_string op;
                      stk = int_of_string s; env = int_of_string e; nb = int_of_string nb;
                      it = (match rest with x :: _ -> (try int_of_string x with _ -> -1) | [] -> -1);
                      efp = (match rest with _ :: y :: _ -> (try int_of_string y with _ -> -1) | _ -> -1) } :: !log
         | _ -> ()
       end
       else if n >= 4 && Stdlib.String.sub line 0 4 = "ins " then begin
         match !cur with
         | Some b ->
             (* ins <pc> <next> <byte> <text> *)
             let i1 = Stdlib.String.index_from line 4 ' ' in
             let i2 = Stdlib.String.index_from line (i1 + 1) ' ' in
             let i3 = Stdlib.String.index_from line (i2 + 1) ' ' in
             let pc = int_of_string (Stdlib.String.sub line 4 (i1 - 4)) in
             let next = int_of_string (Stdlib.String.sub line (i1 + 1) (i2 - i1 - 1)) in
             let byte = int_of_string (Stdlib.String.sub line (i2 + 1) (i3 - i2 - 1)) in
             add_ins b pc next byte (Stdlib.String.sub line (i3 + 1) (n - i3 - 1))
         | None -> ()
       end
       else begin
         let parts = split_ws line in
         match parts with
         | "case" :: id :: _ -> Printf.printf "case %s\n" id
         | "block" :: _ -> cur := Some (parse_block_header parts)
         | "const" :: _ :: k :: rest ->
             (match !cur with
              | Some b ->
                  let ck = (match k with "S" -> CStr | "B" -> CBig | "C" -> CScope | _ -> CFun) in
                  let nested = (match rest with x :: _ -> (try int_of_string x with _ -> -1) | [] -> -1) in
                  b.consts <- (ck, nested) :: b.consts;
                  if k = "F" then fconsts := (b.bid, nested) :: !fconsts
              | None -> ())
         | "binding" :: _ :: scope :: _ ->
             (match !cur with Some b -> b.bind_scopes <- scope :: b.bind_scopes | None -> ())
         | "handler" :: _ :: s :: e :: c :: _ ->
             (match !cur with
              | Some b -> b.hs <- { h_start = n_of_int (int_of_string s); h_end = n_of_int (int_of_string e); h_env = n_of_int (int_of_string c) } :: b.hs
              | None -> ())
         | "end" :: _ -> (match !cur with Some b -> pending := b :: !pending; cur := None | None -> ())
         | "status" :: _ -> finish_case (); print_endline line
         | "endcase" :: _ -> print_endline line
         | "dcut" :: _ -> print_endline line
         | _ -> ()
       end
     done
   with End_of_file -> ());
  List.iter (fun o ->
      let nm = opname o in
      let g t = try Hashtbl.find t nm with Not_found -> 0 in
      if nm <> "Reserved" then Printf.printf "cov %s %d %d %d\n" nm (g cov_static) (g cov_norm) (g cov_exc)) all_opcodes
