(* Driver for the extracted C06 model.  argv[1] = re-check mode of InlineCache::set: none | index | full;  argv[2] = sr when set_by_name has the receiver repair.  stdin: one history per line, `<id> <op>;<op>;...`; stdout one line
   per history: `<id>\t<cached run>\t<uncached run>\t<first irregular-accessor-slot step>`.
   A run is the outputs of its operations joined by `|`, an operation's outputs are blank-separated tokens
   (see checks/c06.py for the token grammar shared with the JavaScript side), `PANIC` ends a run.
   Ops:  B <f> <heap op> (body of accessor function f)   A s|u <p|->   D o k [v=V] [w=B] [g=V] [s=V] [e=B] [c=B]   X o k   P o <p|->   E o   Z o
         G s k o   S s k o V   N s k   M o   V g|s|n s k <keep bits>          V ::= u | n<int> | f<int> *)
open C06_model

let rec pos_of_int (i : int) : positive =
  if i = 1 then XH else if i land 1 = 0 then XO (pos_of_int (i lsr 1)) else XI (pos_of_int (i lsr 1))
let n_of_int (i : int) : n = if i = 0 then N0 else Npos (pos_of_int i)
let rec int_of_pos (p : positive) : int =
  match p with XH -> 1 | XO q -> 2 * int_of_pos q | XI q -> 2 * int_of_pos q + 1
let int_of_n (x : n) : int = match x with N0 -> 0 | Npos p -> int_of_pos p
let si x = string_of_int (int_of_n x)

let pval (s : string) : val0 =
  if s = "u" then VUndef
  else if s.[0] = 'n' then VNum (n_of_int (int_of_string (String.sub s 1 (String.length s - 1))))
  else if s.[0] = 'f' then VFun (n_of_int (int_of_string (String.sub s 1 (String.length s - 1))))
  else failwith ("bad value " ^ s)
let pobj (s : string) : n option = if s = "-" then None else Some (n_of_int (int_of_string s))
let pn (s : string) : n = n_of_int (int_of_string s)
let pb (s : string) : bool = s = "1"

let parse_desc (toks : string list) : pdesc =
  let v = ref None and w = ref None and g = ref None and s = ref None and e = ref None and c = ref None in
  List.iter (fun t ->
    let k = t.[0] and r = String.sub t 2 (String.length t - 2) in
    match k with
    | 'v' -> v := Some (pval r) | 'w' -> w := Some (pb r)
    | 'g' -> g := Some (pval r) | 's' -> s := Some (pval r)
    | 'e' -> e := Some (pb r) | 'c' -> c := Some (pb r)
    | _ -> failwith ("bad descriptor field " ^ t)) toks;
  let kind =
    if !g <> None || !s <> None then KAcc (!g, !s)
    else if !v <> None || !w <> None then KData (!v, !w)
    else KGeneric in
  { d_kind = kind; d_enum = !e; d_conf = !c }

let parse_op (s : string) : op =
  match String.split_on_char ' ' (String.trim s) |> List.filter (fun x -> x <> "") with
  | ["A"; k; p] -> OpAlloc (k = "u", pobj p)
  | "D" :: o :: k :: d -> OpDefine (pn o, pn k, parse_desc d)
  | ["X"; o; k] -> OpDelete (pn o, pn k)
  | ["P"; o; p] -> OpSetProto (pn o, pobj p)
  | ["E"; o] -> OpPreventExt (pn o)
  | ["Z"; o] -> OpFreeze (pn o)
  | ["G"; s; k; o] -> OpGet (pn s, pn k, pn o)
  | ["S"; s; k; o; v] -> OpSet (pn s, pn k, pn o, pval v)
  | ["N"; s; k] -> OpGetGlobal (pn s, pn k)
  | ["M"; o] -> OpDump (pn o)
  | ["V"; kd; s; k; keep] ->
      let kd = (match kd with "g" -> SGet | "s" -> SSet | _ -> SGlobal) in
      OpEvict (kd, pn s, pn k, List.init (String.length keep) (fun i -> keep.[i] = '1'))
  | _ -> failwith ("bad op: " ^ s)

(* super sites: T s k o r V  (super.k = V with home prototype o, this = r)   U s k o r  (super.k read) *)
let parse_xop (s : string) : xop =
  match String.split_on_char ' ' (String.trim s) |> List.filter (fun x -> x <> "") with
  | ["T"; st; k; o; r; v] -> XSetThis (pn st, pn k, pn o, pn r, pval v)
  | ["U"; st; k; o; r] -> XGetThis (pn st, pn k, pn o, pn r)
  | _ -> XOp (parse_op s)
let is_super (s : string) : bool = let t = String.trim s in String.length t > 2 && (t.[0] = 'T' || t.[0] = 'U') && t.[1] = ' '

(* `B <f> <op>`: append <op> to the body of accessor function f *)
let is_body (s : string) : bool = let t = String.trim s in String.length t > 2 && t.[0] = 'B' && t.[1] = ' '
let parse_body (s : string) : int * op =
  let t = String.trim s in
  let rest = String.sub t 2 (String.length t - 2) in
  let sp = String.index rest ' ' in
  (int_of_string (String.sub rest 0 sp), parse_op (String.sub rest (sp + 1) (String.length rest - sp - 1)))

let sval (v : val0) : string =
  match v with VUndef -> "u" | VNum x -> "n" ^ si x | VFun f -> "f" ^ si f
let b01 b = if b then "1" else "0"
let ob o d = match o with Some b -> b | None -> d
let sdesc (d : pdesc) : string =
  let e = b01 (ob d.d_enum false) and c = b01 (ob d.d_conf false) in
  match d.d_kind with
  | KData (v, w) -> "D" ^ sval (ob v VUndef) ^ "," ^ b01 (ob w false) ^ e ^ c
  | KAcc (g, s) -> "A" ^ sval (ob g VUndef) ^ "," ^ sval (ob s VUndef) ^ "," ^ e ^ c
  | KGeneric -> "G," ^ e ^ c
let sev (e : icev) : string =
  match e with EvHit -> "h" | EvMiss -> "x" | EvStore -> "s" | EvRefused -> "m" | EvMega -> "M"
let sout (o : out) : string =
  match o with
  | OVal v -> "v:" ^ sval v
  | OBool b -> "b:" ^ b01 b
  | ORefErr -> "E:ReferenceError"
  | OTypeErr -> "E:TypeError"
  | ONoObj -> "E:noobj"
  | OCall (f, a) -> "c:" ^ si f ^ ":" ^ (match a with Some v -> sval v | None -> "-")
  | ONew o -> "new:" ^ si o
  | ODumpObj (ext, proto, props) ->
      "d:x" ^ b01 ext ^ "^" ^ (match proto with Some p -> si p | None -> "-") ^ "[" ^
      String.concat "," (List.map (fun (k, d) -> si k ^ "=" ^ sdesc d) props) ^ "]"
  | OIC evs -> "ic:" ^ String.concat "" (List.map sev evs)
  | OBadStore -> ""
  | OThisDataHit -> ""
let srun (r : out list option list) : string =
  String.concat "|" (List.map (fun x -> match x with
    | Some l -> String.concat " " (List.map sout l)
    | None -> "PANIC") r)
let sr_fix = Array.length Sys.argv > 2 && Sys.argv.(2) = "sr"
let mode = if Array.length Sys.argv > 1 then (match Sys.argv.(1) with "none" -> RNone | "full" -> RFull | _ -> RIndex) else RIndex

let () =
  try
    while true do
      let line = input_line stdin in
      let line = String.trim line in
      if line <> "" then begin
        let sp = String.index line ' ' in
        let id = String.sub line 0 sp in
        let body = String.sub line (sp + 1) (String.length line - sp - 1) in
        let parts = List.filter (fun s -> String.trim s <> "") (String.split_on_char ';' body) in
        let bodies = List.map parse_body (List.filter is_body parts) in
        let plain = List.filter (fun s -> not (is_body s)) parts in
        let has_super = List.exists is_super plain in
        let xops = List.map parse_xop plain in
        let nf = List.fold_left (fun m (f, _) -> max m (f + 1)) 0 bodies in
        let ft = List.init nf (fun f -> List.map snd (List.filter (fun (g, _) -> g = f) bodies)) in
        let rc = xrun sr_fix mode true ft init xops in
        let ru = xrun sr_fix mode false ft init xops in
        let irr = if has_super then None else
          (match first_irregular mode ft init (List.map parse_op plain) N0 with Some i -> Some (int_of_n i) | None -> None) in
        let bad = (match first_bad_store rc N0 with Some i -> Some (int_of_n i) | None -> None) in
        let thi = (match first_this_data rc N0 with Some i -> Some (int_of_n i) | None -> None) in
        let cands = List.filter_map (fun x -> x)
          [ (match thi with Some i -> Some (i, 0, "cached-super-set-ignores-receiver") | None -> None);
            (match bad with Some i -> Some (i, 1, "cache-store-after-accessor-changed-the-property") | None -> None);
            (match irr with Some i -> Some (i, 2, "cached-hit-on-irregular-accessor-slot") | None -> None) ] in
        let k = (match List.sort compare cands with
                 | (i, _, c) :: _ -> string_of_int i ^ ":" ^ c
                 | [] -> "-") in
        print_string (id ^ "\t" ^ srun rc ^ "\t" ^ srun ru ^ "\t" ^ k ^ "\n")
      end
    done
  with End_of_file -> ()
