#!/bin/sh
# Builds the model driver from the extracted code.  coq/C06/Extract_C06.v writes _build/c06_model.ml{,i};
# every compiled output stays under _build/ (git-ignored), nothing is written next to the sources.
set -e
cd "$(dirname "$0")"
mkdir -p _build
if [ ! -f _build/c06_model.ml ]; then echo "missing _build/c06_model.ml (build coq/C06/Extract_C06.vo first)" >&2; exit 3; fi
if [ -x _build/c06_model ] && [ _build/c06_model -nt _build/c06_model.ml ] && [ _build/c06_model -nt c06_driver.ml ]; then exit 0; fi
cp c06_driver.ml _build/c06_driver.ml
cd _build
ocamlfind ocamlopt -O2 -w -a c06_model.mli c06_model.ml c06_driver.ml -o c06_model.tmp 2>/dev/null || \
ocamlfind ocamlopt -w -a c06_model.mli c06_model.ml c06_driver.ml -o c06_model.tmp
mv c06_model.tmp c06_model
