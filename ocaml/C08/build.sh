#!/bin/sh
# Builds the model driver from the extracted code.  coq/C08/Extract_C08.v writes _build/c08_model.ml{,i};
# every compiled output stays under _build/ (git-ignored), nothing is written next to the sources.
set -e
cd "$(dirname "$0")"
mkdir -p _build
if [ ! -f _build/c08_model.ml ]; then echo "missing _build/c08_model.ml (build coq/C08/Extract_C08.vo first)" >&2; exit 3; fi
if [ -x _build/c08_model ] && [ _build/c08_model -nt _build/c08_model.ml ] && [ _build/c08_model -nt c08_driver.ml ]; then exit 0; fi
cp c08_driver.ml _build/c08_driver.ml
cd _build
ocamlfind ocamlopt -O2 -w -a c08_model.mli c08_model.ml c08_driver.ml -o c08_model.tmp 2>/dev/null || \
ocamlfind ocamlopt -w -a c08_model.mli c08_model.ml c08_driver.ml -o c08_model.tmp
mv c08_model.tmp c08_model
