(* Driver for the extracted C08 model.  One case per input line, one result line per case.
     C <id> <nodes> <ranks>      nodes: ';'-separated "cut:succ,succ,..." (vertex = position), ranks: ','-separated
                                 -> "<id> 1" if counters_cut_cycles accepts, "<id> 0" otherwise
     V <id> <L> <R> <S> <host> <exit0> <codes> <choices>
                                 codes: '/'-separated "regs;start-end,start-end;instr,instr,..."
                                 instr: o<0|1>:s.s.s | c | k<callee>.<argc> | h<callee>.<argc>.<p|s> | t | r
                                 -> "<id> <completion> <log>"  log tokens: x<d>.<code>.<pc> c<d>.<code>.<target> l<kind> s
   Parsing is run-time only; nat stays the extracted unary datatype. *)
open C08_model

let nat_of_int n = let rec go acc n = if n <= 0 then acc else go (S acc) (n - 1) in go O n
let int_of_nat n = let rec go acc = function O -> acc | S n -> go (acc + 1) n in go 0 n
let split c s = if s = "" then [] else String.split_on_char c s
let ints c s = List.map int_of_string (split c s)

let parse_node s =
  match String.split_on_char ':' s with
  | [c; succ] -> { n_cut = (c = "1"); n_succ = List.map nat_of_int (ints ',' succ) }
  | [c] -> { n_cut = (c = "1"); n_succ = [] }
  | _ -> failwith "node"

let parse_instr s =
  let rest = String.sub s 1 (String.length s - 1) in
  match s.[0] with
  | 'o' -> (match String.split_on_char ':' rest with
            | [t; succ] -> IOp (t = "1", List.map nat_of_int (ints '.' succ))
            | [t] -> IOp (t = "1", [])
            | _ -> failwith "op")
  | 'c' -> ICounter
  | 'k' -> (match ints '.' rest with [a; b] -> ICall (nat_of_int a, nat_of_int b) | _ -> failwith "call")
  | 'h' -> (match String.split_on_char '.' rest with
            | [a; b; p] -> IHost (nat_of_int (int_of_string a), nat_of_int (int_of_string b), (if p = "s" then Swallow else Propagate))
            | _ -> failwith "host")
  | 't' -> IThrow
  | 'r' -> IReturn
  | _ -> failwith "instr"

let parse_code s =
  match String.split_on_char ';' s with
  | [regs; hs; ins] ->
      let handlers = List.map (fun h -> match ints '-' h with [a; b] -> { h_start = nat_of_int a; h_end = nat_of_int b } | _ -> failwith "handler") (split ',' hs) in
      { c_ins = List.map parse_instr (split ',' ins); c_handlers = handlers; c_regs = nat_of_int (int_of_string regs) }
  | _ -> failwith "code"

let kind_s = function KLoop -> "LoopIteration" | KRec -> "Recursion" | KStack -> "StackSize"
let comp_s = function CReturn -> "R" | CThrow -> "T" | CLimit k -> "L:" ^ kind_s k | CStuck -> "X"
let ev_s = function
  | EvExec (d, c, p) -> Printf.sprintf "x%d.%d.%d" (int_of_nat d) (int_of_nat c) (int_of_nat p)
  | EvCatch (d, c, p) -> Printf.sprintf "c%d.%d.%d" (int_of_nat d) (int_of_nat c) (int_of_nat p)
  | EvLimit k -> "l" ^ kind_s k
  | EvSwallow -> "s"

let () =
  try
    while true do
      let line = input_line stdin in
      (match String.split_on_char ' ' line with
       | "C" :: id :: nodes :: rest ->
           let ranks = match rest with r :: _ -> r | [] -> "" in
           (try
              let g = List.map parse_node (split ';' nodes) in
              let r = List.map nat_of_int (ints ',' ranks) in
              Printf.printf "%s %d\n" id (if counters_cut_cycles g r then 1 else 0)
            with _ -> Printf.printf "%s error\n" id)
       | "V" :: id :: l :: r :: s :: host :: exit0 :: codes :: rest ->
           let choices = match rest with c :: _ -> c | [] -> "" in
           (try
              let p = List.map parse_code (split '/' codes) in
              let lim = { lim_loop = nat_of_int (int_of_string l); lim_rec = nat_of_int (int_of_string r); lim_stack = nat_of_int (int_of_string s) } in
              let f0 = { f_code = O; f_pc = O; f_loops = O; f_exit = (exit0 = "1"); f_fp = O; f_pol = Propagate } in
              let regs0 = (match p with c :: _ -> c.c_regs | [] -> O) in
              let s0 = { st_frames = [f0]; st_host = nat_of_int (int_of_string host); st_stack = S (S regs0) (* Script::evaluate pushes this and the function slot, then the registers *); st_log = [] } in
              let o = run p lim (List.map nat_of_int (ints ',' choices)) s0 in
              let c, st = (match o with Running st -> "running", st | Done (c, st) -> comp_s c, st) in
              Printf.printf "%s %s %s\n" id c (String.concat " " (List.map ev_s st.st_log))
            with _ -> Printf.printf "%s error\n" id)
       | _ -> ());
      flush stdout
    done
  with End_of_file -> ()
