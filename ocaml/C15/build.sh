#!/bin/bash
# Builds the C15 model driver from the extracted code.  coq/C15/Extract_C15.v writes
# ocaml/C15/_build/c15_model.ml{,i}; every compiled file stays in _build/ (git-ignored), nothing is
# produced next to the sources.
set -e
cd "$(dirname "$0")"
mkdir -p _build
test -f _build/c15_model.ml || { echo "ocaml/C15/_build/c15_model.ml missing: build coq/C15/Extract_C15.vo first" >&2; exit 3; }
if [ ! -x _build/c15_driver ] || [ _build/c15_model.ml -nt _build/c15_driver ] || [ c15_driver.ml -nt _build/c15_driver ]; then
  cp c15_driver.ml _build/c15_driver.ml
  ( cd _build
    ocamlfind ocamlopt -O2 -w -a -package str c15_model.mli c15_model.ml c15_driver.ml -o c15_driver.tmp 2>/dev/null \
     || ocamlfind ocamlopt -w -a c15_model.mli c15_model.ml c15_driver.ml -o c15_driver.tmp
    mv c15_driver.tmp c15_driver )
fi
