#!/bin/bash
# Builds the C15 model driver from the extracted code (coq/C15/Extract_C15.v -> c15_model.ml).
set -e
cd "$(dirname "$0")"
test -f c15_model.ml || { echo "c15_model.ml missing: build coq/C15/Extract_C15.vo first" >&2; exit 3; }
if [ ! -x c15_driver ] || [ c15_model.ml -nt c15_driver ] || [ c15_driver.ml -nt c15_driver ]; then
  ocamlfind ocamlopt -O2 -w -a -package str c15_model.mli c15_model.ml c15_driver.ml -o c15_driver.tmp 2>/dev/null \
   || ocamlfind ocamlopt -w -a c15_model.mli c15_model.ml c15_driver.ml -o c15_driver.tmp
  mv c15_driver.tmp c15_driver
fi
