
val negb : bool -> bool

type nat =
| O
| S of nat

val option_map : ('a1 -> 'a2) -> 'a1 option -> 'a2 option

val snd : ('a1 * 'a2) -> 'a2

val length : 'a1 list -> nat

val app : 'a1 list -> 'a1 list -> 'a1 list

type comparison =
| Eq
| Lt
| Gt

val compOpp : comparison -> comparison

val add : nat -> nat -> nat

type positive =
| XI of positive
| XO of positive
| XH

type n =
| N0
| Npos of positive

type z =
| Z0
| Zpos of positive
| Zneg of positive

val eqb : bool -> bool -> bool

module Nat :
 sig
  val eqb : nat -> nat -> bool
 end

module Pos :
 sig
  type mask =
  | IsNul
  | IsPos of positive
  | IsNeg
 end

module Coq_Pos :
 sig
  val succ : positive -> positive

  val add : positive -> positive -> positive

  val add_carry : positive -> positive -> positive

  val pred_double : positive -> positive

  val pred_N : positive -> n

  type mask = Pos.mask =
  | IsNul
  | IsPos of positive
  | IsNeg

  val succ_double_mask : mask -> mask

  val double_mask : mask -> mask

  val double_pred_mask : positive -> mask

  val sub_mask : positive -> positive -> mask

  val sub_mask_carry : positive -> positive -> mask

  val mul : positive -> positive -> positive

  val iter : ('a1 -> 'a1) -> 'a1 -> positive -> 'a1

  val div2 : positive -> positive

  val div2_up : positive -> positive

  val size : positive -> positive

  val compare_cont : comparison -> positive -> positive -> comparison

  val compare : positive -> positive -> comparison

  val eqb : positive -> positive -> bool

  val coq_Nsucc_double : n -> n

  val coq_Ndouble : n -> n

  val coq_lor : positive -> positive -> positive

  val coq_land : positive -> positive -> n

  val ldiff : positive -> positive -> n

  val testbit : positive -> n -> bool

  val iter_op : ('a1 -> 'a1 -> 'a1) -> positive -> 'a1 -> 'a1

  val to_nat : positive -> nat

  val of_succ_nat : nat -> positive
 end

module N :
 sig
  val succ_double : n -> n

  val double : n -> n

  val succ_pos : n -> positive

  val sub : n -> n -> n

  val compare : n -> n -> comparison

  val leb : n -> n -> bool

  val pos_div_eucl : positive -> n -> n * n

  val coq_lor : n -> n -> n

  val ldiff : n -> n -> n

  val testbit : n -> n -> bool
 end

module Z :
 sig
  val double : z -> z

  val succ_double : z -> z

  val pred_double : z -> z

  val pos_sub : positive -> positive -> z

  val add : z -> z -> z

  val opp : z -> z

  val sub : z -> z -> z

  val mul : z -> z -> z

  val pow_pos : z -> positive -> z

  val pow : z -> z -> z

  val compare : z -> z -> comparison

  val leb : z -> z -> bool

  val ltb : z -> z -> bool

  val geb : z -> z -> bool

  val eqb : z -> z -> bool

  val max : z -> z -> z

  val min : z -> z -> z

  val abs : z -> z

  val to_nat : z -> nat

  val of_nat : nat -> z

  val of_N : n -> z

  val pos_div_eucl : positive -> z -> z * z

  val div_eucl : z -> z -> z * z

  val div : z -> z -> z

  val modulo : z -> z -> z

  val quotrem : z -> z -> z * z

  val rem : z -> z -> z

  val even : z -> bool

  val odd : z -> bool

  val div2 : z -> z

  val log2 : z -> z

  val testbit : z -> z -> bool

  val shiftl : z -> z -> z

  val shiftr : z -> z -> z

  val coq_land : z -> z -> z
 end

val nth : nat -> 'a1 list -> 'a1 -> 'a1

val rev : 'a1 list -> 'a1 list

val map : ('a1 -> 'a2) -> 'a1 list -> 'a2 list

val firstn : nat -> 'a1 list -> 'a1 list

val skipn : nat -> 'a1 list -> 'a1 list

val repeat : 'a1 -> nat -> 'a1 list

type fval =
| FNaN
| FInf of bool
| FFin of bool * z * z

val sgn : bool -> z

val trunc_mag : z -> z -> z

val truncate : fval -> z

val is_zero : fval -> bool

val is_integral : z -> z -> bool

val fin_cmp_int : bool -> z -> z -> z -> comparison

val recenter : z -> z -> z

val toUintN_spec : z -> fval -> z

val toIntN_spec : z -> fval -> z

val toUint8Clamp_spec : fval -> z

val toBigInt64_spec : z -> z

val toBigUint64_spec : z -> z

val wrap_u : z -> z -> z

val wrap_i : z -> z -> z

val sat : z -> z -> z -> z

val sat_i64 : z -> z

val u64 : z -> z

val int_of_number_old : fval -> z

val to_intN_old : z -> fval -> z

val to_uintN_old : z -> fval -> z

val to_uint8_clamp : fval -> z

type dbl = { d_neg : bool; d_be : z; d_frac : z }

val dbl_of_bits : z -> dbl

val fval_of_dbl : dbl -> fval

val f64_exponent : dbl -> z

val f64_significand : dbl -> z

val f64_to_int32_core : bool -> z -> z -> z

val fast_i32 : fval -> z option

val f64_to_int32 : dbl -> z

val f64_to_uint32 : dbl -> z

val cast_int_old : z -> z -> fval -> z

val cast_clamp_old : fval -> z

type kind =
| Int8
| Uint8
| Uint8C
| Int16
| Uint16
| Int32
| Uint32
| BigInt64
| BigUint64
| Float16
| Float32
| Float64

val esize : kind -> z

val is_big : kind -> bool

val kind_eqb : kind -> kind -> bool

type cfg = { narrow_fixed : bool; cast_fixed : bool }

val conv_old : kind -> dbl -> z

val conv_fixed : kind -> dbl -> z

val conv : cfg -> kind -> dbl -> z

val cast_old : kind -> dbl -> z

val cast : cfg -> kind -> dbl -> z

val conv_spec_fn : kind -> fval -> z

val decode_float : z -> z -> z -> fval

val nan_bits : z -> z -> z

val inf_bits : z -> z -> z

val rshift_rne : z -> z -> z

val encode_float : z -> z -> fval -> z

val f64_of_fval : fval -> z

val f64_of_Z : z -> z

val cANON_NAN : z

val f64_is_nan : z -> bool

val canon_num : z -> z

type jsval =
| JNum of z
| JBig of z
| JUndef

type err =
| TypeError
| RangeError

type 'a res =
| Ok of 'a
| Err of err

val bind : 'a1 res -> ('a1 -> 'a2 res) -> 'a2 res

val to_number : jsval -> z res

val to_bigint : jsval -> z res

type ioi =
| PInf
| NInf
| Int of z

val ioi_of : z -> ioi

val to_ioi : jsval -> ioi res

val mAX_SAFE : z

val to_index : jsval -> z res

val rel_of_ioi : ioi -> z -> z

val relative_start : jsval -> z -> z res

val relative_end : jsval -> z -> z res

val bytes_le : nat -> z -> z list

val of_bytes_le : z list -> z

val bswap : nat -> z -> z

val read_bytes : z -> nat -> z list -> z list option

val write_bytes : z -> z list -> z list -> z list option

val nsize : kind -> nat

val zlen : 'a1 list -> z

val elem_to_js : kind -> z -> jsval

val num_to_elem : cfg -> kind -> z -> z

val js_to_elem : cfg -> kind -> jsval -> z res

val float_kind : kind -> bool

val elem_f64_bits : kind -> z -> z

val cast_elem : cfg -> kind -> kind -> z -> z option

type tarr = { t_buf : nat; t_kind : kind; t_off : z; t_blen : z option;
              t_alen : z option }

type dview = { v_buf : nat; v_off : z; v_blen : z option }

val ta_oob : tarr -> z -> bool

val ta_length : tarr -> z -> z

val ta_byte_length : tarr -> z -> z

val validate_index : tarr -> fval -> z -> z option

val validate_index_u64 : tarr -> z -> z -> z option

val dv_oob : dview -> z -> bool

val dv_byte_length : dview -> z -> z

val dv_check : dview -> z -> z -> z -> z res

val ta_byte_index : tarr -> z -> z

val ta_read : tarr -> z -> z list -> z option

val ta_write : tarr -> z -> z -> z list -> z list option

val ta_get_elem : tarr -> fval -> z list -> z option option

val ta_set_elem : tarr -> fval -> z -> z list -> z list option

val dv_read : kind -> bool -> z -> z list -> z option

val dv_write : kind -> bool -> z -> z -> z list -> z list option

type buffer = { b_data : z list option; b_max : z option; b_shared : bool }

type view =
| VTA of tarr
| VDV of dview

type state = { bufs : buffer option list; views : view option list;
               poisoned : bool }

val mAX_BUFFER_SIZE : z

val set_nth : nat -> 'a1 option -> 'a1 option list -> 'a1 option list

val get_buf : state -> nat -> buffer option

val get_view : state -> nat -> view option

val put_buf : state -> nat -> buffer option -> state

val put_view : state -> nat -> view option -> state

val set_data : state -> nat -> z list -> state

val buf_data : state -> nat -> z list option

val buf_fixed : state -> nat -> bool

val zeros : z -> z list

val resize_list : z list -> z -> z list

type out =
| OSkip
| ODone
| OVal of jsval
| OThrow of err
| OPanic

type mid =
| NoMid
| MidResize of nat * z
| MidDetach of nat

val do_resize : state -> nat -> z -> state res

val do_detach : state -> nat -> state

val run_mid : state -> mid -> state res

val init_from_buffer : state -> kind -> nat -> jsval -> jsval -> tarr res

val alloc_ta : state -> nat -> kind -> z -> (state * tarr) res

val ta_validate : state -> tarr -> z res

val fval_of_bits : z -> fval

val set_element : cfg -> state -> tarr -> fval -> jsval -> state option res

val idx_of_Z : z -> fval

val get_element : state -> tarr -> fval -> jsval option

val seqZ : z -> nat -> z list

val set_many : cfg -> state -> tarr -> z list -> jsval -> state option res

val set_list : cfg -> state -> tarr -> z -> jsval list -> state option res

type key =
| KNum of z
| KNegZero

val key_index : key -> fval

type op =
| NewBuf of nat * bool * jsval * jsval option
| Resize of nat * jsval
| Transfer of nat * nat * bool * jsval
| Detach of nat
| BufSlice of nat * nat * jsval * jsval
| MkTA of nat * kind * nat * jsval * jsval
| MkTALen of nat * nat * kind * jsval
| MkTAFrom of nat * nat * kind * nat
| MkDV of nat * nat * jsval * jsval
| Get of nat * key
| SetE of nat * key * jsval * mid
| DvGet of nat * kind * jsval * bool
| DvSet of nat * kind * jsval * jsval * bool * mid
| Fill of nat * jsval * jsval * jsval * mid
| CopyWithin of nat * jsval * jsval * jsval * mid
| SetTA of nat * nat * jsval
| SetArr of nat * jsval list * jsval
| Subarray of nat * nat * jsval * jsval
| Slice of nat * nat * nat * jsval * jsval * mid
| At of nat * jsval
| With of nat * nat * nat * jsval * jsval

val thrown : state -> 'a1 res -> ('a1 -> state * out) -> state * out

val arg_mid : jsval -> mid -> mid

val step : cfg -> state -> op -> state * out

type vobs =
| VNone
| VTAObs of z * z * z
| VDVObs of (z * z) option

val obs_view : state -> view option -> vobs

type bobs =
| BNone
| BDetached
| BBytes of z list * z option

val obs_buf : buffer option -> bobs

val observe : state -> (bobs list * vobs list) * bool

val init_state : state
