
(** val negb : bool -> bool **)

let negb = function
| true -> false
| false -> true

type nat =
| O
| S of nat

(** val option_map : ('a1 -> 'a2) -> 'a1 option -> 'a2 option **)

let option_map f = function
| Some a -> Some (f a)
| None -> None

(** val snd : ('a1 * 'a2) -> 'a2 **)

let snd = function
| (_, y) -> y

(** val length : 'a1 list -> nat **)

let rec length = function
| [] -> O
| _ :: l' -> S (length l')

(** val app : 'a1 list -> 'a1 list -> 'a1 list **)

let rec app l m =
  match l with
  | [] -> m
  | a :: l1 -> a :: (app l1 m)

type comparison =
| Eq
| Lt
| Gt

(** val compOpp : comparison -> comparison **)

let compOpp = function
| Eq -> Eq
| Lt -> Gt
| Gt -> Lt

module Coq__1 = struct
 (** val add : nat -> nat -> nat **)
 let rec add n0 m =
   match n0 with
   | O -> m
   | S p -> S (add p m)
end
include Coq__1

type positive =
| XI of positive
| XO of positive
| XH

type n =
| N0
| Npos of positive

type z =
| Z0
| Zpos of positive
| Zneg of positive

(** val eqb : bool -> bool -> bool **)

let eqb b1 b2 =
  if b1 then b2 else if b2 then false else true

module Nat =
 struct
  (** val eqb : nat -> nat -> bool **)

  let rec eqb n0 m =
    match n0 with
    | O -> (match m with
            | O -> true
            | S _ -> false)
    | S n' -> (match m with
               | O -> false
               | S m' -> eqb n' m')
 end

module Pos =
 struct
  type mask =
  | IsNul
  | IsPos of positive
  | IsNeg
 end

module Coq_Pos =
 struct
  (** val succ : positive -> positive **)

  let rec succ = function
  | XI p -> XO (succ p)
  | XO p -> XI p
  | XH -> XO XH

  (** val add : positive -> positive -> positive **)

  let rec add x y =
    match x with
    | XI p ->
      (match y with
       | XI q -> XO (add_carry p q)
       | XO q -> XI (add p q)
       | XH -> XO (succ p))
    | XO p ->
      (match y with
       | XI q -> XI (add p q)
       | XO q -> XO (add p q)
       | XH -> XI p)
    | XH -> (match y with
             | XI q -> XO (succ q)
             | XO q -> XI q
             | XH -> XO XH)

  (** val add_carry : positive -> positive -> positive **)

  and add_carry x y =
    match x with
    | XI p ->
      (match y with
       | XI q -> XI (add_carry p q)
       | XO q -> XO (add_carry p q)
       | XH -> XI (succ p))
    | XO p ->
      (match y with
       | XI q -> XO (add_carry p q)
       | XO q -> XI (add p q)
       | XH -> XO (succ p))
    | XH ->
      (match y with
       | XI q -> XI (succ q)
       | XO q -> XO (succ q)
       | XH -> XI XH)

  (** val pred_double : positive -> positive **)

  let rec pred_double = function
  | XI p -> XI (XO p)
  | XO p -> XI (pred_double p)
  | XH -> XH

  (** val pred_N : positive -> n **)

  let pred_N = function
  | XI p -> Npos (XO p)
  | XO p -> Npos (pred_double p)
  | XH -> N0

  type mask = Pos.mask =
  | IsNul
  | IsPos of positive
  | IsNeg

  (** val succ_double_mask : mask -> mask **)

  let succ_double_mask = function
  | IsNul -> IsPos XH
  | IsPos p -> IsPos (XI p)
  | IsNeg -> IsNeg

  (** val double_mask : mask -> mask **)

  let double_mask = function
  | IsPos p -> IsPos (XO p)
  | x0 -> x0

  (** val double_pred_mask : positive -> mask **)

  let double_pred_mask = function
  | XI p -> IsPos (XO (XO p))
  | XO p -> IsPos (XO (pred_double p))
  | XH -> IsNul

  (** val sub_mask : positive -> positive -> mask **)

  let rec sub_mask x y =
    match x with
    | XI p ->
      (match y with
       | XI q -> double_mask (sub_mask p q)
       | XO q -> succ_double_mask (sub_mask p q)
       | XH -> IsPos (XO p))
    | XO p ->
      (match y with
       | XI q -> succ_double_mask (sub_mask_carry p q)
       | XO q -> double_mask (sub_mask p q)
       | XH -> IsPos (pred_double p))
    | XH -> (match y with
             | XH -> IsNul
             | _ -> IsNeg)

  (** val sub_mask_carry : positive -> positive -> mask **)

  and sub_mask_carry x y =
    match x with
    | XI p ->
      (match y with
       | XI q -> succ_double_mask (sub_mask_carry p q)
       | XO q -> double_mask (sub_mask p q)
       | XH -> IsPos (pred_double p))
    | XO p ->
      (match y with
       | XI q -> double_mask (sub_mask_carry p q)
       | XO q -> succ_double_mask (sub_mask_carry p q)
       | XH -> double_pred_mask p)
    | XH -> IsNeg

  (** val mul : positive -> positive -> positive **)

  let rec mul x y =
    match x with
    | XI p -> add y (XO (mul p y))
    | XO p -> XO (mul p y)
    | XH -> y

  (** val iter : ('a1 -> 'a1) -> 'a1 -> positive -> 'a1 **)

  let rec iter f x = function
  | XI n' -> f (iter f (iter f x n') n')
  | XO n' -> iter f (iter f x n') n'
  | XH -> f x

  (** val div2 : positive -> positive **)

  let div2 = function
  | XI p0 -> p0
  | XO p0 -> p0
  | XH -> XH

  (** val div2_up : positive -> positive **)

  let div2_up = function
  | XI p0 -> succ p0
  | XO p0 -> p0
  | XH -> XH

  (** val size : positive -> positive **)

  let rec size = function
  | XI p0 -> succ (size p0)
  | XO p0 -> succ (size p0)
  | XH -> XH

  (** val compare_cont : comparison -> positive -> positive -> comparison **)

  let rec compare_cont r x y =
    match x with
    | XI p ->
      (match y with
       | XI q -> compare_cont r p q
       | XO q -> compare_cont Gt p q
       | XH -> Gt)
    | XO p ->
      (match y with
       | XI q -> compare_cont Lt p q
       | XO q -> compare_cont r p q
       | XH -> Gt)
    | XH -> (match y with
             | XH -> r
             | _ -> Lt)

  (** val compare : positive -> positive -> comparison **)

  let compare =
    compare_cont Eq

  (** val eqb : positive -> positive -> bool **)

  let rec eqb p q =
    match p with
    | XI p0 -> (match q with
                | XI q0 -> eqb p0 q0
                | _ -> false)
    | XO p0 -> (match q with
                | XO q0 -> eqb p0 q0
                | _ -> false)
    | XH -> (match q with
             | XH -> true
             | _ -> false)

  (** val coq_Nsucc_double : n -> n **)

  let coq_Nsucc_double = function
  | N0 -> Npos XH
  | Npos p -> Npos (XI p)

  (** val coq_Ndouble : n -> n **)

  let coq_Ndouble = function
  | N0 -> N0
  | Npos p -> Npos (XO p)

  (** val coq_lor : positive -> positive -> positive **)

  let rec coq_lor p q =
    match p with
    | XI p0 ->
      (match q with
       | XI q0 -> XI (coq_lor p0 q0)
       | XO q0 -> XI (coq_lor p0 q0)
       | XH -> p)
    | XO p0 ->
      (match q with
       | XI q0 -> XI (coq_lor p0 q0)
       | XO q0 -> XO (coq_lor p0 q0)
       | XH -> XI p0)
    | XH -> (match q with
             | XO q0 -> XI q0
             | _ -> q)

  (** val coq_land : positive -> positive -> n **)

  let rec coq_land p q =
    match p with
    | XI p0 ->
      (match q with
       | XI q0 -> coq_Nsucc_double (coq_land p0 q0)
       | XO q0 -> coq_Ndouble (coq_land p0 q0)
       | XH -> Npos XH)
    | XO p0 ->
      (match q with
       | XI q0 -> coq_Ndouble (coq_land p0 q0)
       | XO q0 -> coq_Ndouble (coq_land p0 q0)
       | XH -> N0)
    | XH -> (match q with
             | XO _ -> N0
             | _ -> Npos XH)

  (** val ldiff : positive -> positive -> n **)

  let rec ldiff p q =
    match p with
    | XI p0 ->
      (match q with
       | XI q0 -> coq_Ndouble (ldiff p0 q0)
       | XO q0 -> coq_Nsucc_double (ldiff p0 q0)
       | XH -> Npos (XO p0))
    | XO p0 ->
      (match q with
       | XI q0 -> coq_Ndouble (ldiff p0 q0)
       | XO q0 -> coq_Ndouble (ldiff p0 q0)
       | XH -> Npos p)
    | XH -> (match q with
             | XO _ -> Npos XH
             | _ -> N0)

  (** val testbit : positive -> n -> bool **)

  let rec testbit p n0 =
    match p with
    | XI p0 -> (match n0 with
                | N0 -> true
                | Npos n1 -> testbit p0 (pred_N n1))
    | XO p0 -> (match n0 with
                | N0 -> false
                | Npos n1 -> testbit p0 (pred_N n1))
    | XH -> (match n0 with
             | N0 -> true
             | Npos _ -> false)

  (** val iter_op : ('a1 -> 'a1 -> 'a1) -> positive -> 'a1 -> 'a1 **)

  let rec iter_op op0 p a =
    match p with
    | XI p0 -> op0 a (iter_op op0 p0 (op0 a a))
    | XO p0 -> iter_op op0 p0 (op0 a a)
    | XH -> a

  (** val to_nat : positive -> nat **)

  let to_nat x =
    iter_op Coq__1.add x (S O)

  (** val of_succ_nat : nat -> positive **)

  let rec of_succ_nat = function
  | O -> XH
  | S x -> succ (of_succ_nat x)
 end

module N =
 struct
  (** val succ_double : n -> n **)

  let succ_double = function
  | N0 -> Npos XH
  | Npos p -> Npos (XI p)

  (** val double : n -> n **)

  let double = function
  | N0 -> N0
  | Npos p -> Npos (XO p)

  (** val succ_pos : n -> positive **)

  let succ_pos = function
  | N0 -> XH
  | Npos p -> Coq_Pos.succ p

  (** val sub : n -> n -> n **)

  let sub n0 m =
    match n0 with
    | N0 -> N0
    | Npos n' ->
      (match m with
       | N0 -> n0
       | Npos m' ->
         (match Coq_Pos.sub_mask n' m' with
          | Coq_Pos.IsPos p -> Npos p
          | _ -> N0))

  (** val compare : n -> n -> comparison **)

  let compare n0 m =
    match n0 with
    | N0 -> (match m with
             | N0 -> Eq
             | Npos _ -> Lt)
    | Npos n' -> (match m with
                  | N0 -> Gt
                  | Npos m' -> Coq_Pos.compare n' m')

  (** val leb : n -> n -> bool **)

  let leb x y =
    match compare x y with
    | Gt -> false
    | _ -> true

  (** val pos_div_eucl : positive -> n -> n * n **)

  let rec pos_div_eucl a b =
    match a with
    | XI a' ->
      let (q, r) = pos_div_eucl a' b in
      let r' = succ_double r in
      if leb b r' then ((succ_double q), (sub r' b)) else ((double q), r')
    | XO a' ->
      let (q, r) = pos_div_eucl a' b in
      let r' = double r in
      if leb b r' then ((succ_double q), (sub r' b)) else ((double q), r')
    | XH ->
      (match b with
       | N0 -> (N0, (Npos XH))
       | Npos p -> (match p with
                    | XH -> ((Npos XH), N0)
                    | _ -> (N0, (Npos XH))))

  (** val coq_lor : n -> n -> n **)

  let coq_lor n0 m =
    match n0 with
    | N0 -> m
    | Npos p -> (match m with
                 | N0 -> n0
                 | Npos q -> Npos (Coq_Pos.coq_lor p q))

  (** val ldiff : n -> n -> n **)

  let ldiff n0 m =
    match n0 with
    | N0 -> N0
    | Npos p -> (match m with
                 | N0 -> n0
                 | Npos q -> Coq_Pos.ldiff p q)

  (** val testbit : n -> n -> bool **)

  let testbit a n0 =
    match a with
    | N0 -> false
    | Npos p -> Coq_Pos.testbit p n0
 end

module Z =
 struct
  (** val double : z -> z **)

  let double = function
  | Z0 -> Z0
  | Zpos p -> Zpos (XO p)
  | Zneg p -> Zneg (XO p)

  (** val succ_double : z -> z **)

  let succ_double = function
  | Z0 -> Zpos XH
  | Zpos p -> Zpos (XI p)
  | Zneg p -> Zneg (Coq_Pos.pred_double p)

  (** val pred_double : z -> z **)

  let pred_double = function
  | Z0 -> Zneg XH
  | Zpos p -> Zpos (Coq_Pos.pred_double p)
  | Zneg p -> Zneg (XI p)

  (** val pos_sub : positive -> positive -> z **)

  let rec pos_sub x y =
    match x with
    | XI p ->
      (match y with
       | XI q -> double (pos_sub p q)
       | XO q -> succ_double (pos_sub p q)
       | XH -> Zpos (XO p))
    | XO p ->
      (match y with
       | XI q -> pred_double (pos_sub p q)
       | XO q -> double (pos_sub p q)
       | XH -> Zpos (Coq_Pos.pred_double p))
    | XH ->
      (match y with
       | XI q -> Zneg (XO q)
       | XO q -> Zneg (Coq_Pos.pred_double q)
       | XH -> Z0)

  (** val add : z -> z -> z **)

  let add x y =
    match x with
    | Z0 -> y
    | Zpos x' ->
      (match y with
       | Z0 -> x
       | Zpos y' -> Zpos (Coq_Pos.add x' y')
       | Zneg y' -> pos_sub x' y')
    | Zneg x' ->
      (match y with
       | Z0 -> x
       | Zpos y' -> pos_sub y' x'
       | Zneg y' -> Zneg (Coq_Pos.add x' y'))

  (** val opp : z -> z **)

  let opp = function
  | Z0 -> Z0
  | Zpos x0 -> Zneg x0
  | Zneg x0 -> Zpos x0

  (** val sub : z -> z -> z **)

  let sub m n0 =
    add m (opp n0)

  (** val mul : z -> z -> z **)

  let mul x y =
    match x with
    | Z0 -> Z0
    | Zpos x' ->
      (match y with
       | Z0 -> Z0
       | Zpos y' -> Zpos (Coq_Pos.mul x' y')
       | Zneg y' -> Zneg (Coq_Pos.mul x' y'))
    | Zneg x' ->
      (match y with
       | Z0 -> Z0
       | Zpos y' -> Zneg (Coq_Pos.mul x' y')
       | Zneg y' -> Zpos (Coq_Pos.mul x' y'))

  (** val pow_pos : z -> positive -> z **)

  let pow_pos z0 =
    Coq_Pos.iter (mul z0) (Zpos XH)

  (** val pow : z -> z -> z **)

  let pow x = function
  | Z0 -> Zpos XH
  | Zpos p -> pow_pos x p
  | Zneg _ -> Z0

  (** val compare : z -> z -> comparison **)

  let compare x y =
    match x with
    | Z0 -> (match y with
             | Z0 -> Eq
             | Zpos _ -> Lt
             | Zneg _ -> Gt)
    | Zpos x' -> (match y with
                  | Zpos y' -> Coq_Pos.compare x' y'
                  | _ -> Gt)
    | Zneg x' ->
      (match y with
       | Zneg y' -> compOpp (Coq_Pos.compare x' y')
       | _ -> Lt)

  (** val leb : z -> z -> bool **)

  let leb x y =
    match compare x y with
    | Gt -> false
    | _ -> true

  (** val ltb : z -> z -> bool **)

  let ltb x y =
    match compare x y with
    | Lt -> true
    | _ -> false

  (** val geb : z -> z -> bool **)

  let geb x y =
    match compare x y with
    | Lt -> false
    | _ -> true

  (** val eqb : z -> z -> bool **)

  let eqb x y =
    match x with
    | Z0 -> (match y with
             | Z0 -> true
             | _ -> false)
    | Zpos p -> (match y with
                 | Zpos q -> Coq_Pos.eqb p q
                 | _ -> false)
    | Zneg p -> (match y with
                 | Zneg q -> Coq_Pos.eqb p q
                 | _ -> false)

  (** val max : z -> z -> z **)

  let max n0 m =
    match compare n0 m with
    | Lt -> m
    | _ -> n0

  (** val min : z -> z -> z **)

  let min n0 m =
    match compare n0 m with
    | Gt -> m
    | _ -> n0

  (** val abs : z -> z **)

  let abs = function
  | Zneg p -> Zpos p
  | x -> x

  (** val to_nat : z -> nat **)

  let to_nat = function
  | Zpos p -> Coq_Pos.to_nat p
  | _ -> O

  (** val of_nat : nat -> z **)

  let of_nat = function
  | O -> Z0
  | S n1 -> Zpos (Coq_Pos.of_succ_nat n1)

  (** val of_N : n -> z **)

  let of_N = function
  | N0 -> Z0
  | Npos p -> Zpos p

  (** val pos_div_eucl : positive -> z -> z * z **)

  let rec pos_div_eucl a b =
    match a with
    | XI a' ->
      let (q, r) = pos_div_eucl a' b in
      let r' = add (mul (Zpos (XO XH)) r) (Zpos XH) in
      if ltb r' b
      then ((mul (Zpos (XO XH)) q), r')
      else ((add (mul (Zpos (XO XH)) q) (Zpos XH)), (sub r' b))
    | XO a' ->
      let (q, r) = pos_div_eucl a' b in
      let r' = mul (Zpos (XO XH)) r in
      if ltb r' b
      then ((mul (Zpos (XO XH)) q), r')
      else ((add (mul (Zpos (XO XH)) q) (Zpos XH)), (sub r' b))
    | XH -> if leb (Zpos (XO XH)) b then (Z0, (Zpos XH)) else ((Zpos XH), Z0)

  (** val div_eucl : z -> z -> z * z **)

  let div_eucl a b =
    match a with
    | Z0 -> (Z0, Z0)
    | Zpos a' ->
      (match b with
       | Z0 -> (Z0, a)
       | Zpos _ -> pos_div_eucl a' b
       | Zneg b' ->
         let (q, r) = pos_div_eucl a' (Zpos b') in
         (match r with
          | Z0 -> ((opp q), Z0)
          | _ -> ((opp (add q (Zpos XH))), (add b r))))
    | Zneg a' ->
      (match b with
       | Z0 -> (Z0, a)
       | Zpos _ ->
         let (q, r) = pos_div_eucl a' b in
         (match r with
          | Z0 -> ((opp q), Z0)
          | _ -> ((opp (add q (Zpos XH))), (sub b r)))
       | Zneg b' -> let (q, r) = pos_div_eucl a' (Zpos b') in (q, (opp r)))

  (** val div : z -> z -> z **)

  let div a b =
    let (q, _) = div_eucl a b in q

  (** val modulo : z -> z -> z **)

  let modulo a b =
    let (_, r) = div_eucl a b in r

  (** val quotrem : z -> z -> z * z **)

  let quotrem a b =
    match a with
    | Z0 -> (Z0, Z0)
    | Zpos a0 ->
      (match b with
       | Z0 -> (Z0, a)
       | Zpos b0 ->
         let (q, r) = N.pos_div_eucl a0 (Npos b0) in ((of_N q), (of_N r))
       | Zneg b0 ->
         let (q, r) = N.pos_div_eucl a0 (Npos b0) in
         ((opp (of_N q)), (of_N r)))
    | Zneg a0 ->
      (match b with
       | Z0 -> (Z0, a)
       | Zpos b0 ->
         let (q, r) = N.pos_div_eucl a0 (Npos b0) in
         ((opp (of_N q)), (opp (of_N r)))
       | Zneg b0 ->
         let (q, r) = N.pos_div_eucl a0 (Npos b0) in
         ((of_N q), (opp (of_N r))))

  (** val rem : z -> z -> z **)

  let rem a b =
    snd (quotrem a b)

  (** val even : z -> bool **)

  let even = function
  | Z0 -> true
  | Zpos p -> (match p with
               | XO _ -> true
               | _ -> false)
  | Zneg p -> (match p with
               | XO _ -> true
               | _ -> false)

  (** val odd : z -> bool **)

  let odd = function
  | Z0 -> false
  | Zpos p -> (match p with
               | XO _ -> false
               | _ -> true)
  | Zneg p -> (match p with
               | XO _ -> false
               | _ -> true)

  (** val div2 : z -> z **)

  let div2 = function
  | Z0 -> Z0
  | Zpos p -> (match p with
               | XH -> Z0
               | _ -> Zpos (Coq_Pos.div2 p))
  | Zneg p -> Zneg (Coq_Pos.div2_up p)

  (** val log2 : z -> z **)

  let log2 = function
  | Zpos p0 ->
    (match p0 with
     | XI p -> Zpos (Coq_Pos.size p)
     | XO p -> Zpos (Coq_Pos.size p)
     | XH -> Z0)
  | _ -> Z0

  (** val testbit : z -> z -> bool **)

  let testbit a = function
  | Z0 -> odd a
  | Zpos p ->
    (match a with
     | Z0 -> false
     | Zpos a0 -> Coq_Pos.testbit a0 (Npos p)
     | Zneg a0 -> negb (N.testbit (Coq_Pos.pred_N a0) (Npos p)))
  | Zneg _ -> false

  (** val shiftl : z -> z -> z **)

  let shiftl a = function
  | Z0 -> a
  | Zpos p -> Coq_Pos.iter (mul (Zpos (XO XH))) a p
  | Zneg p -> Coq_Pos.iter div2 a p

  (** val shiftr : z -> z -> z **)

  let shiftr a n0 =
    shiftl a (opp n0)

  (** val coq_land : z -> z -> z **)

  let coq_land a b =
    match a with
    | Z0 -> Z0
    | Zpos a0 ->
      (match b with
       | Z0 -> Z0
       | Zpos b0 -> of_N (Coq_Pos.coq_land a0 b0)
       | Zneg b0 -> of_N (N.ldiff (Npos a0) (Coq_Pos.pred_N b0)))
    | Zneg a0 ->
      (match b with
       | Z0 -> Z0
       | Zpos b0 -> of_N (N.ldiff (Npos b0) (Coq_Pos.pred_N a0))
       | Zneg b0 ->
         Zneg (N.succ_pos (N.coq_lor (Coq_Pos.pred_N a0) (Coq_Pos.pred_N b0))))
 end

(** val nth : nat -> 'a1 list -> 'a1 -> 'a1 **)

let rec nth n0 l default =
  match n0 with
  | O -> (match l with
          | [] -> default
          | x :: _ -> x)
  | S m -> (match l with
            | [] -> default
            | _ :: t -> nth m t default)

(** val rev : 'a1 list -> 'a1 list **)

let rec rev = function
| [] -> []
| x :: l' -> app (rev l') (x :: [])

(** val map : ('a1 -> 'a2) -> 'a1 list -> 'a2 list **)

let rec map f = function
| [] -> []
| a :: t -> (f a) :: (map f t)

(** val firstn : nat -> 'a1 list -> 'a1 list **)

let rec firstn n0 l =
  match n0 with
  | O -> []
  | S n1 -> (match l with
             | [] -> []
             | a :: l0 -> a :: (firstn n1 l0))

(** val skipn : nat -> 'a1 list -> 'a1 list **)

let rec skipn n0 l =
  match n0 with
  | O -> l
  | S n1 -> (match l with
             | [] -> []
             | _ :: l0 -> skipn n1 l0)

(** val repeat : 'a1 -> nat -> 'a1 list **)

let rec repeat x = function
| O -> []
| S k -> x :: (repeat x k)

type fval =
| FNaN
| FInf of bool
| FFin of bool * z * z

(** val sgn : bool -> z **)

let sgn = function
| true -> Zneg XH
| false -> Zpos XH

(** val trunc_mag : z -> z -> z **)

let trunc_mag m e =
  if Z.leb Z0 e
  then Z.mul m (Z.pow (Zpos (XO XH)) e)
  else Z.div m (Z.pow (Zpos (XO XH)) (Z.opp e))

(** val truncate : fval -> z **)

let truncate = function
| FFin (s, m, e) -> Z.mul (sgn s) (trunc_mag m e)
| _ -> Z0

(** val is_zero : fval -> bool **)

let is_zero = function
| FFin (_, m, _) -> Z.eqb m Z0
| _ -> false

(** val is_integral : z -> z -> bool **)

let is_integral m e =
  (||) (Z.leb Z0 e) (Z.eqb (Z.modulo m (Z.pow (Zpos (XO XH)) (Z.opp e))) Z0)

(** val fin_cmp_int : bool -> z -> z -> z -> comparison **)

let fin_cmp_int s m e n0 =
  if Z.leb Z0 e
  then Z.compare (Z.mul (Z.mul (sgn s) m) (Z.pow (Zpos (XO XH)) e)) n0
  else Z.compare (Z.mul (sgn s) m) (Z.mul n0 (Z.pow (Zpos (XO XH)) (Z.opp e)))

(** val recenter : z -> z -> z **)

let recenter n0 z0 =
  if Z.geb z0 (Z.pow (Zpos (XO XH)) (Z.sub n0 (Zpos XH)))
  then Z.sub z0 (Z.pow (Zpos (XO XH)) n0)
  else z0

(** val toUintN_spec : z -> fval -> z **)

let toUintN_spec n0 x =
  Z.modulo (truncate x) (Z.pow (Zpos (XO XH)) n0)

(** val toIntN_spec : z -> fval -> z **)

let toIntN_spec n0 x =
  recenter n0 (Z.modulo (truncate x) (Z.pow (Zpos (XO XH)) n0))

(** val toUint8Clamp_spec : fval -> z **)

let toUint8Clamp_spec = function
| FNaN -> Z0
| FInf neg -> if neg then Z0 else Zpos (XI (XI (XI (XI (XI (XI (XI XH)))))))
| FFin (neg, m, e) ->
  if neg
  then Z0
  else let t2 = trunc_mag (Z.mul (Zpos (XO XH)) m) e in
       if Z.leb (Zpos (XO (XI (XI (XI (XI (XI (XI (XI XH))))))))) t2
       then Zpos (XI (XI (XI (XI (XI (XI (XI XH)))))))
       else let half =
              if Z.leb Z0 e
              then false
              else (&&)
                     (Z.eqb
                       (Z.modulo (Z.mul (Zpos (XO XH)) m)
                         (Z.pow (Zpos (XO XH)) (Z.opp e))) Z0)
                     (Z.odd
                       (Z.div (Z.mul (Zpos (XO XH)) m)
                         (Z.pow (Zpos (XO XH)) (Z.opp e))))
            in
            if half
            then let f = Z.div t2 (Zpos (XO XH)) in
                 if Z.even f then f else Z.add f (Zpos XH)
            else Z.div (Z.add t2 (Zpos XH)) (Zpos (XO XH))

(** val toBigInt64_spec : z -> z **)

let toBigInt64_spec z0 =
  recenter (Zpos (XO (XO (XO (XO (XO (XO XH)))))))
    (Z.modulo z0
      (Z.pow (Zpos (XO XH)) (Zpos (XO (XO (XO (XO (XO (XO XH)))))))))

(** val toBigUint64_spec : z -> z **)

let toBigUint64_spec z0 =
  Z.modulo z0 (Z.pow (Zpos (XO XH)) (Zpos (XO (XO (XO (XO (XO (XO XH))))))))

(** val wrap_u : z -> z -> z **)

let wrap_u n0 z0 =
  Z.modulo z0 (Z.pow (Zpos (XO XH)) n0)

(** val wrap_i : z -> z -> z **)

let wrap_i n0 z0 =
  recenter n0 (Z.modulo z0 (Z.pow (Zpos (XO XH)) n0))

(** val sat : z -> z -> z -> z **)

let sat lo hi z0 =
  Z.max lo (Z.min hi z0)

(** val sat_i64 : z -> z **)

let sat_i64 z0 =
  sat (Z.opp (Z.pow (Zpos (XO XH)) (Zpos (XI (XI (XI (XI (XI XH))))))))
    (Z.sub (Z.pow (Zpos (XO XH)) (Zpos (XI (XI (XI (XI (XI XH))))))) (Zpos
      XH)) z0

(** val u64 : z -> z **)

let u64 z0 =
  Z.modulo z0 (Z.pow (Zpos (XO XH)) (Zpos (XO (XO (XO (XO (XO (XO XH))))))))

(** val int_of_number_old : fval -> z **)

let int_of_number_old x =
  sat_i64 (truncate x)

(** val to_intN_old : z -> fval -> z **)

let to_intN_old n0 x = match x with
| FFin (_, _, _) ->
  if is_zero x
  then Z0
  else let r = Z.rem (int_of_number_old x) (Z.pow (Zpos (XO XH)) n0) in
       if Z.geb r (Z.pow (Zpos (XO XH)) (Z.sub n0 (Zpos XH)))
       then wrap_i n0 (Z.sub r (Z.pow (Zpos (XO XH)) n0))
       else wrap_i n0 r
| _ -> Z0

(** val to_uintN_old : z -> fval -> z **)

let to_uintN_old n0 x = match x with
| FFin (_, _, _) ->
  if is_zero x
  then Z0
  else wrap_u n0 (Z.rem (int_of_number_old x) (Z.pow (Zpos (XO XH)) n0))
| _ -> Z0

(** val to_uint8_clamp : fval -> z **)

let to_uint8_clamp = function
| FNaN -> Z0
| FInf neg -> if neg then Z0 else Zpos (XI (XI (XI (XI (XI (XI (XI XH)))))))
| FFin (s, m, e) ->
  (match fin_cmp_int s m e Z0 with
   | Gt ->
     (match fin_cmp_int s m e (Zpos (XI (XI (XI (XI (XI (XI (XI XH)))))))) with
      | Lt ->
        let f = trunc_mag m e in
        (match fin_cmp_int s (Z.mul (Zpos (XO XH)) m) e
                 (Z.add (Z.mul (Zpos (XO XH)) f) (Zpos XH)) with
         | Eq -> if Z.odd f then Z.add f (Zpos XH) else f
         | Lt -> f
         | Gt -> Z.add f (Zpos XH))
      | _ -> Zpos (XI (XI (XI (XI (XI (XI (XI XH))))))))
   | _ -> Z0)

type dbl = { d_neg : bool; d_be : z; d_frac : z }

(** val dbl_of_bits : z -> dbl **)

let dbl_of_bits b =
  { d_neg = (Z.testbit b (Zpos (XI (XI (XI (XI (XI XH))))))); d_be =
    (Z.coq_land (Z.shiftr b (Zpos (XO (XO (XI (XO (XI XH))))))) (Zpos (XI (XI
      (XI (XI (XI (XI (XI (XI (XI (XI XH)))))))))))); d_frac =
    (Z.coq_land b
      (Z.sub (Z.pow (Zpos (XO XH)) (Zpos (XO (XO (XI (XO (XI XH))))))) (Zpos
        XH))) }

(** val fval_of_dbl : dbl -> fval **)

let fval_of_dbl d =
  if Z.eqb d.d_be (Zpos (XI (XI (XI (XI (XI (XI (XI (XI (XI (XI XH)))))))))))
  then if Z.eqb d.d_frac Z0 then FInf d.d_neg else FNaN
  else if Z.eqb d.d_be Z0
       then FFin (d.d_neg, d.d_frac, (Zneg (XO (XI (XO (XO (XI (XI (XO (XO
              (XO (XO XH))))))))))))
       else FFin (d.d_neg,
              (Z.add d.d_frac
                (Z.pow (Zpos (XO XH)) (Zpos (XO (XO (XI (XO (XI XH)))))))),
              (Z.sub d.d_be (Zpos (XI (XI (XO (XO (XI (XI (XO (XO (XO (XO
                XH)))))))))))))

(** val f64_exponent : dbl -> z **)

let f64_exponent d =
  if Z.eqb d.d_be Z0
  then Zneg (XO (XI (XO (XO (XI (XI (XO (XO (XO (XO XH))))))))))
  else Z.sub d.d_be (Zpos (XI (XI (XO (XO (XI (XI (XO (XO (XO (XO
         XH)))))))))))

(** val f64_significand : dbl -> z **)

let f64_significand d =
  if Z.eqb d.d_be Z0
  then d.d_frac
  else Z.add d.d_frac
         (Z.pow (Zpos (XO XH)) (Zpos (XO (XO (XI (XO (XI XH)))))))

(** val f64_to_int32_core : bool -> z -> z -> z **)

let f64_to_int32_core neg m e =
  if Z.ltb e Z0
  then if Z.leb e (Zneg (XI (XO (XI (XO (XI XH))))))
       then Z0
       else wrap_i (Zpos (XO (XO (XO (XO (XO XH))))))
              (Z.mul (sgn neg) (Z.shiftr m (Z.opp e)))
  else if Z.ltb (Zpos (XI (XI (XI (XI XH))))) e
       then Z0
       else wrap_i (Zpos (XO (XO (XO (XO (XO XH))))))
              (Z.mul (sgn neg)
                (Z.coq_land (u64 (Z.shiftl m e)) (Zpos (XI (XI (XI (XI (XI
                  (XI (XI (XI (XI (XI (XI (XI (XI (XI (XI (XI (XI (XI (XI (XI
                  (XI (XI (XI (XI (XI (XI (XI (XI (XI (XI (XI
                  XH))))))))))))))))))))))))))))))))))

(** val fast_i32 : fval -> z option **)

let fast_i32 = function
| FFin (s, m, e) ->
  (match fin_cmp_int s m e (Zpos (XI (XI (XI (XI (XI (XI (XI (XI (XI (XI (XI
           (XI (XI (XI (XI (XI (XI (XI (XI (XI (XI (XI (XI (XI (XI (XI (XI
           (XI (XI (XI XH))))))))))))))))))))))))))))))) with
   | Gt -> None
   | _ ->
     (match fin_cmp_int s m e (Zneg (XO (XO (XO (XO (XO (XO (XO (XO (XO (XO
              (XO (XO (XO (XO (XO (XO (XO (XO (XO (XO (XO (XO (XO (XO (XO (XO
              (XO (XO (XO (XO (XO XH)))))))))))))))))))))))))))))))) with
      | Lt -> None
      | _ ->
        let i = Z.mul (sgn s) (trunc_mag m e) in
        (match fin_cmp_int s m e i with
         | Eq -> Some i
         | _ -> None)))
| _ -> None

(** val f64_to_int32 : dbl -> z **)

let f64_to_int32 d =
  match fast_i32 (fval_of_dbl d) with
  | Some i -> i
  | None -> f64_to_int32_core d.d_neg (f64_significand d) (f64_exponent d)

(** val f64_to_uint32 : dbl -> z **)

let f64_to_uint32 d =
  wrap_u (Zpos (XO (XO (XO (XO (XO XH)))))) (f64_to_int32 d)

(** val cast_int_old : z -> z -> fval -> z **)

let cast_int_old lo hi x = match x with
| FNaN -> Z0
| FInf neg -> if neg then lo else hi
| FFin (_, _, _) -> sat lo hi (truncate x)

(** val cast_clamp_old : fval -> z **)

let cast_clamp_old = function
| FNaN -> Z0
| FInf neg -> if neg then Z0 else Zpos (XI (XI (XI (XI (XI (XI (XI XH)))))))
| FFin (s, m, e) ->
  (match fin_cmp_int s m e Z0 with
   | Gt ->
     (match fin_cmp_int s m e (Zpos (XI (XI (XI (XI (XI (XI (XI XH)))))))) with
      | Lt ->
        Z.div (Z.add (trunc_mag (Z.mul (Zpos (XO XH)) m) e) (Zpos XH)) (Zpos
          (XO XH))
      | _ -> Zpos (XI (XI (XI (XI (XI (XI (XI XH))))))))
   | _ -> Z0)

type kind =
| Int8
| Uint8
| Uint8C
| Int16
| Uint16
| Int32
| Uint32
| BigInt64
| BigUint64
| Float16
| Float32
| Float64

(** val esize : kind -> z **)

let esize = function
| Int8 -> Zpos XH
| Uint8 -> Zpos XH
| Uint8C -> Zpos XH
| Int16 -> Zpos (XO XH)
| Uint16 -> Zpos (XO XH)
| Int32 -> Zpos (XO (XO XH))
| Uint32 -> Zpos (XO (XO XH))
| Float16 -> Zpos (XO XH)
| Float32 -> Zpos (XO (XO XH))
| _ -> Zpos (XO (XO (XO XH)))

(** val is_big : kind -> bool **)

let is_big = function
| BigInt64 -> true
| BigUint64 -> true
| _ -> false

(** val kind_eqb : kind -> kind -> bool **)

let kind_eqb a b =
  match a with
  | Int8 -> (match b with
             | Int8 -> true
             | _ -> false)
  | Uint8 -> (match b with
              | Uint8 -> true
              | _ -> false)
  | Uint8C -> (match b with
               | Uint8C -> true
               | _ -> false)
  | Int16 -> (match b with
              | Int16 -> true
              | _ -> false)
  | Uint16 -> (match b with
               | Uint16 -> true
               | _ -> false)
  | Int32 -> (match b with
              | Int32 -> true
              | _ -> false)
  | Uint32 -> (match b with
               | Uint32 -> true
               | _ -> false)
  | BigInt64 -> (match b with
                 | BigInt64 -> true
                 | _ -> false)
  | BigUint64 -> (match b with
                  | BigUint64 -> true
                  | _ -> false)
  | Float16 -> (match b with
                | Float16 -> true
                | _ -> false)
  | Float32 -> (match b with
                | Float32 -> true
                | _ -> false)
  | Float64 -> (match b with
                | Float64 -> true
                | _ -> false)

type cfg = { narrow_fixed : bool; cast_fixed : bool }

(** val conv_old : kind -> dbl -> z **)

let conv_old k d =
  let x = fval_of_dbl d in
  (match k with
   | Int8 -> to_intN_old (Zpos (XO (XO (XO XH)))) x
   | Uint8 -> to_uintN_old (Zpos (XO (XO (XO XH)))) x
   | Uint8C -> to_uint8_clamp x
   | Int16 -> to_intN_old (Zpos (XO (XO (XO (XO XH))))) x
   | Uint16 -> to_uintN_old (Zpos (XO (XO (XO (XO XH))))) x
   | Int32 -> f64_to_int32 d
   | Uint32 -> f64_to_uint32 d
   | _ -> Z0)

(** val conv_fixed : kind -> dbl -> z **)

let conv_fixed k d =
  match k with
  | Int8 -> wrap_i (Zpos (XO (XO (XO XH)))) (f64_to_int32 d)
  | Uint8 -> wrap_u (Zpos (XO (XO (XO XH)))) (f64_to_int32 d)
  | Uint8C -> to_uint8_clamp (fval_of_dbl d)
  | Int16 -> wrap_i (Zpos (XO (XO (XO (XO XH))))) (f64_to_int32 d)
  | Uint16 -> wrap_u (Zpos (XO (XO (XO (XO XH))))) (f64_to_int32 d)
  | Int32 -> f64_to_int32 d
  | Uint32 -> f64_to_uint32 d
  | _ -> Z0

(** val conv : cfg -> kind -> dbl -> z **)

let conv c k d =
  if c.narrow_fixed then conv_fixed k d else conv_old k d

(** val cast_old : kind -> dbl -> z **)

let cast_old k d =
  let x = fval_of_dbl d in
  (match k with
   | Int8 ->
     cast_int_old (Zneg (XO (XO (XO (XO (XO (XO (XO XH)))))))) (Zpos (XI (XI
       (XI (XI (XI (XI XH))))))) x
   | Uint8 -> cast_int_old Z0 (Zpos (XI (XI (XI (XI (XI (XI (XI XH)))))))) x
   | Uint8C -> cast_clamp_old x
   | Int16 ->
     cast_int_old (Zneg (XO (XO (XO (XO (XO (XO (XO (XO (XO (XO (XO (XO (XO
       (XO (XO XH)))))))))))))))) (Zpos (XI (XI (XI (XI (XI (XI (XI (XI (XI
       (XI (XI (XI (XI (XI XH))))))))))))))) x
   | Uint16 ->
     cast_int_old Z0 (Zpos (XI (XI (XI (XI (XI (XI (XI (XI (XI (XI (XI (XI
       (XI (XI (XI XH)))))))))))))))) x
   | Int32 ->
     cast_int_old (Zneg (XO (XO (XO (XO (XO (XO (XO (XO (XO (XO (XO (XO (XO
       (XO (XO (XO (XO (XO (XO (XO (XO (XO (XO (XO (XO (XO (XO (XO (XO (XO
       (XO XH)))))))))))))))))))))))))))))))) (Zpos (XI (XI (XI (XI (XI (XI
       (XI (XI (XI (XI (XI (XI (XI (XI (XI (XI (XI (XI (XI (XI (XI (XI (XI
       (XI (XI (XI (XI (XI (XI (XI XH))))))))))))))))))))))))))))))) x
   | Uint32 ->
     cast_int_old Z0 (Zpos (XI (XI (XI (XI (XI (XI (XI (XI (XI (XI (XI (XI
       (XI (XI (XI (XI (XI (XI (XI (XI (XI (XI (XI (XI (XI (XI (XI (XI (XI
       (XI (XI XH)))))))))))))))))))))))))))))))) x
   | _ -> Z0)

(** val cast : cfg -> kind -> dbl -> z **)

let cast c k d =
  if c.cast_fixed then conv_fixed k d else cast_old k d

(** val conv_spec_fn : kind -> fval -> z **)

let conv_spec_fn k x =
  match k with
  | Int8 -> toIntN_spec (Zpos (XO (XO (XO XH)))) x
  | Uint8 -> toUintN_spec (Zpos (XO (XO (XO XH)))) x
  | Uint8C -> toUint8Clamp_spec x
  | Int16 -> toIntN_spec (Zpos (XO (XO (XO (XO XH))))) x
  | Uint16 -> toUintN_spec (Zpos (XO (XO (XO (XO XH))))) x
  | Int32 -> toIntN_spec (Zpos (XO (XO (XO (XO (XO XH)))))) x
  | Uint32 -> toUintN_spec (Zpos (XO (XO (XO (XO (XO XH)))))) x
  | _ -> Z0

(** val decode_float : z -> z -> z -> fval **)

let decode_float m e bits =
  let frac = Z.modulo bits (Z.pow (Zpos (XO XH)) m) in
  let be =
    Z.modulo (Z.div bits (Z.pow (Zpos (XO XH)) m)) (Z.pow (Zpos (XO XH)) e)
  in
  let neg = Z.odd (Z.div bits (Z.pow (Zpos (XO XH)) (Z.add m e))) in
  let bias = Z.sub (Z.pow (Zpos (XO XH)) (Z.sub e (Zpos XH))) (Zpos XH) in
  if Z.eqb be (Z.sub (Z.pow (Zpos (XO XH)) e) (Zpos XH))
  then if Z.eqb frac Z0 then FInf neg else FNaN
  else if Z.eqb be Z0
       then FFin (neg, frac, (Z.sub (Z.sub (Zpos XH) bias) m))
       else FFin (neg, (Z.add frac (Z.pow (Zpos (XO XH)) m)),
              (Z.sub (Z.sub be bias) m))

(** val nan_bits : z -> z -> z **)

let nan_bits m e =
  Z.add
    (Z.mul (Z.sub (Z.pow (Zpos (XO XH)) e) (Zpos XH))
      (Z.pow (Zpos (XO XH)) m)) (Z.pow (Zpos (XO XH)) (Z.sub m (Zpos XH)))

(** val inf_bits : z -> z -> z **)

let inf_bits m e =
  Z.mul (Z.sub (Z.pow (Zpos (XO XH)) e) (Zpos XH)) (Z.pow (Zpos (XO XH)) m)

(** val rshift_rne : z -> z -> z **)

let rshift_rne m d =
  let q = Z.div m (Z.pow (Zpos (XO XH)) d) in
  let r = Z.modulo m (Z.pow (Zpos (XO XH)) d) in
  let h = Z.pow (Zpos (XO XH)) (Z.sub d (Zpos XH)) in
  if (||) (Z.ltb h r) ((&&) (Z.eqb r h) (Z.odd q))
  then Z.add q (Zpos XH)
  else q

(** val encode_float : z -> z -> fval -> z **)

let encode_float m e x =
  let signbit = fun neg ->
    if neg then Z.pow (Zpos (XO XH)) (Z.add m e) else Z0
  in
  (match x with
   | FNaN -> nan_bits m e
   | FInf neg -> Z.add (signbit neg) (inf_bits m e)
   | FFin (neg, m0, e0) ->
     if Z.eqb m0 Z0
     then signbit neg
     else let bias =
            Z.sub (Z.pow (Zpos (XO XH)) (Z.sub e (Zpos XH))) (Zpos XH)
          in
          let emin = Z.sub (Zpos XH) bias in
          let ex = Z.add (Z.log2 m0) e0 in
          let q = Z.sub (if Z.ltb ex emin then emin else ex) m in
          let sig0 =
            if Z.leb q e0
            then Z.mul m0 (Z.pow (Zpos (XO XH)) (Z.sub e0 q))
            else rshift_rne m0 (Z.sub q e0)
          in
          let mag =
            if Z.ltb ex emin
            then sig0
            else Z.add
                   (Z.mul (Z.sub (Z.add ex bias) (Zpos XH))
                     (Z.pow (Zpos (XO XH)) m)) sig0
          in
          Z.add (signbit neg)
            (if Z.leb (inf_bits m e) mag then inf_bits m e else mag))

(** val f64_of_fval : fval -> z **)

let f64_of_fval =
  encode_float (Zpos (XO (XO (XI (XO (XI XH)))))) (Zpos (XI (XI (XO XH))))

(** val f64_of_Z : z -> z **)

let f64_of_Z z0 =
  f64_of_fval (FFin ((Z.ltb z0 Z0), (Z.abs z0), Z0))

(** val cANON_NAN : z **)

let cANON_NAN =
  nan_bits (Zpos (XO (XO (XI (XO (XI XH)))))) (Zpos (XI (XI (XO XH))))

(** val f64_is_nan : z -> bool **)

let f64_is_nan b =
  let d = dbl_of_bits b in
  (&&)
    (Z.eqb d.d_be (Zpos (XI (XI (XI (XI (XI (XI (XI (XI (XI (XI XH))))))))))))
    (negb (Z.eqb d.d_frac Z0))

(** val canon_num : z -> z **)

let canon_num b =
  if f64_is_nan b then cANON_NAN else b

type jsval =
| JNum of z
| JBig of z
| JUndef

type err =
| TypeError
| RangeError

type 'a res =
| Ok of 'a
| Err of err

(** val bind : 'a1 res -> ('a1 -> 'a2 res) -> 'a2 res **)

let bind r f =
  match r with
  | Ok a -> f a
  | Err e -> Err e

(** val to_number : jsval -> z res **)

let to_number = function
| JNum b -> Ok (canon_num b)
| JBig _ -> Err TypeError
| JUndef -> Ok cANON_NAN

(** val to_bigint : jsval -> z res **)

let to_bigint = function
| JBig z0 -> Ok z0
| _ -> Err TypeError

type ioi =
| PInf
| NInf
| Int of z

(** val ioi_of : z -> ioi **)

let ioi_of b =
  match fval_of_dbl (dbl_of_bits b) with
  | FNaN -> Int Z0
  | FInf neg -> if neg then NInf else PInf
  | FFin (s, m, e) ->
    if Z.eqb m Z0 then Int Z0 else Int (sat_i64 (truncate (FFin (s, m, e))))

(** val to_ioi : jsval -> ioi res **)

let to_ioi v =
  bind (to_number v) (fun b -> Ok (ioi_of b))

(** val mAX_SAFE : z **)

let mAX_SAFE =
  Z.sub (Z.pow (Zpos (XO XH)) (Zpos (XI (XO (XI (XO (XI XH))))))) (Zpos XH)

(** val to_index : jsval -> z res **)

let to_index v = match v with
| JUndef -> Ok Z0
| _ ->
  bind (to_ioi v) (fun i ->
    match i with
    | Int z0 ->
      let c = sat Z0 mAX_SAFE z0 in
      if Z.eqb z0 c then Ok c else Err RangeError
    | _ -> Err RangeError)

(** val rel_of_ioi : ioi -> z -> z **)

let rel_of_ioi i len =
  match i with
  | PInf -> len
  | NInf -> Z0
  | Int z0 ->
    if Z.ltb z0 Z0
    then if Z.leb Z0 (Z.add len z0) then Z.add len z0 else Z0
    else Z.min z0 len

(** val relative_start : jsval -> z -> z res **)

let relative_start v len =
  bind (to_ioi v) (fun i -> Ok (rel_of_ioi i len))

(** val relative_end : jsval -> z -> z res **)

let relative_end v len =
  match v with
  | JUndef -> Ok len
  | _ -> bind (to_ioi v) (fun i -> Ok (rel_of_ioi i len))

(** val bytes_le : nat -> z -> z list **)

let rec bytes_le n0 v =
  match n0 with
  | O -> []
  | S n' ->
    (Z.modulo v (Zpos (XO (XO (XO (XO (XO (XO (XO (XO XH)))))))))) :: 
      (bytes_le n'
        (Z.div v (Zpos (XO (XO (XO (XO (XO (XO (XO (XO XH)))))))))))

(** val of_bytes_le : z list -> z **)

let rec of_bytes_le = function
| [] -> Z0
| b :: r ->
  Z.add b
    (Z.mul (Zpos (XO (XO (XO (XO (XO (XO (XO (XO XH))))))))) (of_bytes_le r))

(** val bswap : nat -> z -> z **)

let bswap n0 v =
  of_bytes_le (rev (bytes_le n0 v))

(** val read_bytes : z -> nat -> z list -> z list option **)

let read_bytes off n0 data =
  let r = firstn n0 (skipn (Z.to_nat off) data) in
  if (&&) (Z.leb Z0 off) (Nat.eqb (length r) n0) then Some r else None

(** val write_bytes : z -> z list -> z list -> z list option **)

let write_bytes off bs data =
  if (&&) (Z.leb Z0 off)
       (Z.leb (Z.add off (Z.of_nat (length bs))) (Z.of_nat (length data)))
  then Some
         (app (firstn (Z.to_nat off) data)
           (app bs (skipn (add (Z.to_nat off) (length bs)) data)))
  else None

(** val nsize : kind -> nat **)

let nsize k =
  Z.to_nat (esize k)

(** val zlen : 'a1 list -> z **)

let zlen l =
  Z.of_nat (length l)

(** val elem_to_js : kind -> z -> jsval **)

let elem_to_js k bits =
  match k with
  | Int8 -> JNum (f64_of_Z (recenter (Zpos (XO (XO (XO XH)))) bits))
  | Int16 -> JNum (f64_of_Z (recenter (Zpos (XO (XO (XO (XO XH))))) bits))
  | Int32 ->
    JNum (f64_of_Z (recenter (Zpos (XO (XO (XO (XO (XO XH)))))) bits))
  | BigInt64 -> JBig (recenter (Zpos (XO (XO (XO (XO (XO (XO XH))))))) bits)
  | BigUint64 -> JBig bits
  | Float16 ->
    JNum
      (f64_of_fval
        (decode_float (Zpos (XO (XI (XO XH)))) (Zpos (XI (XO XH))) bits))
  | Float32 ->
    JNum
      (f64_of_fval
        (decode_float (Zpos (XI (XI (XI (XO XH))))) (Zpos (XO (XO (XO XH))))
          bits))
  | Float64 -> JNum (canon_num bits)
  | _ -> JNum (f64_of_Z bits)

(** val num_to_elem : cfg -> kind -> z -> z **)

let num_to_elem c k b =
  match k with
  | Float16 ->
    encode_float (Zpos (XO (XI (XO XH)))) (Zpos (XI (XO XH)))
      (fval_of_dbl (dbl_of_bits b))
  | Float32 ->
    encode_float (Zpos (XI (XI (XI (XO XH))))) (Zpos (XO (XO (XO XH))))
      (fval_of_dbl (dbl_of_bits b))
  | Float64 -> b
  | _ ->
    Z.modulo (conv c k (dbl_of_bits b))
      (Z.pow (Zpos (XO XH)) (Z.mul (Zpos (XO (XO (XO XH)))) (esize k)))

(** val js_to_elem : cfg -> kind -> jsval -> z res **)

let js_to_elem c k v =
  match k with
  | BigInt64 ->
    bind (to_bigint v) (fun z0 -> Ok
      (Z.modulo (toBigInt64_spec z0)
        (Z.pow (Zpos (XO XH)) (Zpos (XO (XO (XO (XO (XO (XO XH))))))))))
  | BigUint64 -> bind (to_bigint v) (fun z0 -> Ok (toBigUint64_spec z0))
  | _ -> bind (to_number v) (fun b -> Ok (num_to_elem c k b))

(** val float_kind : kind -> bool **)

let float_kind = function
| Float16 -> true
| Float32 -> true
| Float64 -> true
| _ -> false

(** val elem_f64_bits : kind -> z -> z **)

let elem_f64_bits k bits =
  match elem_to_js k bits with
  | JNum b -> b
  | _ -> Z0

(** val cast_elem : cfg -> kind -> kind -> z -> z option **)

let cast_elem c src dst bits =
  if is_big dst
  then Some bits
  else let payload_nan =
         match src with
         | Float16 ->
           (&&)
             (match decode_float (Zpos (XO (XI (XO XH)))) (Zpos (XI (XO XH)))
                      bits with
              | FNaN -> true
              | _ -> false)
             (negb
               (Z.eqb bits
                 (nan_bits (Zpos (XO (XI (XO XH)))) (Zpos (XI (XO XH))))))
         | Float32 ->
           (&&)
             (match decode_float (Zpos (XI (XI (XI (XO XH))))) (Zpos (XO (XO
                      (XO XH)))) bits with
              | FNaN -> true
              | _ -> false)
             (negb
               (Z.eqb bits
                 (nan_bits (Zpos (XI (XI (XI (XO XH))))) (Zpos (XO (XO (XO
                   XH)))))))
         | Float64 -> (&&) (f64_is_nan bits) (negb (Z.eqb bits cANON_NAN))
         | _ -> false
       in
       if (&&) payload_nan (float_kind dst)
       then None
       else let b = elem_f64_bits src bits in
            (match dst with
             | Float16 ->
               Some
                 (encode_float (Zpos (XO (XI (XO XH)))) (Zpos (XI (XO XH)))
                   (fval_of_dbl (dbl_of_bits b)))
             | Float32 ->
               Some
                 (encode_float (Zpos (XI (XI (XI (XO XH))))) (Zpos (XO (XO
                   (XO XH)))) (fval_of_dbl (dbl_of_bits b)))
             | Float64 -> Some b
             | _ ->
               Some
                 (Z.modulo (cast c dst (dbl_of_bits b))
                   (Z.pow (Zpos (XO XH))
                     (Z.mul (Zpos (XO (XO (XO XH)))) (esize dst)))))

type tarr = { t_buf : nat; t_kind : kind; t_off : z; t_blen : z option;
              t_alen : z option }

type dview = { v_buf : nat; v_off : z; v_blen : z option }

(** val ta_oob : tarr -> z -> bool **)

let ta_oob t buflen =
  let byte_end =
    match t.t_alen with
    | Some l -> u64 (Z.add t.t_off (u64 (Z.mul l (esize t.t_kind))))
    | None -> buflen
  in
  (||) (Z.ltb buflen t.t_off) (Z.ltb buflen byte_end)

(** val ta_length : tarr -> z -> z **)

let ta_length t buflen =
  match t.t_alen with
  | Some l -> l
  | None -> Z.div (u64 (Z.sub buflen t.t_off)) (esize t.t_kind)

(** val ta_byte_length : tarr -> z -> z **)

let ta_byte_length t buflen =
  if ta_oob t buflen
  then Z0
  else let l = ta_length t buflen in
       if Z.eqb l Z0
       then Z0
       else (match t.t_blen with
             | Some b -> b
             | None -> u64 (Z.mul l (esize t.t_kind)))

(** val validate_index : tarr -> fval -> z -> z option **)

let validate_index t x buflen =
  match x with
  | FFin (s, m, e) ->
    if negb (is_integral m e)
    then None
    else if (&&) s (Z.eqb m Z0)
         then None
         else if ta_oob t buflen
              then None
              else let length0 = ta_length t buflen in
                   let i = truncate x in
                   if (||) (Z.ltb i Z0) (Z.leb length0 i)
                   then None
                   else Some i
  | _ -> None

(** val validate_index_u64 : tarr -> z -> z -> z option **)

let validate_index_u64 t i buflen =
  if ta_oob t buflen
  then None
  else if Z.leb (ta_length t buflen) i then None else Some i

(** val dv_oob : dview -> z -> bool **)

let dv_oob v buflen =
  let byte_end =
    match v.v_blen with
    | Some l -> u64 (Z.add l v.v_off)
    | None -> buflen
  in
  (||) (Z.ltb buflen v.v_off) (Z.ltb buflen byte_end)

(** val dv_byte_length : dview -> z -> z **)

let dv_byte_length v buflen =
  match v.v_blen with
  | Some l -> l
  | None -> u64 (Z.sub buflen v.v_off)

(** val dv_check : dview -> z -> z -> z -> z res **)

let dv_check v get_index size0 buflen =
  if dv_oob v buflen
  then Err TypeError
  else if Z.ltb (dv_byte_length v buflen) (u64 (Z.add get_index size0))
       then Err RangeError
       else Ok (u64 (Z.add get_index v.v_off))

(** val ta_byte_index : tarr -> z -> z **)

let ta_byte_index t i =
  u64 (Z.add (u64 (Z.mul i (esize t.t_kind))) t.t_off)

(** val ta_read : tarr -> z -> z list -> z option **)

let ta_read t i data =
  option_map of_bytes_le
    (read_bytes (ta_byte_index t i) (nsize t.t_kind) data)

(** val ta_write : tarr -> z -> z -> z list -> z list option **)

let ta_write t i bits data =
  write_bytes (ta_byte_index t i) (bytes_le (nsize t.t_kind) bits) data

(** val ta_get_elem : tarr -> fval -> z list -> z option option **)

let ta_get_elem t x data =
  match validate_index t x (zlen data) with
  | Some i ->
    (match ta_read t i data with
     | Some b -> Some (Some b)
     | None -> None)
  | None -> Some None

(** val ta_set_elem : tarr -> fval -> z -> z list -> z list option **)

let ta_set_elem t x bits data =
  match validate_index t x (zlen data) with
  | Some i -> ta_write t i bits data
  | None -> Some data

(** val dv_read : kind -> bool -> z -> z list -> z option **)

let dv_read k le bi data =
  match read_bytes bi (nsize k) data with
  | Some bs ->
    let v = of_bytes_le bs in Some (if le then v else bswap (nsize k) v)
  | None -> None

(** val dv_write : kind -> bool -> z -> z -> z list -> z list option **)

let dv_write k le bi bits data =
  write_bytes bi
    (bytes_le (nsize k) (if le then bits else bswap (nsize k) bits)) data

type buffer = { b_data : z list option; b_max : z option; b_shared : bool }

type view =
| VTA of tarr
| VDV of dview

type state = { bufs : buffer option list; views : view option list;
               poisoned : bool }

(** val mAX_BUFFER_SIZE : z **)

let mAX_BUFFER_SIZE =
  Zpos (XO (XO (XO (XO (XO (XO (XO (XO (XO (XO (XO (XO (XO (XO (XO (XO (XO
    (XO (XO (XO (XO (XO (XO (XO (XO (XO (XO (XO (XO (XI
    XH))))))))))))))))))))))))))))))

(** val set_nth : nat -> 'a1 option -> 'a1 option list -> 'a1 option list **)

let rec set_nth n0 a l =
  match n0 with
  | O -> (match l with
          | [] -> a :: []
          | _ :: r -> a :: r)
  | S n' ->
    (match l with
     | [] -> None :: (set_nth n' a [])
     | x :: r -> x :: (set_nth n' a r))

(** val get_buf : state -> nat -> buffer option **)

let get_buf s b =
  nth b s.bufs None

(** val get_view : state -> nat -> view option **)

let get_view s v =
  nth v s.views None

(** val put_buf : state -> nat -> buffer option -> state **)

let put_buf s b x =
  { bufs = (set_nth b x s.bufs); views = s.views; poisoned = s.poisoned }

(** val put_view : state -> nat -> view option -> state **)

let put_view s v x =
  { bufs = s.bufs; views = (set_nth v x s.views); poisoned = s.poisoned }

(** val set_data : state -> nat -> z list -> state **)

let set_data s b d =
  match get_buf s b with
  | Some bf ->
    put_buf s b (Some { b_data = (Some d); b_max = bf.b_max; b_shared =
      bf.b_shared })
  | None -> s

(** val buf_data : state -> nat -> z list option **)

let buf_data s b =
  match get_buf s b with
  | Some bf -> bf.b_data
  | None -> None

(** val buf_fixed : state -> nat -> bool **)

let buf_fixed s b =
  match get_buf s b with
  | Some bf -> (match bf.b_max with
                | Some _ -> false
                | None -> true)
  | None -> true

(** val zeros : z -> z list **)

let zeros n0 =
  repeat Z0 (Z.to_nat n0)

(** val resize_list : z list -> z -> z list **)

let resize_list d n0 =
  app (firstn (Z.to_nat n0) d) (zeros (Z.sub n0 (Z.min n0 (zlen d))))

type out =
| OSkip
| ODone
| OVal of jsval
| OThrow of err
| OPanic

type mid =
| NoMid
| MidResize of nat * z
| MidDetach of nat

(** val do_resize : state -> nat -> z -> state res **)

let do_resize s b n0 =
  match get_buf s b with
  | Some bf ->
    if bf.b_shared
    then (match bf.b_max with
          | Some mx ->
            (match bf.b_data with
             | Some d ->
               if Z.ltb mx n0
               then Err RangeError
               else if Z.ltb n0 (zlen d)
                    then Err RangeError
                    else Ok
                           (put_buf s b (Some { b_data = (Some
                             (resize_list d n0)); b_max = bf.b_max;
                             b_shared = true }))
             | None -> Err TypeError)
          | None -> Err TypeError)
    else (match bf.b_max with
          | Some mx ->
            (match bf.b_data with
             | Some d ->
               if Z.ltb mx n0
               then Err RangeError
               else Ok
                      (put_buf s b (Some { b_data = (Some
                        (resize_list d n0)); b_max = bf.b_max; b_shared =
                        false }))
             | None -> Err TypeError)
          | None -> Err TypeError)
  | None -> Ok s

(** val do_detach : state -> nat -> state **)

let do_detach s b =
  match get_buf s b with
  | Some bf ->
    if bf.b_shared
    then s
    else put_buf s b (Some { b_data = None; b_max = bf.b_max; b_shared =
           false })
  | None -> s

(** val run_mid : state -> mid -> state res **)

let run_mid s = function
| NoMid -> Ok s
| MidResize (b, n0) -> do_resize s b n0
| MidDetach b -> Ok (do_detach s b)

(** val init_from_buffer :
    state -> kind -> nat -> jsval -> jsval -> tarr res **)

let init_from_buffer s k b off len =
  let size0 = esize k in
  bind (to_index off) (fun offset ->
    if negb (Z.eqb (Z.modulo offset size0) Z0)
    then Err RangeError
    else bind
           (match len with
            | JUndef -> Ok None
            | _ -> bind (to_index len) (fun l -> Ok (Some l)))
           (fun new_length ->
           match buf_data s b with
           | Some d ->
             let blen = zlen d in
             (match new_length with
              | Some l ->
                let nb = u64 (Z.mul l size0) in
                if Z.ltb blen (u64 (Z.add offset nb))
                then Err RangeError
                else Ok { t_buf = b; t_kind = k; t_off = offset; t_blen =
                       (Some nb); t_alen = (Some l) }
              | None ->
                if negb (buf_fixed s b)
                then if Z.ltb blen offset
                     then Err RangeError
                     else Ok { t_buf = b; t_kind = k; t_off = offset;
                            t_blen = None; t_alen = None }
                else if negb (Z.eqb (Z.modulo blen size0) Z0)
                     then Err RangeError
                     else if Z.ltb blen offset
                          then Err RangeError
                          else let nb = Z.sub blen offset in
                               Ok { t_buf = b; t_kind = k; t_off = offset;
                               t_blen = (Some nb); t_alen = (Some
                               (Z.div nb size0)) })
           | None -> Err TypeError))

(** val alloc_ta : state -> nat -> kind -> z -> (state * tarr) res **)

let alloc_ta s db k n0 =
  let bl = u64 (Z.mul (esize k) n0) in
  if Z.ltb mAX_BUFFER_SIZE bl
  then Err RangeError
  else Ok
         ((put_buf s db (Some { b_data = (Some (zeros bl)); b_max = None;
            b_shared = false })), { t_buf = db; t_kind = k; t_off = Z0;
         t_blen = (Some bl); t_alen = (Some n0) })

(** val ta_validate : state -> tarr -> z res **)

let ta_validate s t =
  match buf_data s t.t_buf with
  | Some d -> if ta_oob t (zlen d) then Err TypeError else Ok (zlen d)
  | None -> Err TypeError

(** val fval_of_bits : z -> fval **)

let fval_of_bits b =
  fval_of_dbl (dbl_of_bits b)

(** val set_element :
    cfg -> state -> tarr -> fval -> jsval -> state option res **)

let set_element c s t idx v =
  bind (js_to_elem c t.t_kind v) (fun bits ->
    match buf_data s t.t_buf with
    | Some d ->
      (match ta_set_elem t idx bits d with
       | Some d' -> Ok (Some (set_data s t.t_buf d'))
       | None -> Ok None)
    | None -> Ok (Some s))

(** val idx_of_Z : z -> fval **)

let idx_of_Z i =
  FFin (false, i, Z0)

(** val get_element : state -> tarr -> fval -> jsval option **)

let get_element s t idx =
  match buf_data s t.t_buf with
  | Some d ->
    (match ta_get_elem t idx d with
     | Some o ->
       (match o with
        | Some b -> Some (elem_to_js t.t_kind b)
        | None -> Some JUndef)
     | None -> None)
  | None -> Some JUndef

(** val seqZ : z -> nat -> z list **)

let rec seqZ start = function
| O -> []
| S n' -> start :: (seqZ (Z.add start (Zpos XH)) n')

(** val set_many :
    cfg -> state -> tarr -> z list -> jsval -> state option res **)

let rec set_many c s t ks v =
  match ks with
  | [] -> Ok (Some s)
  | k :: r ->
    bind (set_element c s t (idx_of_Z k) v) (fun o ->
      match o with
      | Some s' -> set_many c s' t r v
      | None -> Ok None)

(** val set_list :
    cfg -> state -> tarr -> z -> jsval list -> state option res **)

let rec set_list c s t k = function
| [] -> Ok (Some s)
| v :: r ->
  bind (set_element c s t (idx_of_Z k) v) (fun o ->
    match o with
    | Some s' -> set_list c s' t (Z.add k (Zpos XH)) r
    | None -> Ok None)

type key =
| KNum of z
| KNegZero

(** val key_index : key -> fval **)

let key_index = function
| KNum b ->
  (match fval_of_bits b with
   | FFin (neg, m, e) ->
     (match m with
      | Z0 -> FFin (false, Z0, e)
      | x -> FFin (neg, x, e))
   | x -> x)
| KNegZero -> FFin (true, Z0, Z0)

type op =
| NewBuf of nat * bool * jsval * jsval option
| Resize of nat * jsval
| Transfer of nat * nat * bool * jsval
| Detach of nat
| BufSlice of nat * nat * jsval * jsval
| MkTA of nat * kind * nat * jsval * jsval
| MkTALen of nat * nat * kind * jsval
| MkTAFrom of nat * nat * kind * nat
| MkDV of nat * nat * jsval * jsval
| Get of nat * key
| SetE of nat * key * jsval * mid
| DvGet of nat * kind * jsval * bool
| DvSet of nat * kind * jsval * jsval * bool * mid
| Fill of nat * jsval * jsval * jsval * mid
| CopyWithin of nat * jsval * jsval * jsval * mid
| SetTA of nat * nat * jsval
| SetArr of nat * jsval list * jsval
| Subarray of nat * nat * jsval * jsval
| Slice of nat * nat * nat * jsval * jsval * mid
| At of nat * jsval
| With of nat * nat * nat * jsval * jsval

(** val thrown : state -> 'a1 res -> ('a1 -> state * out) -> state * out **)

let thrown s r k =
  match r with
  | Ok a -> k a
  | Err e -> (s, (OThrow e))

(** val arg_mid : jsval -> mid -> mid **)

let arg_mid a m =
  match a with
  | JUndef -> NoMid
  | _ -> m

(** val step : cfg -> state -> op -> state * out **)

let step c s = function
| NewBuf (d, shared, len, max0) ->
  thrown s (to_index len) (fun n0 ->
    thrown s
      (match max0 with
       | Some mv ->
         (match mv with
          | JUndef -> Ok None
          | _ -> bind (to_index mv) (fun m -> Ok (Some m)))
       | None -> Ok None) (fun mx ->
      match mx with
      | Some m ->
        if Z.ltb m n0
        then (s, (OThrow RangeError))
        else if Z.ltb mAX_BUFFER_SIZE m
             then (s, (OThrow RangeError))
             else ((put_buf s d (Some { b_data = (Some (zeros n0)); b_max =
                     (Some m); b_shared = shared })), ODone)
      | None ->
        if Z.ltb mAX_BUFFER_SIZE n0
        then (s, (OThrow RangeError))
        else ((put_buf s d (Some { b_data = (Some (zeros n0)); b_max = None;
                b_shared = shared })), ODone)))
| Resize (b, nv) ->
  (match get_buf s b with
   | Some bf ->
     if (&&) bf.b_shared (match bf.b_max with
                          | Some _ -> false
                          | None -> true)
     then (s, (OThrow TypeError))
     else thrown s (to_index nv) (fun n0 ->
            thrown s (do_resize s b n0) (fun s' -> (s', ODone)))
   | None -> (s, OSkip))
| Transfer (d, b, to_fixed, nv) ->
  (match get_buf s b with
   | Some bf ->
     if bf.b_shared
     then (s, (OThrow TypeError))
     else thrown s
            (match nv with
             | JUndef ->
               Ok (match bf.b_data with
                   | Some dt -> zlen dt
                   | None -> Z0)
             | _ -> to_index nv) (fun n0 ->
            match bf.b_data with
            | Some dt ->
              let new_max = if to_fixed then None else bf.b_max in
              (match new_max with
               | Some mx ->
                 if Z.ltb mx n0
                 then (s, (OThrow RangeError))
                 else ((put_buf (do_detach s b) d (Some { b_data = (Some
                         (resize_list dt n0)); b_max = new_max; b_shared =
                         false })), ODone)
               | None ->
                 ((put_buf (do_detach s b) d (Some { b_data = (Some
                    (resize_list dt n0)); b_max = None; b_shared = false })),
                   ODone))
            | None -> (s, (OThrow TypeError)))
   | None -> (s, OSkip))
| Detach b ->
  (match get_buf s b with
   | Some bf ->
     if bf.b_shared then (s, (OThrow TypeError)) else ((do_detach s b), ODone)
   | None -> (s, OSkip))
| BufSlice (d, b, st, en) ->
  (match get_buf s b with
   | Some bf ->
     (match bf.b_data with
      | Some dt ->
        let len = zlen dt in
        thrown s (relative_start st len) (fun first ->
          thrown s (relative_end en len) (fun final ->
            let new_len = Z.max Z0 (Z.sub final first) in
            let chunk = firstn (Z.to_nat new_len) (skipn (Z.to_nat first) dt)
            in
            ((put_buf s d (Some { b_data = (Some chunk); b_max = None;
               b_shared = bf.b_shared })), ODone)))
      | None -> (s, (OThrow TypeError)))
   | None -> (s, OSkip))
| MkTA (d, k, b, off, len) ->
  (match get_buf s b with
   | Some _ ->
     thrown s (init_from_buffer s k b off len) (fun t ->
       ((put_view s d (Some (VTA t))), ODone))
   | None -> (s, OSkip))
| MkTALen (d, db, k, nv) ->
  thrown s (to_index nv) (fun n0 ->
    thrown s (alloc_ta s db k n0) (fun pat ->
      let (s', t) = pat in ((put_view s' d (Some (VTA t))), ODone)))
| MkTAFrom (d, db, k, src) ->
  (match get_view s src with
   | Some v ->
     (match v with
      | VTA st ->
        thrown s (ta_validate s st) (fun blen ->
          match buf_data s st.t_buf with
          | Some data ->
            let elen = ta_length st blen in
            let bl = u64 (Z.mul (esize k) elen) in
            if kind_eqb k st.t_kind
            then (match read_bytes st.t_off (Z.to_nat bl) data with
                  | Some chunk ->
                    ((put_view
                       (put_buf s db (Some { b_data = (Some chunk); b_max =
                         None; b_shared = false })) d (Some (VTA { t_buf =
                       db; t_kind = k; t_off = Z0; t_blen = (Some bl);
                       t_alen = (Some elen) }))), ODone)
                  | None -> (s, OPanic))
            else if negb (eqb (is_big k) (is_big st.t_kind))
                 then (s, (OThrow TypeError))
                 else let go =
                        let rec go n0 i acc poison =
                          match n0 with
                          | O -> Some (acc, poison)
                          | S n' ->
                            (match ta_read st i data with
                             | Some bits ->
                               (match cast_elem c st.t_kind k bits with
                                | Some b' ->
                                  go n' (Z.add i (Zpos XH))
                                    (app acc (bytes_le (nsize k) b')) poison
                                | None ->
                                  go n' (Z.add i (Zpos XH))
                                    (app acc (bytes_le (nsize k) Z0)) true)
                             | None -> None)
                        in go
                      in
                      (match go (Z.to_nat elen) Z0 [] false with
                       | Some p ->
                         let (bytes, poison) = p in
                         let s1 =
                           put_buf s db (Some { b_data = (Some bytes);
                             b_max = None; b_shared = false })
                         in
                         let s2 =
                           put_view s1 d (Some (VTA { t_buf = db; t_kind = k;
                             t_off = Z0; t_blen = (Some bl); t_alen = (Some
                             elen) }))
                         in
                         ({ bufs = s2.bufs; views = s2.views; poisoned =
                         ((||) s2.poisoned poison) }, ODone)
                       | None -> (s, OPanic))
          | None -> (s, OPanic))
      | VDV _ -> (s, OSkip))
   | None -> (s, OSkip))
| MkDV (d, b, off, len) ->
  (match get_buf s b with
   | Some bf ->
     thrown s (to_index off) (fun offset ->
       match bf.b_data with
       | Some dt ->
         let blen = zlen dt in
         if Z.ltb blen offset
         then (s, (OThrow RangeError))
         else (match len with
               | JUndef ->
                 let vl =
                   if buf_fixed s b then Some (Z.sub blen offset) else None
                 in
                 ((put_view s d (Some (VDV { v_buf = b; v_off = offset;
                    v_blen = vl }))), ODone)
               | _ ->
                 thrown s (to_index len) (fun l ->
                   if Z.ltb blen (u64 (Z.add offset l))
                   then (s, (OThrow RangeError))
                   else ((put_view s d (Some (VDV { v_buf = b; v_off =
                           offset; v_blen = (Some l) }))), ODone)))
       | None -> (s, (OThrow TypeError)))
   | None -> (s, OSkip))
| Get (v, i) ->
  (match get_view s v with
   | Some v0 ->
     (match v0 with
      | VTA t ->
        (match get_element s t (key_index i) with
         | Some r -> (s, (OVal r))
         | None -> (s, OPanic))
      | VDV _ -> (s, OSkip))
   | None -> (s, OSkip))
| SetE (v, i, x, m) ->
  (match get_view s v with
   | Some v0 ->
     (match v0 with
      | VTA t ->
        thrown s (run_mid s (match x with
                             | JUndef -> NoMid
                             | _ -> m)) (fun s1 ->
          thrown s1 (set_element c s1 t (key_index i) x) (fun o0 ->
            match o0 with
            | Some s2 -> (s2, ODone)
            | None -> (s1, OPanic)))
      | VDV _ -> (s, OSkip))
   | None -> (s, OSkip))
| DvGet (v, k, off, le) ->
  (match get_view s v with
   | Some v0 ->
     (match v0 with
      | VTA _ -> (s, OSkip)
      | VDV dv ->
        thrown s (to_index off) (fun gi ->
          match buf_data s dv.v_buf with
          | Some dt ->
            thrown s (dv_check dv gi (esize k) (zlen dt)) (fun bi ->
              match dv_read k le bi dt with
              | Some bits -> (s, (OVal (elem_to_js k bits)))
              | None -> (s, OPanic))
          | None -> (s, (OThrow TypeError))))
   | None -> (s, OSkip))
| DvSet (v, k, off, x, le, m) ->
  (match get_view s v with
   | Some v0 ->
     (match v0 with
      | VTA _ -> (s, OSkip)
      | VDV dv ->
        thrown s (to_index off) (fun gi ->
          thrown s (run_mid s (match x with
                               | JUndef -> NoMid
                               | _ -> m)) (fun s1 ->
            thrown s1 (js_to_elem c k x) (fun bits ->
              match buf_data s1 dv.v_buf with
              | Some dt ->
                thrown s1 (dv_check dv gi (esize k) (zlen dt)) (fun bi ->
                  match dv_write k le bi bits dt with
                  | Some dt' -> ((set_data s1 dv.v_buf dt'), ODone)
                  | None -> (s1, OPanic))
              | None -> (s1, (OThrow TypeError))))))
   | None -> (s, OSkip))
| Fill (v, x, st, en, m) ->
  (match get_view s v with
   | Some v0 ->
     (match v0 with
      | VTA t ->
        thrown s (ta_validate s t) (fun blen ->
          let len = ta_length t blen in
          thrown s
            (if is_big t.t_kind
             then bind (to_bigint x) (fun z0 -> Ok (JBig z0))
             else bind (to_number x) (fun b -> Ok (JNum b))) (fun value ->
            thrown s (relative_start st len) (fun start_index ->
              thrown s (run_mid s (arg_mid en m)) (fun s1 ->
                thrown s1 (relative_end en len) (fun end_index ->
                  thrown s1 (ta_validate s1 t) (fun blen1 ->
                    let len1 = ta_length t blen1 in
                    let end_index0 = Z.min end_index len1 in
                    thrown s1
                      (set_many c s1 t
                        (seqZ start_index
                          (Z.to_nat (Z.sub end_index0 start_index))) value)
                      (fun o0 ->
                      match o0 with
                      | Some s2 -> (s2, ODone)
                      | None -> (s1, OPanic))))))))
      | VDV _ -> (s, OSkip))
   | None -> (s, OSkip))
| CopyWithin (v, tg, st, en, m) ->
  (match get_view s v with
   | Some v0 ->
     (match v0 with
      | VTA t ->
        thrown s (ta_validate s t) (fun blen ->
          let len = ta_length t blen in
          thrown s (relative_start tg len) (fun to0 ->
            thrown s (relative_start st len) (fun from ->
              thrown s (run_mid s (arg_mid en m)) (fun s1 ->
                thrown s1 (relative_end en len) (fun final ->
                  let count =
                    if (&&) (Z.leb from final) (Z.leb to0 len)
                    then Z.min (Z.sub final from) (Z.sub len to0)
                    else Z0
                  in
                  if Z.ltb Z0 count
                  then thrown s1 (ta_validate s1 t) (fun blen1 ->
                         match buf_data s1 t.t_buf with
                         | Some dt ->
                           let len1 = ta_length t blen1 in
                           let size0 = esize t.t_kind in
                           let limit =
                             u64 (Z.add (u64 (Z.mul len1 size0)) t.t_off)
                           in
                           let to_bi =
                             u64 (Z.add (u64 (Z.mul to0 size0)) t.t_off)
                           in
                           let from_bi =
                             u64 (Z.add (u64 (Z.mul from size0)) t.t_off)
                           in
                           let count_bytes = u64 (Z.mul count size0) in
                           if (||) (Z.leb limit to_bi) (Z.leb limit from_bi)
                           then (s1, ODone)
                           else let count_bytes0 =
                                  Z.min count_bytes
                                    (Z.min (Z.sub limit to_bi)
                                      (Z.sub limit from_bi))
                                in
                                (match read_bytes from_bi
                                         (Z.to_nat count_bytes0) dt with
                                 | Some chunk ->
                                   (match write_bytes to_bi chunk dt with
                                    | Some dt' ->
                                      ((set_data s1 t.t_buf dt'), ODone)
                                    | None -> (s1, OPanic))
                                 | None -> (s1, OPanic))
                         | None -> (s1, OPanic))
                  else (s1, ODone))))))
      | VDV _ -> (s, OSkip))
   | None -> (s, OSkip))
| SetTA (v, src, off) ->
  (match get_view s v with
   | Some v0 ->
     (match v0 with
      | VTA tgt ->
        (match get_view s src with
         | Some v1 ->
           (match v1 with
            | VTA srt ->
              thrown s (to_ioi off) (fun oi ->
                match oi with
                | PInf ->
                  thrown s (ta_validate s tgt) (fun _ ->
                    thrown s (ta_validate s srt) (fun _ -> (s, (OThrow
                      RangeError))))
                | NInf -> (s, (OThrow RangeError))
                | Int z0 ->
                  if Z.ltb z0 Z0
                  then (s, (OThrow RangeError))
                  else thrown s (ta_validate s tgt) (fun tblen ->
                         let target_length = ta_length tgt tblen in
                         thrown s (ta_validate s srt) (fun sblen ->
                           let src_length = ta_length srt sblen in
                           let tk = tgt.t_kind in
                           let sk = srt.t_kind in
                           let src_byte_length = ta_byte_length srt sblen in
                           if Z.ltb target_length (u64 (Z.add src_length z0))
                           then (s, (OThrow RangeError))
                           else if negb (eqb (is_big tk) (is_big sk))
                                then (s, (OThrow TypeError))
                                else (match buf_data s srt.t_buf with
                                      | Some sdata ->
                                        (match buf_data s tgt.t_buf with
                                         | Some tdata ->
                                           let same =
                                             Nat.eqb srt.t_buf tgt.t_buf
                                           in
                                           let src_view =
                                             if same
                                             then option_map (fun ch -> (ch,
                                                    Z0))
                                                    (read_bytes srt.t_off
                                                      (Z.to_nat
                                                        src_byte_length)
                                                      sdata)
                                             else Some (sdata, srt.t_off)
                                           in
                                           (match src_view with
                                            | Some p ->
                                              let (sbytes, src_byte_index) = p
                                              in
                                              let target_byte_index =
                                                u64
                                                  (Z.add
                                                    (u64
                                                      (Z.mul z0 (esize tk)))
                                                    tgt.t_off)
                                              in
                                              if kind_eqb sk tk
                                              then let byte_count =
                                                     u64
                                                       (Z.mul (esize tk)
                                                         src_length)
                                                   in
                                                   (match read_bytes
                                                            src_byte_index
                                                            (Z.to_nat
                                                              byte_count)
                                                            sbytes with
                                                    | Some chunk ->
                                                      (match write_bytes
                                                               target_byte_index
                                                               chunk tdata with
                                                       | Some td' ->
                                                         ((set_data s
                                                            tgt.t_buf td'),
                                                           ODone)
                                                       | None -> (s, OPanic))
                                                    | None -> (s, OPanic))
                                              else let go =
                                                     let rec go n0 si ti td =
                                                       match n0 with
                                                       | O -> Some td
                                                       | S n' ->
                                                         (match read_bytes si
                                                                  (nsize sk)
                                                                  sbytes with
                                                          | Some bs ->
                                                            (match js_to_elem
                                                                    c tk
                                                                    (elem_to_js
                                                                    sk
                                                                    (of_bytes_le
                                                                    bs)) with
                                                             | Ok bits ->
                                                               (match 
                                                                write_bytes
                                                                  ti
                                                                  (bytes_le
                                                                    (nsize tk)
                                                                    bits) td with
                                                                | Some td' ->
                                                                  go n'
                                                                    (Z.add si
                                                                    (esize sk))
                                                                    (Z.add ti
                                                                    (esize tk))
                                                                    td'
                                                                | None -> None)
                                                             | Err _ -> None)
                                                          | None -> None)
                                                     in go
                                                   in
                                                   (match go
                                                            (Z.to_nat
                                                              src_length)
                                                            src_byte_index
                                                            target_byte_index
                                                            tdata with
                                                    | Some td' ->
                                                      ((set_data s tgt.t_buf
                                                         td'), ODone)
                                                    | None -> (s, OPanic))
                                            | None -> (s, OPanic))
                                         | None -> (s, OPanic))
                                      | None -> (s, OPanic)))))
            | VDV _ -> (s, OSkip))
         | None -> (s, OSkip))
      | VDV _ -> (s, OSkip))
   | None -> (s, OSkip))
| SetArr (v, xs, off) ->
  (match get_view s v with
   | Some v0 ->
     (match v0 with
      | VTA t ->
        thrown s (to_ioi off) (fun oi ->
          match oi with
          | PInf ->
            thrown s (ta_validate s t) (fun _ -> (s, (OThrow RangeError)))
          | NInf -> (s, (OThrow RangeError))
          | Int z0 ->
            if Z.ltb z0 Z0
            then (s, (OThrow RangeError))
            else thrown s (ta_validate s t) (fun blen ->
                   let target_length = ta_length t blen in
                   if Z.ltb target_length (u64 (Z.add (zlen xs) z0))
                   then (s, (OThrow RangeError))
                   else (match set_list c s t z0 xs with
                         | Ok a ->
                           (match a with
                            | Some s' -> (s', ODone)
                            | None -> (s, OPanic))
                         | Err e ->
                           let pre =
                             let rec pre s0 k = function
                             | [] -> s0
                             | x :: r ->
                               (match set_element c s0 t (idx_of_Z k) x with
                                | Ok a ->
                                  (match a with
                                   | Some s1 -> pre s1 (Z.add k (Zpos XH)) r
                                   | None -> s0)
                                | Err _ -> s0)
                             in pre
                           in
                           ((pre s z0 xs), (OThrow e)))))
      | VDV _ -> (s, OSkip))
   | None -> (s, OSkip))
| Subarray (d, v, st, en) ->
  (match get_view s v with
   | Some v0 ->
     (match v0 with
      | VTA t ->
        let src_len =
          match buf_data s t.t_buf with
          | Some dt ->
            if ta_oob t (zlen dt) then Z0 else ta_length t (zlen dt)
          | None -> Z0
        in
        let size0 = esize t.t_kind in
        thrown s (relative_start st src_len) (fun start_index ->
          let begin0 = u64 (Z.add t.t_off (u64 (Z.mul start_index size0))) in
          (match t.t_alen with
           | Some _ ->
             thrown s (relative_end en src_len) (fun end_index ->
               let new_len = Z.max Z0 (Z.sub end_index start_index) in
               thrown s
                 (init_from_buffer s t.t_kind t.t_buf (JNum
                   (f64_of_Z begin0)) (JNum (f64_of_Z new_len))) (fun nt ->
                 thrown s (ta_validate s nt) (fun _ ->
                   ((put_view s d (Some (VTA nt))), ODone))))
           | None ->
             (match en with
              | JUndef ->
                thrown s
                  (init_from_buffer s t.t_kind t.t_buf (JNum
                    (f64_of_Z begin0)) JUndef) (fun nt ->
                  thrown s (ta_validate s nt) (fun _ ->
                    ((put_view s d (Some (VTA nt))), ODone)))
              | _ ->
                thrown s (relative_end en src_len) (fun end_index ->
                  let new_len = Z.max Z0 (Z.sub end_index start_index) in
                  thrown s
                    (init_from_buffer s t.t_kind t.t_buf (JNum
                      (f64_of_Z begin0)) (JNum (f64_of_Z new_len)))
                    (fun nt ->
                    thrown s (ta_validate s nt) (fun _ ->
                      ((put_view s d (Some (VTA nt))), ODone)))))))
      | VDV _ -> (s, OSkip))
   | None -> (s, OSkip))
| Slice (d, db, v, st, en, m) ->
  (match get_view s v with
   | Some v0 ->
     (match v0 with
      | VTA t ->
        thrown s (ta_validate s t) (fun blen ->
          let src_len = ta_length t blen in
          let k = t.t_kind in
          thrown s (relative_start st src_len) (fun start_index ->
            thrown s (run_mid s (arg_mid en m)) (fun s1 ->
              thrown s1 (relative_end en src_len) (fun end_index ->
                let count = Z.max Z0 (Z.sub end_index start_index) in
                thrown s1 (alloc_ta s1 db k count) (fun pat ->
                  let (s2, nt) = pat in
                  let s3 = put_view s2 d (Some (VTA nt)) in
                  if Z.eqb count Z0
                  then (s3, ODone)
                  else (match ta_validate s3 t with
                        | Ok blen1 ->
                          let end_index0 = Z.min end_index (ta_length t blen1)
                          in
                          let count0 = Z.max Z0 (Z.sub end_index0 start_index)
                          in
                          if Z.eqb count0 Z0
                          then (s3, ODone)
                          else (match buf_data s3 t.t_buf with
                                | Some dt ->
                                  let byte_count = Z.mul count0 (esize k) in
                                  let src_bi =
                                    u64
                                      (Z.add
                                        (u64 (Z.mul start_index (esize k)))
                                        t.t_off)
                                  in
                                  (match read_bytes src_bi
                                           (Z.to_nat byte_count) dt with
                                   | Some chunk ->
                                     (match buf_data s3 db with
                                      | Some nd ->
                                        (match write_bytes Z0 chunk nd with
                                         | Some nd' ->
                                           ((set_data s3 db nd'), ODone)
                                         | None -> (s3, OPanic))
                                      | None -> (s3, OPanic))
                                   | None -> (s3, OPanic))
                                | None -> (s3, OPanic))
                        | Err e -> (s1, (OThrow e))))))))
      | VDV _ -> (s, OSkip))
   | None -> (s, OSkip))
| At (v, i) ->
  (match get_view s v with
   | Some v0 ->
     (match v0 with
      | VTA t ->
        thrown s (ta_validate s t) (fun blen ->
          let len = ta_length t blen in
          thrown s (to_ioi i) (fun ri ->
            match ri with
            | Int z0 ->
              let k = if Z.leb Z0 z0 then z0 else Z.add len z0 in
              if (||) (Z.ltb k Z0) (Z.leb len k)
              then (s, (OVal JUndef))
              else (match get_element s t (idx_of_Z k) with
                    | Some r -> (s, (OVal r))
                    | None -> (s, OPanic))
            | _ -> (s, (OVal JUndef))))
      | VDV _ -> (s, OSkip))
   | None -> (s, OSkip))
| With (d, db, v, i, x) ->
  (match get_view s v with
   | Some v0 ->
     (match v0 with
      | VTA t ->
        thrown s (ta_validate s t) (fun blen ->
          let len = ta_length t blen in
          let k = t.t_kind in
          thrown s (to_ioi i) (fun ri ->
            thrown s
              (if is_big k
               then bind (to_bigint x) (fun z0 -> Ok (JBig z0))
               else bind (to_number x) (fun b -> Ok (JNum b))) (fun value ->
              match ri with
              | Int z0 ->
                let rel =
                  if Z.leb Z0 z0
                  then Some z0
                  else if Z.leb Z0 (Z.add len z0)
                       then Some (Z.add len z0)
                       else None
                in
                let actual =
                  match rel with
                  | Some r ->
                    (match buf_data s t.t_buf with
                     | Some dt -> validate_index_u64 t r (zlen dt)
                     | None -> None)
                  | None -> None
                in
                (match actual with
                 | Some ai ->
                   thrown s (alloc_ta s db k len) (fun pat ->
                     let (s1, nt) = pat in
                     let go =
                       let rec go n0 j st0 =
                         match n0 with
                         | O -> Some st0
                         | S n' ->
                           let val0 =
                             if Z.eqb j ai
                             then Some value
                             else get_element st0 t (idx_of_Z j)
                           in
                           (match val0 with
                            | Some vv ->
                              (match set_element c st0 nt (idx_of_Z j) vv with
                               | Ok a ->
                                 (match a with
                                  | Some st1 -> go n' (Z.add j (Zpos XH)) st1
                                  | None -> None)
                               | Err _ -> None)
                            | None -> None)
                       in go
                     in
                     (match go (Z.to_nat len) Z0 s1 with
                      | Some s2 -> ((put_view s2 d (Some (VTA nt))), ODone)
                      | None -> (s, OPanic)))
                 | None -> (s, (OThrow RangeError)))
              | _ -> (s, (OThrow RangeError)))))
      | VDV _ -> (s, OSkip))
   | None -> (s, OSkip))

type vobs =
| VNone
| VTAObs of z * z * z
| VDVObs of (z * z) option

(** val obs_view : state -> view option -> vobs **)

let obs_view s = function
| Some v0 ->
  (match v0 with
   | VTA t ->
     (match buf_data s t.t_buf with
      | Some dt ->
        let bl = zlen dt in
        if ta_oob t bl
        then VTAObs (Z0, Z0, Z0)
        else VTAObs ((ta_length t bl), (ta_byte_length t bl), t.t_off)
      | None -> VTAObs (Z0, Z0, Z0))
   | VDV dv ->
     (match buf_data s dv.v_buf with
      | Some dt ->
        if dv_oob dv (zlen dt)
        then VDVObs None
        else VDVObs (Some ((dv_byte_length dv (zlen dt)), dv.v_off))
      | None -> VDVObs None))
| None -> VNone

type bobs =
| BNone
| BDetached
| BBytes of z list * z option

(** val obs_buf : buffer option -> bobs **)

let obs_buf = function
| Some bf ->
  (match bf.b_data with
   | Some d -> BBytes (d, bf.b_max)
   | None -> BDetached)
| None -> BNone

(** val observe : state -> (bobs list * vobs list) * bool **)

let observe s =
  (((map obs_buf s.bufs), (map (obs_view s) s.views)), s.poisoned)

(** val init_state : state **)

let init_state =
  { bufs = []; views = []; poisoned = false }
